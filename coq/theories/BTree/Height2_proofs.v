(* BTree/Height2_proofs.v — PROOFS: the refinement M = S for every history outside the known classes in
   which the tree never grows beyond height 2 (an internal root over leaves; any number of leaf splits,
   deletes leaving empty leaves and dead bytes, seeks, reopens). *)
From Coq Require Import Lia ZifyBool ZifyN ZifyNat FinFun.
From NDB Require Import Base.Bytes Base.Bytes_proofs BTree.BTree BTree.Spec BTree.Leaf_proofs
  BTree.SingleLeaf_proofs BTree.Chain_proofs.
Ltac sp := repeat match goal with |- _ /\ _ => split end; auto.

(* ---------- spec functions over a concatenation X ++ c ++ Y with X < k < Y ---------- *)
Definition all_lt (k : key) (X : list cell) : Prop := Forall (fun x : cell => lex_cmp (fst x) k = Lt) X.
Definition all_gt (k : key) (Y : list cell) : Prop := Forall (fun x : cell => lex_cmp (fst x) k = Gt) Y.

Lemma s_from_app_lt k X Z : all_lt k X -> s_from k (X ++ Z) = s_from k Z.
Proof. induction 1 as [|x X Hx _ IH]; cbn [app s_from]; [reflexivity|]. rewrite Hx. exact IH. Qed.
Lemma s_from_all_gt k Y : all_gt k Y -> s_from k Y = Y.
Proof. destruct 1 as [|y Y Hy _]; cbn [s_from]; [reflexivity|]. rewrite Hy. reflexivity. Qed.
Lemma s_from_app_gt k c Y : all_gt k Y -> s_from k (c ++ Y) = s_from k c ++ Y.
Proof.
  intro HY. induction c as [|x c IH]; cbn [app s_from]; [apply s_from_all_gt; exact HY|].
  destruct (lex_cmp (fst x) k); [reflexivity | exact IH | reflexivity].
Qed.
Lemma s_insert_app_lt k v X Z : all_lt k X -> s_insert k v (X ++ Z) = X ++ s_insert k v Z.
Proof. induction 1 as [|x X Hx _ IH]; cbn [app s_insert]; [reflexivity|]. rewrite Hx, IH. reflexivity. Qed.
Lemma s_insert_all_gt k v Y : all_gt k Y -> s_insert k v Y = (k, v) :: Y.
Proof. destruct 1 as [|y Y Hy _]; cbn [s_insert]; [reflexivity|]. rewrite Hy. reflexivity. Qed.
Lemma s_insert_app_gt k v c Y : all_gt k Y -> s_insert k v (c ++ Y) = s_insert k v c ++ Y.
Proof.
  intro HY. induction c as [|x c IH]; cbn [app s_insert]; [apply s_insert_all_gt; exact HY|].
  destruct (lex_cmp (fst x) k); [reflexivity | rewrite IH; reflexivity | reflexivity].
Qed.
Lemma cell_eqb_key (x : cell) k v : cell_eqb x k v = true -> lex_cmp (fst x) k = Eq.
Proof. unfold cell_eqb. intro H. apply andb_prop in H. destruct H as [H _]. apply bytes_eqb_eq in H. rewrite H. apply lex_cmp_refl. Qed.
Lemma s_delete_app_lt k v X Z : all_lt k X ->
  s_delete k v (X ++ Z) = (fst (s_delete k v Z), X ++ snd (s_delete k v Z)).
Proof.
  induction 1 as [|x X Hx _ IH]; cbn [app s_delete]; [destruct (s_delete k v Z); reflexivity|].
  destruct (cell_eqb x k v) eqn:E; [apply cell_eqb_key in E; congruence|].
  rewrite IH. reflexivity.
Qed.
Lemma s_delete_all_gt k v Y : all_gt k Y -> s_delete k v Y = (false, Y).
Proof.
  induction 1 as [|y Y Hy _ IH]; cbn [s_delete]; [reflexivity|].
  destruct (cell_eqb y k v) eqn:E; [apply cell_eqb_key in E; congruence|]. rewrite IH. reflexivity.
Qed.
Lemma s_delete_app_gt k v c Y : all_gt k Y ->
  s_delete k v (c ++ Y) = (fst (s_delete k v c), snd (s_delete k v c) ++ Y).
Proof.
  intro HY. induction c as [|x c IH]; cbn [app s_delete]; [apply s_delete_all_gt; exact HY|].
  destruct (cell_eqb x k v); [reflexivity|]. rewrite IH. destruct (s_delete k v c). reflexivity.
Qed.
Lemma has_key_app k X Z : has_key k (X ++ Z) = has_key k X || has_key k Z.
Proof. unfold has_key. apply existsb_app. Qed.

(* ---------- the leaves under an internal page ---------- *)
Definition key_in (lo hi : option key) (k : key) : Prop :=
  match lo with None => True | Some l => lex_cmp l k <> Gt end /\
  match hi with None => True | Some h => lex_cmp k h = Lt end.
Definition leaf_ok (lo hi : option key) (c : list cell) : Prop :=
  ssorted c /\ Forall (fun x : cell => key_in lo hi (fst x)) c.

(* leaves_rep h p lo cells Ls Ps: page p is the leaf covering [lo, first separator of cells); its right
   sibling is the child of the first cell, which covers the next interval; ...; the last leaf points to 0.
   Ls are the cell lists in order, Ps the page ids in order. *)
Fixpoint leaves_rep (h : heap) (p : N) (lo : option key) (cells : list cell) (Ls : list (list cell)) (Ps : list N) : Prop :=
  match cells with
  | [] => exists c d, Ls = [c] /\ Ps = [p] /\ hget h p = Some (Leaf c 0 d) /\ leaf_ok lo None c
  | (s, q) :: t => exists c d Ls' Ps', Ls = c :: Ls' /\ Ps = p :: Ps' /\
        hget h p = Some (Leaf c q d) /\ leaf_ok lo (Some s) c /\ q <> 0 /\ leaves_rep h q (Some s) t Ls' Ps'
  end.

(* the part before a focus: leaves for the cells A, ending at child t with lower bound lo_t *)
Fixpoint prefix_rep (h : heap) (p : N) (lo : option key) (A : list cell) (Lb : list (list cell)) (Pb : list N)
                    (t : N) (lo_t : option key) : Prop :=
  match A with
  | [] => Lb = [] /\ Pb = [] /\ t = p /\ lo_t = lo
  | (s, q) :: A' => exists c d Lb' Pb', Lb = c :: Lb' /\ Pb = p :: Pb' /\
        hget h p = Some (Leaf c q d) /\ leaf_ok lo (Some s) c /\ q <> 0 /\ prefix_rep h q (Some s) A' Lb' Pb' t lo_t
  end.

Lemma leaves_rep_app h : forall A p lo B Ls Ps,
  leaves_rep h p lo (A ++ B) Ls Ps <->
  exists Lb Pb t lo_t Lr Pr, Ls = Lb ++ Lr /\ Ps = Pb ++ Pr /\
    prefix_rep h p lo A Lb Pb t lo_t /\ leaves_rep h t lo_t B Lr Pr.
Proof.
  induction A as [|[s q] A IH]; intros p lo B Ls Ps; cbn [app].
  - split.
    + intro H. exists [], [], p, lo, Ls, Ps. split; [reflexivity|]. split; [reflexivity|]. split; [cbn; auto|exact H].
    + intros (Lb & Pb & t & lo_t & Lr & Pr & -> & -> & (-> & -> & -> & ->) & H). exact H.
  - cbn [leaves_rep prefix_rep]. split.
    + intros (c & d & Ls' & Ps' & -> & -> & Hg & Hok & Hq & H).
      apply IH in H. destruct H as (Lb & Pb & t & lo_t & Lr & Pr & -> & -> & Hp & Hr).
      exists (c :: Lb), (p :: Pb), t, lo_t, Lr, Pr. split; [reflexivity|]. split; [reflexivity|]. split; [|exact Hr].
      exists c, d, Lb, Pb. sp.
    + intros (Lb & Pb & t & lo_t & Lr & Pr & -> & -> & (c & d & Lb' & Pb' & -> & -> & Hg & Hok & Hq & Hp) & Hr).
      exists c, d, (Lb' ++ Lr), (Pb' ++ Pr). sp.
      apply IH. exists Lb', Pb', t, lo_t, Lr, Pr. sp.
Qed.

(* frames: writing a page that is not one of the listed pages *)
Lemma hget_hset_other h u v x : x <> u -> hget (hset h u v) x = hget h x.
Proof. intro H. unfold hset. cbn [hget]. destruct (u =? x) eqn:E; [apply N.eqb_eq in E; congruence|reflexivity]. Qed.

Lemma leaves_rep_frame h u v : forall cells p lo Ls Ps,
  leaves_rep h p lo cells Ls Ps -> ~ In u Ps -> leaves_rep (hset h u v) p lo cells Ls Ps.
Proof.
  induction cells as [|[s q] t IH]; intros p lo Ls Ps H Hu; cbn [leaves_rep] in *.
  - destruct H as (c & d & -> & -> & Hg & Hok). exists c, d. sp.
    rewrite hget_hset_other; [exact Hg|]. intro X. apply Hu. left. exact X.
  - destruct H as (c & d & Ls' & Ps' & -> & -> & Hg & Hok & Hq & H).
    exists c, d, Ls', Ps'. sp.
    + rewrite hget_hset_other; [exact Hg|]. intro X. apply Hu. left. exact X.
    + apply IH; [exact H|]. intro X. apply Hu. right. exact X.
Qed.
Lemma prefix_rep_frame h u v : forall A p lo Lb Pb t lo_t,
  prefix_rep h p lo A Lb Pb t lo_t -> ~ In u Pb -> prefix_rep (hset h u v) p lo A Lb Pb t lo_t.
Proof.
  induction A as [|[s q] A IH]; intros p lo Lb Pb t lo_t H Hu; cbn [prefix_rep] in *; [exact H|].
  destruct H as (c & d & Lb' & Pb' & -> & -> & Hg & Hok & Hq & H).
  exists c, d, Lb', Pb'. sp.
  - rewrite hget_hset_other; [exact Hg|]. intro X. apply Hu. left. exact X.
  - apply IH; [exact H|]. intro X. apply Hu. right. exact X.
Qed.

(* the sibling chain after the first listed leaf *)
Lemma leaves_rep_chain h : forall cells p lo c L Ps,
  leaves_rep h p lo cells (c :: L) Ps ->
  chain h (match cells with [] => 0 | (_, q) :: _ => q end) L.
Proof.
  induction cells as [|[s q] t IH]; intros p lo c L Ps H; cbn [leaves_rep] in H.
  - destruct H as (c' & d & E & _). inversion E; subst. constructor.
  - destruct H as (c' & d & Ls' & Ps' & E & _ & _ & _ & Hq & H). inversion E; subst.
    destruct t as [|[s2 q2] t2].
    + cbn [leaves_rep] in H. destruct H as (c2 & d2 & -> & _ & Hg2 & _). eapply chain_next; [exact Hq|exact Hg2|constructor].
    + pose proof H as H'. cbn [leaves_rep] in H. destruct H as (c2 & d2 & Ls2 & Ps2 & -> & _ & Hg2 & _ & _ & _).
      eapply chain_next; [exact Hq|exact Hg2|]. exact (IH q (Some s) c2 Ls2 _ H').
Qed.
Lemma leaves_rep_lengths h : forall cells p lo Ls Ps, leaves_rep h p lo cells Ls Ps -> length Ls = length Ps.
Proof.
  induction cells as [|[s q] t IH]; intros p lo Ls Ps H; cbn [leaves_rep] in H.
  - destruct H as (c & d & -> & -> & _). reflexivity.
  - destruct H as (c & d & Ls' & Ps' & -> & -> & _ & _ & _ & H). cbn. f_equal. eapply IH; exact H.
Qed.

(* ---------- the descent reaches the leaf whose interval holds k ---------- *)
Lemma lex_lt_le_lt x s k : lex_cmp x s = Lt -> lex_cmp s k <> Gt -> lex_cmp x k = Lt.
Proof.
  intros H1 H2. destruct (lex_cmp s k) eqn:E; [|exact (lex_lt_trans x s k H1 E)|congruence].
  apply lex_cmp_eq in E. subst s. exact H1.
Qed.

Lemma child_for_key_last lm l k : wsorted l ->
  child_for_key lm l k = (snd (last (le_prefix k l) (k, lm)), length (le_prefix k l)).
Proof.
  intro Hs. rewrite (descent_rule lm l k Hs).
  destruct (le_prefix k l) as [|x A] using rev_ind; [reflexivity|].
  rewrite rev_app_distr, last_last. reflexivity.
Qed.

Lemma last_cons_default {A} (l : list A) : forall x d1 d2, last (x :: l) d1 = last (x :: l) d2.
Proof. induction l as [|y l IH]; intros x d1 d2; [reflexivity|]. cbn [last] in *. apply (IH y). Qed.

Lemma last_In {A} (l : list A) : forall x d, In (last (x :: l) d) (x :: l).
Proof. induction l as [|y l IH]; intros x d; [left; reflexivity|]. right. apply (IH y). Qed.

Lemma prefix_rep_target h : forall A p lo Lb Pb t lo_t dk,
  prefix_rep h p lo A Lb Pb t lo_t ->
  t = snd (last A (dk, p)) /\ lo_t = match A with [] => lo | _ => Some (fst (last A (dk, p))) end.
Proof.
  induction A as [|[s q] A IH]; intros p lo Lb Pb t lo_t dk H; cbn [prefix_rep] in H.
  - destruct H as (_ & _ & -> & ->). split; reflexivity.
  - destruct H as (c & d & Lb' & Pb' & _ & _ & _ & _ & _ & H).
    destruct (IH q (Some s) Lb' Pb' t lo_t dk H) as [Ht Hl].
    destruct A as [|x A']; [cbn in *; subst; split; reflexivity|].
    change (last ((s, q) :: x :: A') (dk, p)) with (last (x :: A') (dk, p)).
    rewrite (last_cons_default A' x (dk, p) (dk, q)).
    split; [exact Ht | exact Hl].
Qed.

Lemma prefix_keys_lt h k : forall A p lo Lb Pb t lo_t,
  Forall (fun c : cell => lex_cmp (fst c) k <> Gt) A -> prefix_rep h p lo A Lb Pb t lo_t -> all_lt k (concat Lb).
Proof.
  induction A as [|[s q] A IH]; intros p lo Lb Pb t lo_t HA H; cbn [prefix_rep] in H.
  - destruct H as (-> & _). constructor.
  - destruct H as (c & d & Lb' & Pb' & -> & _ & _ & Hok & _ & H). inversion HA as [|? ? Hs HA']; subst.
    cbn [concat]. apply Forall_app. split; [|eapply IH; eassumption].
    destruct Hok as [_ Hb]. eapply Forall_impl; [|exact Hb]. cbn. intros x [_ Hx]. cbn [fst] in Hs.
    exact (lex_lt_le_lt _ _ _ Hx Hs).
Qed.

Lemma leaves_keys_gt h k : forall B p s L Ps,
  lex_cmp s k = Gt -> Forall (fun c : cell => lex_cmp (fst c) k = Gt) B ->
  leaves_rep h p (Some s) B L Ps -> all_gt k (concat L).
Proof.
  induction B as [|[s2 q] B IH]; intros p s L Ps Hs HB H; cbn [leaves_rep] in H.
  - destruct H as (c & d & -> & _ & _ & [_ Hb]). cbn [concat]. rewrite app_nil_r.
    eapply Forall_impl; [|exact Hb]. cbn. intros x [Hx _]. exact (lex_gt_le_gt _ _ _ Hs Hx).
  - destruct H as (c & d & Ls' & Ps' & -> & _ & _ & [_ Hb] & _ & H). inversion HB as [|? ? Hs2 HB']; subst.
    cbn [concat]. apply Forall_app. split.
    + eapply Forall_impl; [|exact Hb]. cbn. intros x [Hx _]. exact (lex_gt_le_gt _ _ _ Hs Hx).
    + eapply IH; [exact Hs2 | exact HB' | exact H].
Qed.

Definition first_child (B : list cell) : N := match B with [] => 0 | (_, q) :: _ => q end.
Definition first_sep (B : list cell) : option key := match B with [] => None | (s, _) :: _ => Some s end.

(* the focus of a descent for k under an internal page whose separators are sorted *)
Lemma descent_focus h lm cells k Ls Ps : wsorted cells -> leaves_rep h lm None cells Ls Ps ->
  let A := le_prefix k cells in let B := gt_suffix k cells in
  exists t Lb Pb lo_t c d La Pa,
    child_for_key lm cells k = (t, length A) /\ cells = A ++ B /\
    Ls = Lb ++ c :: La /\ Ps = Pb ++ t :: Pa /\
    prefix_rep h lm None A Lb Pb t lo_t /\ leaves_rep h t lo_t B (c :: La) (t :: Pa) /\
    hget h t = Some (Leaf c (first_child B) d) /\ leaf_ok lo_t (first_sep B) c /\
    key_in lo_t (first_sep B) k /\ all_lt k (concat Lb) /\ all_gt k (concat La).
Proof.
  intros Hs H. cbv zeta.
  pose proof (le_prefix_suffix k cells) as Hd.
  pose proof (gt_suffix_gt k cells Hs) as HB.
  assert (HA : Forall (fun c : cell => lex_cmp (fst c) k <> Gt) (le_prefix k cells)).
  { pose proof (le_prefix_all k cells) as X. rewrite forallb_forall in X. apply Forall_forall. intros c Hc.
    specialize (X c Hc). destruct (lex_cmp (fst c) k); [discriminate|discriminate|discriminate X]. }
  rewrite (child_for_key_last lm cells k Hs).
  revert Hd HA HB. generalize (le_prefix k cells) as A. generalize (gt_suffix k cells) as B. intros B A Hd HA HB.
  rewrite Hd in H. apply leaves_rep_app in H.
  destruct H as (Lb & Pb & t & lo_t & Lr & Pr & -> & -> & Hp & Hr).
  destruct (prefix_rep_target h A lm None Lb Pb t lo_t k Hp) as [Ht Hlo].
  assert (Hlok : match lo_t with None => True | Some l => lex_cmp l k <> Gt end).
  { rewrite Hlo. destruct A as [|x A']; [exact I|].
    rewrite Forall_forall in HA. apply HA. apply last_In. }
  assert (Hfocus : exists c d La Pa, Lr = c :: La /\ Pr = t :: Pa /\ hget h t = Some (Leaf c (first_child B) d) /\
                                     leaf_ok lo_t (first_sep B) c /\ all_gt k (concat La)).
  { destruct B as [|[s q] B']; cbn [leaves_rep] in Hr.
    - destruct Hr as (c & d & -> & -> & Hg & Hok). exists c, d, [], []. sp; try constructor.
    - destruct Hr as (c & d & Ls' & Ps' & -> & -> & Hg & Hok & Hq & Hr'). exists c, d, Ls', Ps'. sp.
      inversion HB as [|? ? Hs1 HB']; subst. eapply leaves_keys_gt; [exact Hs1|exact HB'|exact Hr']. }
  destruct Hfocus as (c & d & La & Pa & -> & -> & Hg & Hok & Hgt).
  exists t, Lb, Pb, lo_t, c, d, La, Pa. rewrite <- Ht. sp.
  - unfold key_in. split; [exact Hlok|]. destruct B as [|[s q] B']; [exact I|]. cbn [first_sep].
    inversion HB as [|? ? Hs1 _]; subst. cbn [fst] in Hs1. apply lex_lt_of_gt. exact Hs1.
  - eapply prefix_keys_lt; eassumption.
Qed.

Lemma descent_focus' h lm cells k Ls Ps : wsorted cells -> leaves_rep h lm None cells Ls Ps ->
  exists A B t Lb Pb lo_t c d La Pa,
    cells = A ++ B /\ child_for_key lm cells k = (t, length A) /\
    Forall (fun x : cell => lex_cmp (fst x) k <> Gt) A /\ Forall (fun x : cell => lex_cmp (fst x) k = Gt) B /\
    Ls = Lb ++ c :: La /\ Ps = Pb ++ t :: Pa /\
    prefix_rep h lm None A Lb Pb t lo_t /\ leaves_rep h t lo_t B (c :: La) (t :: Pa) /\
    hget h t = Some (Leaf c (first_child B) d) /\ leaf_ok lo_t (first_sep B) c /\
    key_in lo_t (first_sep B) k /\ all_lt k (concat Lb) /\ all_gt k (concat La).
Proof.
  intros Hs Hr.
  destruct (descent_focus h lm cells k Ls Ps Hs Hr) as (t & Lb & Pb & lo_t & c & d & La & Pa & Hc & Hcells & H1 & H2 & Hp & Hrt & Ht & Hok & Hk & HLb & HLa).
  exists (le_prefix k cells), (gt_suffix k cells), t, Lb, Pb, lo_t, c, d, La, Pa. sp.
  - pose proof (le_prefix_all k cells) as X. rewrite forallb_forall in X. apply Forall_forall. intros x Hx.
    specialize (X x Hx). destruct (lex_cmp (fst x) k); [discriminate|discriminate|discriminate X].
  - apply gt_suffix_gt. exact Hs.
Qed.

(* ---------- height 2: an internal root over leaves ---------- *)
Definition Rep2 (st : state) (Ls : list (list cell)) : Prop :=
  exists lm cells Ps,
    hget (st_heap st) (st_root st) = Some (Internal lm cells) /\ wsorted cells /\
    leaves_rep (st_heap st) lm None cells Ls Ps /\
    NoDup (st_root st :: Ps) /\ Forall (fun x => x < st_next st) (st_root st :: Ps).

Lemma nodup_bound (l : list N) n : NoDup l -> Forall (fun x => x < n) l -> (length l <= N.to_nat n)%nat.
Proof.
  intros Hn Hf.
  assert (H1 : NoDup (map N.to_nat l)).
  { apply FinFun.Injective_map_NoDup; [|exact Hn]. intros a b E. apply N2Nat.inj. exact E. }
  assert (H2 : incl (map N.to_nat l) (seq 0 (N.to_nat n))).
  { intros x Hx. apply in_map_iff in Hx. destruct Hx as (y & <- & Hy). rewrite Forall_forall in Hf. specialize (Hf y Hy).
    apply in_seq. lia. }
  pose proof (NoDup_incl_length H1 H2) as H3. rewrite map_length, seq_length in H3. exact H3.
Qed.

Lemma find_leaf_rep2 st lm cells k t pos :
  hget (st_heap st) (st_root st) = Some (Internal lm cells) -> child_for_key lm cells k = (t, pos) ->
  forall c r d, hget (st_heap st) t = Some (Leaf c r d) ->
  find_leaf depth_fuel (st_heap st) (st_root st) k = inl (Some (t, c, r, d)).
Proof.
  intros Hg Hc c r d Ht. unfold depth_fuel. cbn [find_leaf]. rewrite Hg, Hc. cbn [fst]. rewrite Ht. reflexivity.
Qed.

Lemma concat_focus (Lb : list (list cell)) c La : concat (Lb ++ c :: La) = concat Lb ++ c ++ concat La.
Proof. rewrite concat_app. reflexivity. Qed.

Lemma leaf_ok_wsorted lo hi c : leaf_ok lo hi c -> wsorted c.
Proof. intros [H _]. apply ssorted_wsorted. exact H. Qed.

Lemma scan_rep2 st Ls k : Rep2 st Ls -> scan_from st k = inl (s_from k (concat Ls)).
Proof.
  intros (lm & cells & Ps & Hg & Hs & Hr & Hnd & Hlt).
  destruct (descent_focus _ lm cells k Ls Ps Hs Hr) as (t & Lb & Pb & lo_t & c & d & La & Pa & Hc & Hcells & -> & -> & Hp & Hrt & Ht & Hok & Hk & HLb & HLa).
  pose proof (find_leaf_rep2 st lm cells k t _ Hg Hc c _ d Ht) as F.
  pose proof (leaves_rep_chain _ _ _ _ _ _ _ Hrt) as Hch.
  assert (Hlen : (length La <= page_fuel st)%nat).
  { unfold page_fuel. inversion Hnd as [|? ? _ Hnd']; subst. inversion Hlt as [|? ? _ Hlt']; subst.
    pose proof (nodup_bound _ _ Hnd' Hlt') as Hb.
    pose proof (leaves_rep_lengths _ _ _ _ _ _ Hr) as Hl. rewrite !app_length in *. cbn [length] in *. lia. }
  rewrite (scan_from_chain st k t c _ d La F Hch Hlen).
  rewrite (lower_bound_sorted c k (leaf_ok_wsorted _ _ _ Hok)), skipn_lt_prefix.
  rewrite concat_focus, (s_from_app_lt k _ _ HLb), (s_from_app_gt k _ _ HLa). reflexivity.
Qed.

Lemma lookup_rep2 st Ls k : Rep2 st Ls -> lookup st k = inl (s_lookup k (concat Ls)).
Proof.
  intros (lm & cells & Ps & Hg & Hs & Hr & Hnd & Hlt).
  destruct (descent_focus _ lm cells k Ls Ps Hs Hr) as (t & Lb & Pb & lo_t & c & d & La & Pa & Hc & Hcells & -> & -> & Hp & Hrt & Ht & Hok & Hk & HLb & HLa).
  pose proof (find_leaf_rep2 st lm cells k t _ Hg Hc c _ d Ht) as F.
  pose proof (leaves_rep_chain _ _ _ _ _ _ _ Hrt) as Hch.
  assert (Hlen : (length La <= page_fuel st)%nat).
  { unfold page_fuel. inversion Hnd as [|? ? _ Hnd']; subst. inversion Hlt as [|? ? _ Hlt']; subst.
    pose proof (nodup_bound _ _ Hnd' Hlt') as Hb.
    pose proof (leaves_rep_lengths _ _ _ _ _ _ Hr) as Hl. rewrite !app_length in *. cbn [length] in *. lia. }
  rewrite (lookup_chain st k t c _ d La F Hch Hlen).
  rewrite (lower_bound_sorted c k (leaf_ok_wsorted _ _ _ Hok)), skipn_lt_prefix.
  unfold s_lookup. rewrite concat_focus, (s_from_app_lt k _ _ HLb), (s_from_app_gt k _ _ HLa).
  destruct (s_from k c ++ concat La) as [|[k' v'] rest]; reflexivity.
Qed.

(* replacing the cells of the first listed leaf *)
Lemma leaves_rep_update_head h t lo B c La Pa c' d' :
  leaves_rep h t lo B (c :: La) (t :: Pa) -> ~ In t Pa -> leaf_ok lo (first_sep B) c' ->
  leaves_rep (hset h t (Leaf c' (first_child B) d')) t lo B (c' :: La) (t :: Pa).
Proof.
  intros H Hn Hok. destruct B as [|[s q] B']; cbn [leaves_rep first_sep first_child] in *.
  - destruct H as (c0 & d0 & E1 & E2 & Hg & _). inversion E1; subst. exists c', d'. sp. apply hget_hset_same.
  - destruct H as (c0 & d0 & Ls' & Ps' & E1 & E2 & Hg & _ & Hq & H). inversion E1; inversion E2; subst.
    exists c', d', Ls', Ps'. sp; [apply hget_hset_same|]. apply leaves_rep_frame; assumption.
Qed.

Lemma NoDup_focus (r : N) Pb t Pa : NoDup (r :: Pb ++ t :: Pa) -> r <> t /\ ~ In t Pb /\ ~ In t Pa /\ ~ In r Pb /\ ~ In r Pa.
Proof.
  intro H. inversion H as [|? ? Hr H']; subst.
  pose proof (NoDup_remove_2 _ _ _ H') as Ht.
  repeat split.
  - intro E. apply Hr. apply in_or_app. right. left. symmetry. exact E.
  - intro X. apply Ht. apply in_or_app. left. exact X.
  - intro X. apply Ht. apply in_or_app. right. exact X.
  - intro X. apply Hr. apply in_or_app. left. exact X.
  - intro X. apply Hr. apply in_or_app. right. right. exact X.
Qed.

Lemma delete_rep2 st Ls k v : Rep2 st Ls ->
  exists Ls', Rep2 (fst (delete st k v)) Ls' /\ concat Ls' = snd (s_delete k v (concat Ls)) /\
              snd (delete st k v) = RBool (fst (s_delete k v (concat Ls))) /\
              st_root (fst (delete st k v)) = st_root st /\ st_next (fst (delete st k v)) = st_next st.
Proof.
  intros (lm & cells & Ps & Hg & Hs & Hr & Hnd & Hlt).
  destruct (descent_focus' _ lm cells k Ls Ps Hs Hr) as (A & B & t & Lb & Pb & lo_t & c & d & La & Pa & Hcells & Hc & HA & HB & -> & -> & Hp & Hrt & Ht & Hok & Hk & HLb & HLa).
  pose proof (find_leaf_rep2 st lm cells k t _ Hg Hc c _ d Ht) as F.
  subst cells.
  destruct (NoDup_focus _ _ _ _ Hnd) as (Hrt' & HtPb & HtPa & HrPb & HrPa).
  unfold delete. rewrite F.
  pose proof (leaf_delete_refines c k v (proj1 Hok)) as Hdel.
  rewrite concat_focus, (s_delete_app_lt k v _ _ HLb), (s_delete_app_gt k v _ _ HLa). cbn [fst snd].
  unfold cell, key in *.
  destruct (bsearch (map (fun c0 : bytes * N => cell_cmp c0 k v) c)) as [[|] idx]; destruct Hdel as [H1 H2].
  - exists (Lb ++ snd (s_delete k v c) :: La). cbn [fst snd st_root st_next st_heap]. rewrite <- H1.
    split; [|split; [apply concat_focus|sp]].
    exists lm, (A ++ B), (Pb ++ t :: Pa). cbn [st_root st_next st_heap].
    split; [rewrite hget_hset_other by exact Hrt'; exact Hg|]. split; [exact Hs|]. split; [|split; assumption].
    apply leaves_rep_app.
    exists Lb, Pb, t, lo_t, (snd (s_delete k v c) :: La), (t :: Pa). split; [reflexivity|]. split; [reflexivity|].
    split; [apply prefix_rep_frame; assumption|].
    rewrite H2. apply (leaves_rep_update_head _ t lo_t B c La Pa); [exact Hrt|exact HtPa|].
    destruct Hok as [Ho1 Ho2]. split; [apply ssorted_s_delete; exact Ho1 | apply s_delete_Forall; exact Ho2].
  - exists (Lb ++ c :: La). cbn [fst snd]. rewrite <- H1, <- H2.
    split; [|split; [apply concat_focus|sp]].
    exists lm, (A ++ B), (Pb ++ t :: Pa). sp.
Qed.

(* ---------- insert under an internal root ---------- *)
Lemma lex_le_trans a b c : lex_cmp a b <> Gt -> lex_cmp b c <> Gt -> lex_cmp a c <> Gt.
Proof.
  intros H1 H2. destruct (lex_cmp a b) eqn:E1; [apply lex_cmp_eq in E1; subst; exact H2| |congruence].
  destruct (lex_cmp b c) eqn:E2; [apply lex_cmp_eq in E2; subst; rewrite E1; discriminate| |congruence].
  rewrite (lex_lt_trans a b c E1 E2). discriminate.
Qed.

Lemma wsorted_app_r A : forall B, wsorted (A ++ B) -> wsorted B.
Proof. induction A as [|a A IH]; intros B H; [exact H|]. destruct H as [_ H]. apply IH. exact H. Qed.
Lemma wsorted_app_l A : forall B, wsorted (A ++ B) -> wsorted A.
Proof.
  induction A as [|a A IH]; intros B H; [exact I|]. destruct H as [H1 H2]. split; [|eapply IH; exact H2].
  apply Forall_app in H1. exact (proj1 H1).
Qed.
Lemma wsorted_le_last A : wsorted A -> forall d, Forall (fun a : cell => lex_cmp (fst a) (fst (last A d)) <> Gt) A.
Proof.
  induction A as [|a A IH]; intros H d; [constructor|]. destruct H as [H1 H2].
  destruct A as [|b A']; [constructor; [cbn; rewrite lex_cmp_refl; discriminate|constructor]|].
  change (last (a :: b :: A') d) with (last (b :: A') d).
  constructor; [|apply IH; exact H2].
  rewrite Forall_forall in H1. apply H1. apply last_In.
Qed.
Lemma wsorted_insert_mid A : forall B s q, wsorted (A ++ B) ->
  Forall (fun a : cell => lex_cmp (fst a) s <> Gt) A -> Forall (fun b : cell => lex_cmp s (fst b) <> Gt) B ->
  wsorted (A ++ (s, q) :: B).
Proof.
  induction A as [|a A IH]; intros B s q H HA HB; cbn [app wsorted] in *.
  - split; [exact HB|exact H].
  - destruct H as [H1 H2]. inversion HA as [|? ? Ha HA']; subst. split; [|apply IH; assumption].
    apply Forall_app in H1. destruct H1 as [H1a H1b]. apply Forall_app. split; [exact H1a|]. constructor; [exact Ha|exact H1b].
Qed.

Lemma ins_eq2 h n root lm cells k v t pos c r d :
  hget h root = Some (Internal lm cells) -> child_for_key lm cells k = (t, pos) -> hget h t = Some (Leaf c r d) ->
  ins depth_fuel h n root k v =
    match ins_leaf h n t c r d k v with
    | ISplit h' n' sep rid => ins_parent h' n' root pos sep rid
    | x => x
    end.
Proof.
  intros Hg Hc Ht. unfold depth_fuel. cbn [ins]. rewrite Hg, Hc. cbn [ins]. rewrite Ht. reflexivity.
Qed.

Lemma key_in_split (lo hi : option key) (e a b : list cell) sep :
  a ++ b = e -> Forall (fun x : cell => key_in lo hi (fst x)) e ->
  Forall (fun x : cell => lex_lt (fst x) sep) a -> Forall (fun x : cell => lex_cmp sep (fst x) <> Gt) b ->
  Forall (fun x : cell => key_in lo (Some sep) (fst x)) a /\ Forall (fun x : cell => key_in (Some sep) hi (fst x)) b.
Proof.
  intros <- He Ha Hb. apply Forall_app in He. destruct He as [Ea Eb]. split.
  - rewrite Forall_forall in *. intros x Hx. destruct (Ea x Hx) as [E1 _]. split; [exact E1|exact (Ha x Hx)].
  - rewrite Forall_forall in *. intros x Hx. destruct (Eb x Hx) as [_ E2]. split; [exact (Hb x Hx)|exact E2].
Qed.

Lemma prefix_le_lo h A : forall Lb Pb t lo_t p, wsorted A -> prefix_rep h p None A Lb Pb t lo_t ->
  Forall (fun a : cell => match lo_t with Some l => lex_cmp (fst a) l <> Gt | None => False end) A.
Proof.
  intros Lb Pb t lo_t p Hs Hp. destruct A as [|x A']; [constructor|].
  destruct (prefix_rep_target h (x :: A') p None Lb Pb t lo_t [] Hp) as [_ Hlo]. rewrite Hlo.
  apply wsorted_le_last. exact Hs.
Qed.
Lemma first_sep_le B : wsorted B ->
  Forall (fun b : cell => match first_sep B with Some s => lex_cmp s (fst b) <> Gt | None => True end) B.
Proof.
  destruct B as [|[s q] B']; [constructor|]. intros [H1 _]. cbn [first_sep].
  constructor; [cbn; rewrite lex_cmp_refl; discriminate | exact H1].
Qed.
Lemma nodup_insert (X : list N) : forall Y n, NoDup (X ++ Y) -> ~ In n (X ++ Y) -> NoDup (X ++ n :: Y).
Proof.
  induction X as [|x X IH]; intros Y n H Hn; cbn [app] in *; [constructor; assumption|].
  inversion H as [|? ? Hx H']; subst. constructor.
  - intro I. apply in_app_or in I. destruct I as [I|[I|I]].
    + apply Hx. apply in_or_app. left. exact I.
    + apply Hn. left. symmetry. exact I.
    + apply Hx. apply in_or_app. right. exact I.
  - apply IH; [exact H'|]. intro I. apply Hn. right. exact I.
Qed.
Lemma lt_not_in (l : list N) n : Forall (fun x => x < n) l -> ~ In n l.
Proof. intros H I. rewrite Forall_forall in H. specialize (H n I). lia. Qed.

Lemma insert_rep2 st Ls k v : Rep2 st Ls -> has_key k (concat Ls) = false ->
  res_failed (snd (insert st k v)) = false -> st_root (fst (insert st k v)) = st_root st ->
  exists Ls', Rep2 (fst (insert st k v)) Ls' /\ concat Ls' = s_insert k v (concat Ls) /\ snd (insert st k v) = RUnit.
Proof.
  intros (lm & cells & Ps & Hg & Hs & Hr & Hnd & Hlt) Hk.
  destruct (descent_focus' _ lm cells k Ls Ps Hs Hr) as (A & B & t & Lb & Pb & lo_t & c & d & La & Pa & Hcells & Hc & HA & HB & -> & -> & Hp & Hrt & Ht & Hok & Hkin & HLb & HLa).
  subst cells.
  destruct (NoDup_focus _ _ _ _ Hnd) as (Hrt' & HtPb & HtPa & HrPb & HrPa).
  rewrite concat_focus, !has_key_app in Hk. apply orb_false_elim in Hk. destruct Hk as [_ Hk].
  apply orb_false_elim in Hk. destruct Hk as [Hkc _].
  assert (Hspec : s_insert k v (concat (Lb ++ c :: La)) = concat Lb ++ s_insert k v c ++ concat La).
  { rewrite concat_focus, (s_insert_app_lt k v _ _ HLb), (s_insert_app_gt k v _ _ HLa). reflexivity. }
  assert (Hokc' : leaf_ok lo_t (first_sep B) (s_insert k v c)).
  { destruct Hok as [Ho1 Ho2]. split; [apply ssorted_s_insert; assumption | apply s_insert_Forall; assumption]. }
  inversion Hlt as [|? ? Hrn Hlt']; subst.
  assert (Htn : t < st_next st).
  { rewrite Forall_forall in Hlt'. apply Hlt'. apply in_or_app. right. left. reflexivity. }
  apply Forall_app in Hlt'. destruct Hlt' as [HPbn HPan]. inversion HPan as [|? ? _ HPan']; subst.
  unfold insert. rewrite (ins_eq2 _ _ _ lm (A ++ B) k v t _ c _ d Hg Hc Ht). unfold ins_leaf.
  destruct (leaf_can_insert c d k).
  - (* the leaf has room *)
    cbn [fst snd st_root st_next st_heap res_failed]. intros _ _.
    exists (Lb ++ s_insert k v c :: La). split; [|split; [rewrite Hspec; apply concat_focus|reflexivity]].
    exists lm, (A ++ B), (Pb ++ t :: Pa). cbn [st_root st_next st_heap].
    split; [rewrite hget_hset_other by exact Hrt'; exact Hg|]. split; [exact Hs|]. split; [|split; assumption].
    apply leaves_rep_app.
    exists Lb, Pb, t, lo_t, (s_insert k v c :: La), (t :: Pa). split; [reflexivity|]. split; [reflexivity|].
    split; [apply prefix_rep_frame; assumption|].
    rewrite (leaf_insert_refines c k v (leaf_ok_wsorted _ _ _ Hok)).
    apply (leaves_rep_update_head _ t lo_t B c La Pa); assumption.
  - (* the leaf splits *)
    rewrite (leaf_entries_refines c k v (leaf_ok_wsorted _ _ _ Hok) Hkc).
    destruct (leaf_split_point (s_insert k v c)) as [mid|] eqn:Esp; [|cbn; intro X; discriminate X].
    destruct (alloc (st_next st)) as [[rid n']|] eqn:Ea; [|cbn; intro X; discriminate X].
    apply alloc_next in Ea. destruct Ea as [-> ->].
    unfold leaf_split_point in Esp. apply split_point_some in Esp. destruct Esp as (Hm & _ & _).
    pose proof (split_separator (s_insert k v c) mid (proj1 Hokc') Hm) as Hsep. cbv zeta in Hsep.
    set (l := firstn mid (s_insert k v c)) in *. set (rr := skipn mid (s_insert k v c)) in *.
    destruct Hsep as (Hcat & Hne & Sl & Sr & Fl & Fr).
    set (sep := fst (hd ([], 0) rr)) in *.
    destruct (key_in_split lo_t (first_sep B) _ l rr sep Hcat (proj2 Hokc') Fl Fr) as [Kl Kr].
    assert (Hsepin : key_in lo_t (first_sep B) sep).
    { destruct rr as [|x rr'] eqn:Err; [congruence|]. inversion Kr as [|? ? [_ Kx] _]; subst.
      pose proof (proj2 Hokc') as He. rewrite <- Hcat in He. apply Forall_app in He. destruct He as [_ He].
      inversion He as [|? ? Kx' _]; subst. exact Kx'. }
    assert (Hrn' : st_root st <> st_next st) by lia.
    assert (Htn' : t <> st_next st) by lia.
    unfold ins_parent. rewrite (hget_hset_other _ _ _ _ Hrn'), (hget_hset_other _ _ _ _ Hrt'), Hg.
    destruct (int_can_insert (A ++ B) sep).
    + (* the root has room for the separator *)
      cbn [fst snd st_root st_next st_heap res_failed]. intros _ _.
      exists (Lb ++ l :: rr :: La). split; [|split; [|reflexivity]].
      2: { rewrite Hspec, <- Hcat. rewrite concat_app. cbn [concat]. rewrite <- !app_assoc. reflexivity. }
      exists lm, (A ++ (sep, st_next st) :: B), (Pb ++ t :: st_next st :: Pa). cbn [st_root st_next st_heap].
      split; [rewrite hget_hset_same, insert_at_app; reflexivity|].
      split.
      { apply wsorted_insert_mid; [exact Hs| |].
        - pose proof (prefix_le_lo _ A _ _ _ _ _ (wsorted_app_l A B Hs) Hp) as X.
          destruct Hsepin as [Hlo _]. eapply Forall_impl; [|exact X]. cbn. intros a Ha.
          destruct lo_t as [lo|]; [|contradiction]. exact (lex_le_trans _ _ _ Ha Hlo).
        - pose proof (first_sep_le B (wsorted_app_r A B Hs)) as X.
          destruct Hsepin as [_ Hhi]. destruct B as [|[s q] B']; [constructor|]. cbn [first_sep] in *.
          eapply Forall_impl; [|exact X]. cbn. intros b Hb.
          apply (lex_le_trans _ s _); [rewrite Hhi; discriminate|exact Hb]. }
      split.
      { apply leaves_rep_app.
        exists Lb, Pb, t, lo_t, (l :: rr :: La), (t :: st_next st :: Pa). split; [reflexivity|]. split; [reflexivity|].
        split; [repeat apply prefix_rep_frame; try assumption; apply lt_not_in; assumption|].
        cbn [leaves_rep]. exists l, 0, (rr :: La), (st_next st :: Pa). split; [reflexivity|]. split; [reflexivity|].
        split; [rewrite (hget_hset_other _ _ _ _ (not_eq_sym Hrt')), (hget_hset_other _ _ _ _ Htn'); apply hget_hset_same|].
        split; [split; assumption|]. split; [lia|].
        assert (Hgn : forall y, hget (hset (hset (hset (st_heap st) t (Leaf l (st_next st) 0)) (st_next st) (Leaf rr (first_child B) 0)) (st_root st) y) (st_next st)
                      = Some (Leaf rr (first_child B) 0)).
        { intro y. rewrite (hget_hset_other _ _ _ _ (not_eq_sym Hrn')). apply hget_hset_same. }
        destruct B as [|[s q] B']; cbn [leaves_rep first_child first_sep] in *.
        - destruct Hrt as (c0 & d0 & E1 & E2 & _). inversion E1; inversion E2; subst. exists rr, 0. sp. split; assumption.
        - destruct Hrt as (c0 & d0 & Ls' & Ps' & E1 & E2 & _ & _ & Hq & Hrt2). inversion E1; inversion E2; subst.
          exists rr, 0, Ls', Ps'. sp; [split; assumption|].
          repeat apply leaves_rep_frame; try assumption. apply lt_not_in; assumption. }
      split.
      { replace (st_root st :: Pb ++ t :: st_next st :: Pa) with ((st_root st :: Pb ++ [t]) ++ st_next st :: Pa)
          by (cbn [app]; rewrite <- app_assoc; reflexivity).
        apply nodup_insert.
        - cbn [app]. rewrite <- app_assoc. exact Hnd.
        - cbn [app]. rewrite <- app_assoc. apply lt_not_in. constructor; [exact Hrn|]. apply Forall_app. split; [exact HPbn|constructor; assumption]. }
      { constructor; [lia|]. apply Forall_app. split.
        - eapply Forall_impl; [|exact HPbn]. cbn. intros; lia.
        - constructor; [lia|]. constructor; [lia|]. eapply Forall_impl; [|exact HPan']. cbn. intros; lia. }
    + (* the root would split: the tree grows beyond height 2 (the root changes) or the insert fails *)
      destruct (int_split_point _) as [mid2|]; [|cbn; intro X; discriminate X].
      destruct (alloc (st_next st + 1)) as [[rp n'']|] eqn:Ea2; [|cbn; intro X; discriminate X].
      apply alloc_next in Ea2. destruct Ea2 as [-> ->].
      destruct (alloc (st_next st + 1 + 1)) as [[nr n3]|] eqn:Ea3; [|cbn; intro X; discriminate X].
      apply alloc_next in Ea3. destruct Ea3 as [-> ->].
      destruct (int_can_insert [] _); cbn [fst snd st_root res_failed]; [|intro X; discriminate X].
      intros _ X. exfalso. lia.
Qed.

(* ---------- the root page id never decreases ---------- *)
Lemma insert_root_mono st k v : st_root st < st_next st ->
  st_root st <= st_root (fst (insert st k v)) /\ st_root (fst (insert st k v)) < st_next (fst (insert st k v)).
Proof.
  intro H. unfold insert. pose proof (ins_mono depth_fuel (st_heap st) (st_next st) (st_root st) k v) as M.
  destruct (ins depth_fuel (st_heap st) (st_next st) (st_root st) k v) as [h' n'|h' n' sep rid|h' n' e];
    cbn [ins_next] in M; cbn [fst st_root st_next]; try lia.
  destruct (alloc n') as [[nr n'']|] eqn:E; [|cbn [fst st_root st_next]; lia].
  apply alloc_next in E. destruct E as [-> ->].
  destruct (int_can_insert [] sep); cbn [fst st_root st_next]; lia.
Qed.
Lemma delete_root st k v : st_root (fst (delete st k v)) = st_root st.
Proof.
  unfold delete. destruct (find_leaf depth_fuel (st_heap st) (st_root st) k) as [[[[[p cells] r] d]|]|e]; try reflexivity.
  destruct (bsearch _) as [[|] idx]; reflexivity.
Qed.
Lemma step_root_mono st o : st_root st < st_next st ->
  st_root st <= st_root (fst (step st o)) /\ st_root (fst (step st o)) < st_next (fst (step st o)).
Proof.
  intro H. destruct o; cbn [step fst]; try lia.
  - apply insert_root_mono. exact H.
  - rewrite delete_root, delete_next. lia.
Qed.
Lemma run_root_mono ops : forall st, st_root st < st_next st -> st_root st <= st_root (fst (run_from st ops)).
Proof.
  induction ops as [|o t IH]; intros st H; cbn [run_from fst]; [lia|].
  pose proof (step_root_mono st o H) as [M1 M2]. destruct (step st o) as [st1 r]. cbn [fst] in *.
  pose proof (IH st1 M2) as M3. destruct (run_from st1 t) as [st2 rs]. cbn [fst] in *. lia.
Qed.

(* ---------- the first split: a leaf root becomes an internal root over two leaves ---------- *)
Ltac ne := let X := fresh in intro X; vm_compute in X; discriminate X.

Lemma insert_single_split st l k v : SL st l -> has_key k l = false ->
  res_failed (snd (insert st k v)) = false -> st_next (fst (insert st k v)) <> st_next st ->
  st_root (fst (insert st k v)) = bt_first_data_page + 2 /\
  exists Ls', Rep2 (fst (insert st k v)) Ls' /\ concat Ls' = s_insert k v l /\ snd (insert st k v) = RUnit.
Proof.
  intros (Hr & Hn & [dead Hg] & Hs) Hk.
  unfold insert, depth_fuel. cbn [ins]. rewrite Hg. unfold ins_leaf.
  destruct (leaf_can_insert l dead k); [cbn [fst snd st_next]; intros _ X; congruence|].
  rewrite (leaf_entries_refines l k v (ssorted_wsorted l Hs) Hk).
  destruct (leaf_split_point (s_insert k v l)) as [mid|] eqn:Esp; [|cbn; intro X; discriminate X].
  rewrite Hn, alloc_3, alloc_4.
  unfold leaf_split_point in Esp. apply split_point_some in Esp. destruct Esp as (Hm & _ & _).
  pose proof (split_separator (s_insert k v l) mid (ssorted_s_insert k v l Hs Hk) Hm) as Hsep. cbv zeta in Hsep.
  set (a := firstn mid (s_insert k v l)) in *. set (b := skipn mid (s_insert k v l)) in *.
  destruct Hsep as (Hcat & Hne & Sa & Sb & Fa & Fb).
  set (sep := fst (hd ([], 0) b)) in *.
  destruct (int_can_insert [] sep); [|cbn; intro X; discriminate X].
  cbn [fst snd st_root st_next st_heap res_failed]. intros _ _. split; [reflexivity|].
  exists [a; b]. split; [|split; [cbn [concat]; rewrite app_nil_r; exact Hcat|reflexivity]].
  rewrite Hr.
  exists bt_first_data_page, [(sep, bt_first_data_page + 1)], [bt_first_data_page; bt_first_data_page + 1].
  cbn [st_root st_next st_heap].
  split; [apply hget_hset_same|].
  split; [cbn; auto|].
  split.
  { cbn [leaves_rep]. exists a, 0, [b], [bt_first_data_page + 1]. split; [reflexivity|]. split; [reflexivity|].
    split; [rewrite hget_hset_other by ne; rewrite hget_hset_other by ne; apply hget_hset_same|].
    split.
    { split; [exact Sa|]. eapply Forall_impl; [|exact Fa]. cbn. intros x Hx. split; [exact I|exact Hx]. }
    split; [ne|].
    exists b, 0. split; [reflexivity|]. split; [reflexivity|].
    split; [rewrite hget_hset_other by ne; apply hget_hset_same|].
    split; [exact Sb|]. eapply Forall_impl; [|exact Fb]. cbn. intros x Hx. split; [exact Hx|exact I]. }
  split.
  { repeat constructor; cbn [In]; intro X; repeat (destruct X as [X|X]; [vm_compute in X; discriminate X|]); exact X. }
  { repeat constructor; vm_compute; reflexivity. }
Qed.

(* ---------- the refinement for histories that stay within height 2 ---------- *)
Definition Inv2 (st : state) (C : list cell) : Prop :=
  SL st C \/ (st_root st = bt_first_data_page + 2 /\ exists Ls, Rep2 st Ls /\ concat Ls = C).

Lemma Inv2_root_lt st C : Inv2 st C -> st_root st < st_next st.
Proof.
  intros [(Hr & Hn & _)|(_ & Ls & (lm & cells & Ps & _ & _ & _ & _ & Hlt) & _)]; [lia|].
  inversion Hlt; assumption.
Qed.

Lemma step_inv2 st C o : Inv2 st C ->
  match o with OInsert k _ => has_key k C = false | _ => True end ->
  res_failed (snd (step st o)) = false -> st_root (fst (step st o)) <= bt_first_data_page + 2 ->
  Inv2 (fst (step st o)) (fst (s_step C o)) /\ snd (step st o) = snd (s_step C o).
Proof.
  intros HI Hk Hnf Hroot. destruct HI as [HS|(Hr & Ls & HR & <-)].
  - (* one leaf *)
    destruct o as [k v|k v|k|k lim|].
    + cbn [step s_step fst snd] in *.
      destruct (N.eq_dec (st_next (fst (insert st k v))) (st_next st)) as [E|E].
      * destruct (insert_single st C k v HS Hk E Hnf) as [H1 H2]. split; [left; exact H1|exact H2].
      * destruct (insert_single_split st C k v HS Hk Hnf E) as (H1 & Ls' & H2 & H3 & H4).
        split; [right; split; [exact H1|exists Ls'; split; assumption]|exact H4].
    + assert (E : st_next (fst (step st (ODelete k v))) = st_next st) by (cbn [step]; apply delete_next).
      destruct (step_single st C (ODelete k v) HS I E Hnf) as [H1 H2]. split; [left; exact H1|exact H2].
    + destruct (step_single st C (OLookup k) HS I eq_refl Hnf) as [H1 H2]. split; [left; exact H1|exact H2].
    + destruct (step_single st C (OScan k lim) HS I eq_refl Hnf) as [H1 H2]. split; [left; exact H1|exact H2].
    + destruct (step_single st C OReopen HS I eq_refl Hnf) as [H1 H2]. split; [left; exact H1|exact H2].
  - (* internal root over leaves *)
    assert (Hlt : st_root st < st_next st) by (apply (Inv2_root_lt st (concat Ls)); right; split; [exact Hr|exists Ls; split; [exact HR|reflexivity]]).
    destruct o as [k v|k v|k|k lim|]; cbn [step s_step fst snd] in *.
    + pose proof (insert_root_mono st k v Hlt) as [M _].
      assert (E : st_root (fst (insert st k v)) = st_root st) by lia.
      destruct (insert_rep2 st Ls k v HR Hk Hnf E) as (Ls' & H1 & H2 & H3).
      split; [right; split; [lia|exists Ls'; split; assumption]|exact H3].
    + destruct (delete_rep2 st Ls k v HR) as (Ls' & H1 & H2 & H3 & H4 & _).
      destruct (s_delete k v (concat Ls)) as [b C'] eqn:Ed. cbn [fst snd] in *.
      split; [right; split; [lia|exists Ls'; split; assumption]|exact H3].
    + split; [right; split; [exact Hr|exists Ls; split; [exact HR|reflexivity]]|].
      rewrite (lookup_rep2 st Ls k HR). reflexivity.
    + split; [right; split; [exact Hr|exists Ls; split; [exact HR|reflexivity]]|].
      rewrite (scan_rep2 st Ls k HR). reflexivity.
    + split; [right; split; [exact Hr|exists Ls; split; [exact HR|reflexivity]]|reflexivity].
Qed.

Lemma run_inv2 ops : forall st C, Inv2 st C -> dup_from C ops = false ->
  existsb res_failed (snd (run_from st ops)) = false ->
  st_root (fst (run_from st ops)) <= bt_first_data_page + 2 ->
  Inv2 (fst (run_from st ops)) (fst (s_run_from C ops)) /\ snd (run_from st ops) = snd (s_run_from C ops).
Proof.
  induction ops as [|o t IH]; intros st C H Hd Hf Hroot; cbn [run_from s_run_from fst snd] in *; [split; [exact H|reflexivity]|].
  pose proof (step_root_mono st o (Inv2_root_lt st C H)) as [M1 M1'].
  pose proof (step_inv2 st C o H) as Hstep.
  destruct (step st o) as [st1 r] eqn:E1. cbn [fst snd] in *.
  pose proof (run_root_mono t st1 M1') as M2.
  assert (Hd' : match o with OInsert k _ => has_key k C = false | _ => True end /\ dup_from (fst (s_step C o)) t = false).
  { destruct o; cbn [dup_from] in Hd; try (split; [exact I | exact Hd]).
    apply orb_false_elim in Hd. exact Hd. }
  destruct Hd' as [Hk Hd'].
  destruct (s_step C o) as [C1 sr] eqn:E2. cbn [fst snd] in *.
  destruct (run_from st1 t) as [st2 rs] eqn:E3. cbn [fst snd existsb] in *.
  apply orb_false_elim in Hf. destruct Hf as [Hf1 Hf2].
  assert (Hr1 : st_root st1 <= bt_first_data_page + 2) by lia.
  destruct (Hstep Hk Hf1 Hr1) as [HI1 Hres1].
  specialize (IH st1 C1 HI1 Hd'). rewrite E3 in IH. cbn [fst snd] in IH.
  destruct (IH Hf2 Hroot) as [HI2 Hres2].
  destruct (s_run_from C1 t) as [C2 srs]. cbn [fst snd] in *.
  split; [exact HI2|]. rewrite Hres1, Hres2. reflexivity.
Qed.

(* for every history outside the known classes (no key is ever stored twice, no operation fails) in
   which the root is split at most once (the tree stays an internal root over leaves: any number of leaf
   splits, deletes that empty leaves, dead bytes): every insert, delete, lookup, seek+scan and reopen
   returns what the sorted multimap returns, and the final full scan is the multimap *)
Theorem height2_refines ops :
  has_dup ops = false -> has_failed_op ops = false -> st_root (fst (run ops)) <= bt_first_data_page + 2 ->
  snd (run ops) = snd (s_run ops) /\ scan_all (fst (run ops)) = inl (fst (s_run ops)).
Proof.
  intros Hd Hf Hroot. unfold run, s_run, has_dup, has_failed_op in *.
  destruct (run_inv2 ops create [] (or_introl SL_create) Hd Hf Hroot) as [HI Hr].
  split; [exact Hr|]. unfold scan_all.
  destruct HI as [HS|(_ & Ls & HR & <-)].
  - rewrite (scan_single _ _ [] HS), s_from_nil. reflexivity.
  - rewrite (scan_rep2 _ Ls [] HR), s_from_nil. reflexivity.
Qed.

(* non-vacuous: 30 ordered 900-byte keys (six leaf splits under the root at page 4), the four keys of the
   second leaf deleted (an empty leaf stays in the chain), seeks and lookups *)
From NDB Require Import BTree.Witness.
Example height2_nonvacuous :
  let ops := w_scan ++ [OLookup (kk 9); OScan (kk 2) 10; OInsert (kk 5) 55; OReopen; OLookup (kk 5)] in
  has_dup ops = false /\ has_failed_op ops = false /\ st_root (fst (run ops)) = bt_first_data_page + 2 /\
  st_next (fst (run ops)) = bt_first_data_page + 8.
Proof. vm_compute. repeat split; reflexivity. Qed.
