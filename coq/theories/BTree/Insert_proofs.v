(* BTree/Insert_proofs.v — PROOFS, for EVERY heap and any tree depth: an insert whose target leaf (the
   leaf the descent reaches) has room changes exactly that leaf page — the pair is put at the
   lower-bound slot — and nothing else (no allocation, same root, every other page untouched). *)
From Coq Require Import Lia ZifyBool ZifyN ZifyNat.
From NDB Require Import Base.Bytes Base.Bytes_proofs BTree.BTree BTree.Spec BTree.Leaf_proofs.

Lemma ins_fits h n k v : forall fuel q p cells r d,
  find_leaf fuel h q k = inl (Some (p, cells, r, d)) -> leaf_can_insert cells d k = true ->
  ins fuel h n q k v = IDone (hset h p (Leaf (insert_at (lower_bound cells k) (k, v) cells) r d)) n.
Proof.
  induction fuel as [|f IH]; intros q p cells r d F C; cbn [find_leaf] in F; [discriminate|].
  cbn [ins]. destruct (hget h q) as [[c' r' d'|lm c']|] eqn:G; [| |discriminate].
  - inversion F; subst. unfold ins_leaf. rewrite C. reflexivity.
  - destruct (child_for_key lm c' k) as [child pos] eqn:E. cbn [fst] in F.
    rewrite (IH child p cells r d F C). reflexivity.
Qed.

Theorem insert_fits_exact st k v p cells r d :
  find_leaf depth_fuel (st_heap st) (st_root st) k = inl (Some (p, cells, r, d)) ->
  leaf_can_insert cells d k = true ->
  insert st k v =
    ({| st_heap := hset (st_heap st) p (Leaf (insert_at (lower_bound cells k) (k, v) cells) r d);
        st_next := st_next st; st_root := st_root st |}, RUnit).
Proof. intros F C. unfold insert. rewrite (ins_fits _ _ k v _ _ p cells r d F C). reflexivity. Qed.
