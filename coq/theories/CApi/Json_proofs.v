(* CApi/Json_proofs.v — PROOFS about CApi/Json.v: injectivity of the result conversion on plain values, and where it is lost *)
From Coq Require Import List NArith ZArith Bool.
From NDB Require Import CApi.Json.
Import ListNotations.

(* induction principle for the nested type *)
Section value_ind'.
  Variable P : value -> Prop.
  Hypothesis Hnull : P VNull.
  Hypothesis Hbool : forall b, P (VBool b).
  Hypothesis Hint : forall z, P (VInt z).
  Hypothesis Hfloat : forall b, P (VFloat b).
  Hypothesis Hstr : forall s, P (VStr s).
  Hypothesis Hdt : forall z, P (VDateTime z).
  Hypothesis Hblob : forall b, P (VBlob b).
  Hypothesis Hlist : forall l, Forall P l -> P (VList l).
  Hypothesis Hmap : forall m, Forall (fun kv => P (snd kv)) m -> P (VMap m).
  Hypothesis Hnode : forall id ls ps, Forall (fun kv => P (snd kv)) ps -> P (VNode id ls ps).
  Hypothesis Hrel : forall s d t ps, Forall (fun kv => P (snd kv)) ps -> P (VRel s d t ps).
  Hypothesis Hnid : forall i, P (VNodeId i).
  Hypothesis Heid : forall i, P (VExternalId i).
  Fixpoint value_ind' (v : value) : P v :=
    let fix go (l : list value) : Forall P l :=
      match l with [] => Forall_nil _ | x :: t => Forall_cons x (value_ind' x) (go t) end in
    let fix gom (m : list (str * value)) : Forall (fun kv => P (snd kv)) m :=
      match m with [] => Forall_nil _ | x :: t => Forall_cons x (value_ind' (snd x)) (gom t) end in
    match v with
    | VNull => Hnull | VBool b => Hbool b | VInt z => Hint z | VFloat b => Hfloat b | VStr s => Hstr s
    | VDateTime z => Hdt z | VBlob b => Hblob b
    | VList l => Hlist l (go l)
    | VMap m => Hmap m (gom m)
    | VNode i ls ps => Hnode i ls ps (gom ps)
    | VRel s d t ps => Hrel s d t ps (gom ps)
    | VNodeId i => Hnid i | VExternalId i => Heid i
    end.
End value_ind'.

Lemma map_inj_forall : forall (l1 : list value),
  Forall (fun v1 => plain v1 = true -> forall v2, plain v2 = true -> to_json v1 = to_json v2 -> v1 = v2) l1 ->
  forallb plain l1 = true -> forall l2, forallb plain l2 = true -> map to_json l1 = map to_json l2 -> l1 = l2.
Proof.
  induction 1 as [|x l1 Hx Hl IH]; intros Hp l2 Hp2 E; destruct l2 as [|y l2]; try discriminate; auto.
  cbn in *. apply andb_true_iff in Hp, Hp2. destruct Hp, Hp2. injection E as E1 E2.
  f_equal; auto.
Qed.

Lemma mapm_inj_forall : forall (m1 : list (str * value)),
  Forall (fun kv => plain (snd kv) = true -> forall v2, plain v2 = true -> to_json (snd kv) = to_json v2 -> snd kv = v2) m1 ->
  forallb (fun kv => plain (snd kv)) m1 = true -> forall m2, forallb (fun kv => plain (snd kv)) m2 = true ->
  map (fun kv => (fst kv, to_json (snd kv))) m1 = map (fun kv => (fst kv, to_json (snd kv))) m2 -> m1 = m2.
Proof.
  induction 1 as [|x m1 Hx Hl IH]; intros Hp m2 Hp2 E; destruct m2 as [|y m2]; try discriminate; auto.
  cbn in *. apply andb_true_iff in Hp, Hp2. destruct Hp, Hp2. injection E as E1 E2 E3.
  f_equal; auto. destruct x, y; cbn in *. f_equal; auto.
Qed.

Theorem to_json_inj_plain : forall v1, plain v1 = true -> forall v2, plain v2 = true ->
  to_json v1 = to_json v2 -> v1 = v2.
Proof.
  induction v1 using value_ind'; intros Hp v2 Hp2 E; try discriminate Hp;
    destruct v2; try discriminate Hp2; cbn in Hp, Hp2, E; try rewrite Hp in E; try rewrite Hp2 in E;
    try discriminate E; try (injection E as E; subst; reflexivity); try reflexivity.
  - f_equal. injection E as E. eapply map_inj_forall; eauto.
  - f_equal. injection E as E. eapply mapm_inj_forall; eauto.
Qed.

(* ---------- where the conversion is not injective ---------- *)
Definition nan_bits : N := 9221120237041090560%N.       (* 0x7FF8000000000000 *)
Definition inf_bits : N := 9218868437227405312%N.       (* 0x7FF0000000000000 *)
Lemma nonfinite_collide : to_json (VFloat nan_bits) = to_json VNull /\ to_json (VFloat inf_bits) = to_json VNull /\ VFloat nan_bits <> VNull.
Proof. repeat split; try (vm_compute; reflexivity). discriminate. Qed.

Lemma datetime_collides_with_map :
  to_json (VDateTime 5) = to_json (VMap [(s_type, VStr s_datetime); (s_value, VInt 5)]) /\
  VDateTime 5 <> VMap [(s_type, VStr s_datetime); (s_value, VInt 5)].
Proof. split; [vm_compute; reflexivity | discriminate]. Qed.

Lemma node_collides_with_map :
  to_json (VNode 0 [] []) = to_json (VMap [(s_id, VInt 0); (s_labels, VList []); (s_properties, VMap []); (s_type, VStr s_node)]) /\
  VNode 0 [] [] <> VMap [(s_id, VInt 0); (s_labels, VList []); (s_properties, VMap []); (s_type, VStr s_node)].
Proof. split; [vm_compute; reflexivity | discriminate]. Qed.

Lemma blob_lossy : to_json (VBlob [1%N]) = to_json (VBlob [2%N]) /\ VBlob [1%N] <> VBlob [2%N].
Proof. split; [vm_compute; reflexivity | discriminate]. Qed.

(* non-vacuity: a nested plain value *)
Example plain_example : plain (VList [VMap [(s_type, VStr s_node); (s_id, VFloat 4607182418800017408%N)]; VNull; VInt (-1)]) = true.
Proof. vm_compute. reflexivity. Qed.
