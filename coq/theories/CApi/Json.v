(* CApi/Json.v — MODEL of the C API's result conversion (nervusdb-capi/src/lib.rs value_to_json,
   row_to_json) over a model of nervusdb_query::Value and of serde_json::Value.
   Strings are byte lists; doubles are IEEE bit patterns (N); serde_json's `json!(f)` turns a
   non-finite double into null; maps are association lists in key order (BTreeMap). *)
From Coq Require Import List NArith ZArith Bool.
Import ListNotations.

Definition str := list N.

Inductive value :=
| VNull
| VBool (b : bool)
| VInt (z : Z)
| VFloat (bits : N)
| VStr (s : str)
| VDateTime (z : Z)
| VBlob (b : list N)
| VList (l : list value)
| VMap (m : list (str * value))
| VNode (id : Z) (labels : list str) (props : list (str * value))
| VRel (src dst : Z) (rel_type : str) (props : list (str * value))
| VNodeId (id : Z)
| VExternalId (id : Z).

Inductive json :=
| JNull
| JBool (b : bool)
| JInt (z : Z)
| JFloat (bits : N)
| JStr (s : str)
| JArr (l : list json)
| JObj (m : list (str * json)).

(* finite: exponent field not all ones *)
Definition finite_bits (b : N) : bool := negb (N.eqb (N.land (N.shiftr b 52) 2047) 2047).

(* ASCII codes of the fixed keys / tags *)
Definition s_type : str := [116;121;112;101]%N.
Definition s_value : str := [118;97;108;117;101]%N.
Definition s_datetime : str := [100;97;116;101;116;105;109;101]%N.
Definition s_blob : str := [98;108;111;98]%N.
Definition s_len : str := [108;101;110]%N.
Definition s_node : str := [110;111;100;101]%N.
Definition s_id : str := [105;100]%N.
Definition s_labels : str := [108;97;98;101;108;115]%N.
Definition s_properties : str := [112;114;111;112;101;114;116;105;101;115]%N.
Definition s_relationship : str := [114;101;108;97;116;105;111;110;115;104;105;112]%N.
Definition s_src : str := [115;114;99]%N.
Definition s_dst : str := [100;115;116]%N.
Definition s_rel_type : str := [114;101;108;95;116;121;112;101]%N.
Definition s_node_id : str := [110;111;100;101;95;105;100]%N.
Definition s_external_id : str := [101;120;116;101;114;110;97;108;95;105;100]%N.

(* keys of a json! object literal are stored in a sorted map: listed here in byte order *)
Fixpoint to_json (v : value) : json :=
  match v with
  | VNull => JNull
  | VBool b => JBool b
  | VInt z => JInt z
  | VFloat b => if finite_bits b then JFloat b else JNull
  | VStr s => JStr s
  | VDateTime z => JObj [(s_type, JStr s_datetime); (s_value, JInt z)]
  | VBlob b => JObj [(s_len, JInt (Z.of_nat (length b))); (s_type, JStr s_blob)]
  | VList l => JArr (map to_json l)
  | VMap m => JObj (map (fun kv => (fst kv, to_json (snd kv))) m)
  | VNode id labels props =>
      JObj [(s_id, JInt id); (s_labels, JArr (map JStr labels));
            (s_properties, JObj (map (fun kv => (fst kv, to_json (snd kv))) props)); (s_type, JStr s_node)]
  | VRel src dst rt props =>
      JObj [(s_dst, JInt dst); (s_properties, JObj (map (fun kv => (fst kv, to_json (snd kv))) props));
            (s_rel_type, JStr rt); (s_src, JInt src); (s_type, JStr s_relationship)]
  | VNodeId id => JObj [(s_type, JStr s_node_id); (s_value, JInt id)]
  | VExternalId id => JObj [(s_type, JStr s_external_id); (s_value, JInt id)]
  end.

(* plain values: null, booleans, integers, finite doubles, strings, lists and maps of plain values *)
Fixpoint plain (v : value) : bool :=
  match v with
  | VNull | VBool _ | VInt _ | VStr _ => true
  | VFloat b => finite_bits b
  | VList l => forallb plain l
  | VMap m => forallb (fun kv => plain (snd kv)) m
  | _ => false
  end.

(* executable equality on json (for the correspondence) *)
Fixpoint str_eqb (a b : str) : bool :=
  match a, b with [], [] => true | x :: a', y :: b' => N.eqb x y && str_eqb a' b' | _, _ => false end.
Fixpoint json_eqb (a b : json) : bool :=
  match a, b with
  | JNull, JNull => true
  | JBool x, JBool y => Bool.eqb x y
  | JInt x, JInt y => Z.eqb x y
  | JFloat x, JFloat y => N.eqb x y
  | JStr x, JStr y => str_eqb x y
  | JArr x, JArr y =>
      (fix go (x y : list json) : bool :=
         match x, y with [], [] => true | h :: x', k :: y' => json_eqb h k && go x' y' | _, _ => false end) x y
  | JObj x, JObj y =>
      (fix go (x y : list (str * json)) : bool :=
         match x, y with
         | [], [] => true
         | (k1, h) :: x', (k2, k) :: y' => str_eqb k1 k2 && json_eqb h k && go x' y'
         | _, _ => false
         end) x y
  | _, _ => false
  end.
