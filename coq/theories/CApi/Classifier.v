(* CApi/Classifier.v — MODEL of the C API's read/write statement classification
   (nervusdb-capi/src/lib.rs write_query_contains_write / query_contains_write /
   clause_contains_write) over a small model of the parser's AST (nervusdb-query/src/ast.rs).
   The classification is AST based: the statement is parsed and the clause list is walked;
   nested queries are entered through CALL { } and UNION only.  No proofs here.

   AST model: what matters for the classification is the nesting structure —
     expressions: leaves, operator nodes, EXISTS { subquery }
     clauses:     reading clauses (MATCH UNWIND RETURN WITH WHERE, procedure CALL) with their
                  expressions, updating clauses (CREATE MERGE SET REMOVE DELETE), FOREACH,
                  CALL { subquery }, UNION <query>
   Lists are encoded by the constructors themselves (QNil/QCons, ENode) so that the mutual
   induction principle is the generated one. *)
From Coq Require Import Bool.

Inductive expr :=
| ELeaf
| ENode (l r : expr)
| EExists (q : query)
with clause :=
| CRead (e : expr)
| CUpdate (e : expr)
| CForeach (e : expr) (body : query)
| CCallSub (q : query)
| CUnion (q : query)
with query :=
| QNil
| QCons (c : clause) (q : query).

Scheme expr_mut := Induction for expr Sort Prop
  with clause_mut := Induction for clause Sort Prop
  with query_mut := Induction for query Sort Prop.
Combined Scheme ast_mutind from expr_mut, clause_mut, query_mut.

(* the C API's classifier *)
Fixpoint cls_q (q : query) : bool :=
  match q with QNil => false | QCons c q' => cls_c c || cls_q q' end
with cls_c (c : clause) : bool :=
  match c with
  | CUpdate _ => true
  | CForeach _ _ => true
  | CCallSub q => cls_q q
  | CUnion q => cls_q q
  | CRead _ => false
  end.

(* spec: some clause, at any nesting the AST has, is an updating clause (FOREACH is one) *)
Fixpoint upd_e (e : expr) : bool :=
  match e with ELeaf => false | ENode l r => upd_e l || upd_e r | EExists q => upd_q q end
with upd_c (c : clause) : bool :=
  match c with
  | CUpdate _ => true
  | CForeach _ _ => true
  | CCallSub q => upd_q q
  | CUnion q => upd_q q
  | CRead e => upd_e e
  end
with upd_q (q : query) : bool :=
  match q with QNil => false | QCons c q' => upd_c c || upd_q q' end.

(* no updating clause below an expression (i.e. inside an EXISTS subquery), at any nesting *)
Fixpoint expr_free_e (e : expr) : bool :=
  match e with ELeaf => true | ENode l r => expr_free_e l && expr_free_e r | EExists q => negb (upd_q q) end
with expr_free_c (c : clause) : bool :=
  match c with
  | CRead e => expr_free_e e
  | CUpdate e => expr_free_e e
  | CForeach e b => expr_free_e e && expr_free_q b
  | CCallSub q => expr_free_q q
  | CUnion q => expr_free_q q
  end
with expr_free_q (q : query) : bool :=
  match q with QNil => true | QCons c q' => expr_free_c c && expr_free_q q' end.

(* what the parser guarantees (parser.rs validate_exists_subquery_clauses): the TOP-LEVEL
   clauses of an EXISTS subquery are not updating clauses — nested ones are not checked *)
Fixpoint top_level_read (q : query) : bool :=
  match q with
  | QNil => true
  | QCons (CUpdate _) _ => false
  | QCons (CForeach _ _) _ => false
  | QCons _ q' => top_level_read q'
  end.
Fixpoint parser_ok_e (e : expr) : bool :=
  match e with ELeaf => true | ENode l r => parser_ok_e l && parser_ok_e r
  | EExists q => top_level_read q && parser_ok_q q end
with parser_ok_c (c : clause) : bool :=
  match c with
  | CRead e => parser_ok_e e
  | CUpdate e => parser_ok_e e
  | CForeach e b => parser_ok_e e && parser_ok_q b
  | CCallSub q => parser_ok_q q
  | CUnion q => parser_ok_q q
  end
with parser_ok_q (q : query) : bool :=
  match q with QNil => true | QCons c q' => parser_ok_c c && parser_ok_q q' end.
