(* CApi/Classifier_proofs.v — PROOFS about CApi/Classifier.v *)
From Coq Require Import Bool.
From NDB Require Import CApi.Classifier.

Ltac brk := repeat match goal with
 | H : _ && _ = true |- _ => apply andb_true_iff in H; destruct H
 | H : negb _ = true |- _ => apply negb_true_iff in H
 end.

(* the classifier never calls a statement a write unless it contains an updating clause *)
Lemma cls_sound_mut :
  (forall e : expr, True) /\
  (forall c, cls_c c = true -> upd_c c = true) /\
  (forall q, cls_q q = true -> upd_q q = true).
Proof.
  apply ast_mutind; cbn; intros; auto; try discriminate.
  apply orb_true_iff in H1. apply orb_true_iff. destruct H1; [left|right]; auto.
Qed.

Theorem cls_sound : forall q, cls_q q = true -> upd_q q = true.
Proof. apply cls_sound_mut. Qed.

(* ... and finds every updating clause that is not below an expression *)
Lemma cls_complete_mut :
  (forall e, expr_free_e e = true -> upd_e e = false) /\
  (forall c, expr_free_c c = true -> cls_c c = upd_c c) /\
  (forall q, expr_free_q q = true -> cls_q q = upd_q q).
Proof.
  apply ast_mutind; cbn; intros; brk; auto.
  - rewrite H, H0; auto.
  - symmetry; auto.
  - rewrite H, H0; auto.
Qed.

Theorem cls_correct_expr_free : forall q, expr_free_q q = true -> cls_q q = upd_q q.
Proof. apply cls_complete_mut. Qed.

(* witness: RETURN EXISTS { CALL { CREATE (x:Z) } RETURN 1 } — accepted by the parser, contains
   an updating clause, classified as a read *)
Definition w_exists : query :=
  QCons (CRead (EExists (QCons (CCallSub (QCons (CUpdate ELeaf) QNil)) (QCons (CRead ELeaf) QNil)))) QNil.
Lemma w_exists_facts : parser_ok_q w_exists = true /\ cls_q w_exists = false /\ upd_q w_exists = true.
Proof. vm_compute. auto. Qed.

(* non-vacuity of the conditional theorem: a write nested in CALL{} inside UNION inside FOREACH-bearing query *)
Definition q_nested : query :=
  QCons (CRead (ENode ELeaf (EExists (QCons (CRead ELeaf) QNil))))
   (QCons (CUnion (QCons (CCallSub (QCons (CForeach ELeaf (QCons (CUpdate ELeaf) QNil)) QNil)) QNil)) QNil).
Lemma q_nested_facts : expr_free_q q_nested = true /\ cls_q q_nested = true.
Proof. vm_compute. auto. Qed.
