(* Codec/WalLog_proofs.v — proofs about the log-file model (C17): which byte strings
   end the scan (proper prefixes of a frame, a wrong checksum, zero-filled space, an
   impossible length field), tail_tolerated, commit_after_tail.  The reader policy,
   the truncation on open and the size check in append are the constants read from
   the source: the proofs compute them (policy1, trunc1, checks1) and stop compiling
   when the code goes back to the old behaviour. *)
From Coq Require Import Lia ZifyBool ZifyN ZifyNat.
From NDB Require Import Base.Bytes Base.Bytes_proofs Codec.Crc32 Codec.PropValue Codec.PropValue_proofs Codec.WalRecord Codec.WalLog.
Open Scope N_scope.

Definition maxlen : N := wal_max_record_len.
Lemma maxlen_small : maxlen < 4294967296. Proof. reflexivity. Qed.

Lemma policy1 : wal_reader_len_policy = 1. Proof. reflexivity. Qed.
Lemma trunc1 : wal_open_truncates_tail = 1. Proof. reflexivity. Qed.
Lemma checks1 : wal_append_checks_max = 1. Proof. reflexivity. Qed.

(* next_frame with the policy constants resolved *)
Lemma next_frame_eq l : next_frame l =
  if len l <? 4 then NStop else
  if (unle (firstn 4 l) =? 0) || (maxlen <? unle (firstn 4 l)) then NStop else
  if len l <? 8 then NStop else
  if len l <? 8 + unle (firstn 4 l) then NStop else
  if negb (crc32 (firstn (N.to_nat (unle (firstn 4 l))) (skipn 8 l)) =? unle (firstn 4 (skipn 4 l))) then NStop else
  NRec (firstn (N.to_nat (unle (firstn 4 l))) (skipn 8 l)) (skipn (N.to_nat (8 + unle (firstn 4 l))) l).
Proof.
  unfold next_frame. rewrite policy1. change (1 =? 0) with false. change (1 =? 1) with true.
  cbn [andb]. reflexivity.
Qed.

Lemma crc32_lt l : crc32 l < 4294967296.
Proof. unfold crc32. apply N.mod_lt. discriminate. Qed.

Lemma len_frame_body b : len (frame_body b) = 8 + len b.
Proof. unfold frame_body. rewrite !len_app, !len_le. lia. Qed.

(* shape of a header followed by anything *)
Lemma hdr_firstn4 n c t : firstn 4 (le 4 n ++ le 4 c ++ t) = le 4 n.
Proof. apply firstn_app_exact. now rewrite le_length. Qed.
Lemma hdr_skipn4 n c t : skipn 4 (le 4 n ++ le 4 c ++ t) = le 4 c ++ t.
Proof. apply skipn_app_exact. now rewrite le_length. Qed.
Lemma hdr_skipn8 n c t : skipn 8 (le 4 n ++ le 4 c ++ t) = t.
Proof. rewrite app_assoc. apply skipn_app_exact. now rewrite app_length, !le_length. Qed.

(* T1: a complete frame with a body of 1..MAX bytes is read back, whatever follows *)
Lemma next_frame_frame body rest : 1 <= len body <= maxlen ->
  next_frame (frame_body body ++ rest) = NRec body rest.
Proof.
  intros Hb. pose proof maxlen_small. rewrite next_frame_eq. unfold frame_body. rewrite <- !app_assoc.
  rewrite hdr_firstn4, hdr_skipn4, hdr_skipn8.
  rewrite (firstn_app_exact (le 4 (crc32 body))) by now rewrite le_length.
  rewrite !unle_le4 by (try apply crc32_lt; lia).
  rewrite !len_app, !len_le.
  destruct (N.of_nat 4 + (N.of_nat 4 + (len body + len rest)) <? 4) eqn:E1; [lia|].
  destruct ((len body =? 0) || (maxlen <? len body)) eqn:E2; [lia|].
  destruct (N.of_nat 4 + (N.of_nat 4 + (len body + len rest)) <? 8) eqn:E3; [lia|].
  destruct (N.of_nat 4 + (N.of_nat 4 + (len body + len rest)) <? 8 + len body) eqn:E4; [lia|].
  rewrite firstn_app_exact by (unfold len; lia).
  rewrite N.eqb_refl. cbn [negb]. f_equal.
  rewrite !app_assoc. apply skipn_app_exact. rewrite !app_length, !le_length. unfold len. lia.
Qed.

(* T2: every proper prefix of a frame ends the scan *)
Lemma prefix_stops body p t : len body < 4294967296 -> frame_body body = p ++ t -> t <> [] -> next_frame p = NStop.
Proof.
  intros Hs Hp Ht. pose proof maxlen_small. rewrite next_frame_eq.
  assert (Hl : len p < 8 + len body).
  { pose proof (len_frame_body body) as H1. rewrite Hp, len_app in H1. destruct t; [congruence|]. rewrite len_cons in H1. lia. }
  destruct (len p <? 4) eqn:E1; [reflexivity|].
  assert (H4 : firstn 4 p = le 4 (len body)).
  { assert (firstn 4 (p ++ t) = firstn 4 p) as <-.
    { rewrite firstn_app. replace (4 - length p)%nat with 0%nat by (unfold len in E1; lia). cbn. now rewrite app_nil_r. }
    rewrite <- Hp. unfold frame_body. apply firstn_app_exact. now rewrite le_length. }
  rewrite H4, unle_le4 by exact Hs.
  destruct ((len body =? 0) || (maxlen <? len body)); [reflexivity|].
  destruct (len p <? 8); [reflexivity|].
  destruct (len p <? 8 + len body) eqn:E; [reflexivity|lia].
Qed.

(* T3: a complete frame whose checksum field does not match ends the scan *)
Lemma crc_stops body c rest : len body < 4294967296 -> c < 4294967296 -> c <> crc32 body ->
  next_frame (le 4 (len body) ++ le 4 c ++ body ++ rest) = NStop.
Proof.
  intros Hs Hc Hne. rewrite next_frame_eq.
  rewrite hdr_firstn4, hdr_skipn4, hdr_skipn8.
  rewrite (firstn_app_exact (le 4 c)) by now rewrite le_length.
  rewrite !unle_le4 by assumption.
  rewrite (firstn_app_exact body) by (unfold len; lia).
  destruct (_ <? 4); [reflexivity|]. destruct (_ || _); [reflexivity|].
  destruct (_ <? 8); [reflexivity|]. destruct (_ <? 8 + _); [reflexivity|].
  destruct (crc32 body =? c) eqn:E; [apply N.eqb_eq in E; congruence|reflexivity].
Qed.

(* T4: zero-filled space, and a length field of 0 or above the limit, end the scan *)
Lemma len_field_stops n t : n < 4294967296 -> n = 0 \/ maxlen < n -> next_frame (le 4 n ++ t) = NStop.
Proof.
  intros Hn Hz. rewrite next_frame_eq.
  rewrite (firstn_app_exact (le 4 n)) by now rewrite le_length. rewrite unle_le4 by exact Hn.
  destruct (_ <? 4); [reflexivity|].
  destruct ((n =? 0) || (maxlen <? n)) eqn:E; [reflexivity|]. lia.
Qed.
Lemma short_stops t : len t < 4 -> next_frame t = NStop.
Proof. intros H. rewrite next_frame_eq. destruct (len t <? 4) eqn:E; [reflexivity|lia]. Qed.
Lemma zeros_stop k : next_frame (repeat 0 k) = NStop.
Proof.
  destruct (Nat.lt_ge_cases k 4) as [H|H].
  - apply short_stops. unfold len. rewrite repeat_length. lia.
  - replace k with (4 + (k - 4))%nat by lia. rewrite repeat_app.
    change (repeat 0 4) with (le 4 0). apply len_field_stops; [reflexivity|now left].
Qed.

(* a valid log: the frames of bodies of 1..MAX bytes that decode *)
Fixpoint log_of (bs : list bytes) : bytes :=
  match bs with [] => [] | b :: t => frame_body b ++ log_of t end.
Definition body_ok (b : bytes) (r : wrec) : Prop := 1 <= len b <= maxlen /\ decode_body b = WOk r.
Definition valid_log (l : bytes) (rs : list wrec) : Prop := exists bs, l = log_of bs /\ Forall2 body_ok bs rs.

Lemma log_of_app a b : log_of (a ++ b) = log_of a ++ log_of b.
Proof. induction a as [|x a IH]; [reflexivity|]. cbn [log_of app]. now rewrite IH, app_assoc. Qed.
Lemma log_of_count bs : (length bs <= length (log_of bs))%nat.
Proof.
  induction bs as [|b bs IH]; [cbn; lia|]. cbn [log_of length]. rewrite app_length.
  pose proof (len_frame_body b). unfold len in *. lia.
Qed.

Lemma scan_valid bs rs : Forall2 body_ok bs rs -> forall t fuel off acc,
  next_frame t = NStop -> (length bs < fuel)%nat ->
  scan fuel (log_of bs ++ t) off acc = inl (rev acc ++ rs, off + len (log_of bs)).
Proof.
  induction 1 as [|b r bs rs [Hlen Hdec] _ IH]; intros t fuel off acc Ht Hf.
  - destruct fuel; [lia|]. cbn [scan log_of app]. rewrite Ht. rewrite app_nil_r. f_equal. f_equal. cbn. lia.
  - destruct fuel; [cbn in Hf; lia|]. cbn [scan log_of]. rewrite <- app_assoc.
    rewrite next_frame_frame by exact Hlen. rewrite Hdec.
    rewrite IH; [|exact Ht|cbn in Hf; lia]. cbn [rev]. rewrite <- app_assoc. cbn [app].
    f_equal. f_equal. rewrite len_app, len_frame_body. lia.
Qed.

Lemma scan_file_valid bs rs t : Forall2 body_ok bs rs -> next_frame t = NStop ->
  scan_file (log_of bs ++ t) = inl (rs, len (log_of bs)).
Proof.
  intros H Ht. unfold scan_file. rewrite (scan_valid bs rs H t); [reflexivity|exact Ht|].
  rewrite app_length. pose proof (log_of_count bs). lia.
Qed.

(* T6: whatever follows a valid log, if it does not begin with a complete checksummed frame
   of 1..MAX bytes: open succeeds, recovers exactly the log's transactions and leaves
   exactly the valid log in the file *)
Theorem tail_tolerated l rs t txs : valid_log l rs -> next_frame t = NStop ->
  replay rs None [] [] = Some txs ->
  open_log (l ++ t) = inl (l, txs) /\ replay_file (l ++ t) = inl txs /\ replay_file l = inl txs.
Proof.
  intros (bs & -> & Hv) Ht Hr.
  assert (H0 : scan_file (log_of bs) = inl (rs, len (log_of bs))).
  { rewrite <- (app_nil_r (log_of bs)) at 1. apply scan_file_valid; [exact Hv|]. apply short_stops. reflexivity. }
  unfold open_log, replay_file. rewrite (scan_file_valid bs rs t Hv Ht), H0, Hr, trunc1.
  change (1 =? 1) with true. cbv iota.
  repeat split. f_equal. f_equal. apply firstn_app_exact. unfold len. lia.
Qed.

(* ---- replay as a state machine ---- *)
Definition rst := (option N * list wrec * list tx)%type.
Definition is_marker (r : wrec) : bool := match r with WBegin _ | WCommit _ => true | _ => false end.
Definition step (r : wrec) (s : rst) : option rst :=
  match s with (cur, pend, out) =>
    match r with
    | WBegin t => Some (Some t, [], out)
    | WCommit t =>
        match cur with
        | Some c => if c =? t then Some (None, [], (t, rev pend) :: out) else None
        | None => None
        end
    | other => match cur with Some _ => Some (cur, other :: pend, out) | None => None end
    end
  end.
Fixpoint run (rs : list wrec) (s : rst) : option rst :=
  match rs with
  | [] => Some s
  | r :: rs' => match step r s with Some s' => run rs' s' | None => None end
  end.
Definition fin (s : option rst) : option (list tx) :=
  match s with Some (_, _, out) => Some (rev out) | None => None end.

Lemma replay_run rs : forall c p o, replay rs c p o = fin (run rs (c, p, o)).
Proof.
  induction rs as [|r rs IH]; intros c p o; [reflexivity|].
  destruct r; cbn [replay run step]; try (destruct c; [apply IH|reflexivity]); try apply IH.
  destruct c as [c|]; [|reflexivity]. destruct (c =? txid); [apply IH|reflexivity].
Qed.
Lemma run_app a b s : run (a ++ b) s = match run a s with Some s' => run b s' | None => None end.
Proof. revert s. induction a as [|r a IH]; intros s; [reflexivity|]. cbn [run app]. destruct (step r s); [apply IH|reflexivity]. Qed.
Lemma run_ops ops : forallb (fun r => negb (is_marker r)) ops = true -> forall t p o,
  run ops (Some t, p, o) = Some (Some t, rev ops ++ p, o).
Proof.
  induction ops as [|r ops IH]; intros H t p o; [reflexivity|].
  cbn [forallb] in H. apply andb_prop in H as [Hr H]. cbn [run].
  destruct r; try discriminate; cbn [step]; rewrite IH by exact H; cbn [rev]; now rewrite <- app_assoc.
Qed.
Lemma run_commit (t : tx) s : forallb (fun r => negb (is_marker r)) (snd t) = true ->
  run (commit_records t) s = match s with (_, _, o) => Some (None, [], t :: o) end.
Proof.
  intros H. destruct s as [[c p] o]. destruct t as [id ops]. unfold commit_records. cbn [fst snd] in *.
  cbn [run step]. rewrite run_app, run_ops by exact H. cbn [run step]. rewrite N.eqb_refl.
  rewrite app_nil_r, rev_involutive. reflexivity.
Qed.
Lemma replay_commit rs txs (t : tx) : replay rs None [] [] = Some txs ->
  forallb (fun r => negb (is_marker r)) (snd t) = true ->
  replay (rs ++ commit_records t) None [] [] = Some (txs ++ [t]).
Proof.
  intros Hr Hops. rewrite replay_run in *. rewrite run_app.
  destruct (run rs (None, [], [])) as [[[c p] o]|]; [|discriminate].
  cbn [fin] in Hr. injection Hr as <-. rewrite run_commit by exact Hops. reflexivity.
Qed.

(* appending whole records to a file *)
(* a record `append` accepts and the reader gives back *)
Definition rec_ok (r : wrec) : Prop := body_ok (encode_body r) r /\ rec_too_deep r = false.

Lemma append_all_ok rs' : forall l, Forall (fun r => len (encode_body r) <= maxlen /\ rec_too_deep r = false) rs' ->
  append_all l rs' = Some (l ++ log_of (map encode_body rs')).
Proof.
  induction rs' as [|r rs' IH]; intros l H; [cbn; now rewrite app_nil_r|].
  inversion H as [|? ? [Hr Hdeep] Hrest]; subst. cbn [append_all map log_of]. unfold append. rewrite Hdeep, checks1.
  change (1 =? 1) with true. cbn [andb].
  fold maxlen. destruct (maxlen <? len (encode_body r)) eqn:E; [lia|].
  rewrite IH by exact Hrest. now rewrite <- app_assoc.
Qed.

(* T7: after opening a log with a tolerated tail, a commit is appended to the valid log and the
   next open recovers the old transactions followed by the new one — again under any tail *)
Theorem commit_after_tail l rs t txs (newtx : tx) t2 :
  valid_log l rs -> next_frame t = NStop -> replay rs None [] [] = Some txs ->
  forallb (fun r => negb (is_marker r)) (snd newtx) = true ->
  Forall rec_ok (commit_records newtx) ->
  next_frame t2 = NStop ->
  exists l1 l2,
    open_log (l ++ t) = inl (l1, txs) /\
    append_all l1 (commit_records newtx) = Some l2 /\
    valid_log l2 (rs ++ commit_records newtx) /\
    open_log (l2 ++ t2) = inl (l2, txs ++ [newtx]).
Proof.
  intros Hv Ht Hr Hops Hnew Ht2.
  destruct (tail_tolerated l rs t txs Hv Ht Hr) as (Ho & _ & _).
  exists l, (l ++ log_of (map encode_body (commit_records newtx))).
  assert (Hv2 : valid_log (l ++ log_of (map encode_body (commit_records newtx))) (rs ++ commit_records newtx)).
  { destruct Hv as (bs & -> & Hb). exists (bs ++ map encode_body (commit_records newtx)). split; [now rewrite log_of_app|].
    apply Forall2_app; [exact Hb|]. clear -Hnew. induction Hnew as [|r rs' [H _] _ IH]; constructor; assumption. }
  split; [exact Ho|]. split.
  - apply append_all_ok. clear -Hnew. induction Hnew as [|r rs' [[[_ H] _] Hd] _ IH]; constructor; [split|]; assumption.
  - split; [exact Hv2|]. apply (tail_tolerated _ _ t2 _ Hv2 Ht2). now apply replay_commit.
Qed.
