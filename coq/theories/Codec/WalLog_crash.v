(* Codec/WalLog_crash.v — byte-level justification of the item abstraction of Crash/Protocol.v
   (imported read-only): a log file that consists of the frames of complete transactions
   followed by a torn frame (a proper prefix of a frame, or nothing) is read by the byte-level
   reader (Codec/WalLog.v: next_frame / scan / replay) as exactly those transactions, in
   order, and `open` leaves exactly their bytes; the abstract `Protocol.scan` of the
   corresponding items [ITx ...; ITx ...; ITorn] yields the same transactions.
   A torn frame FOLLOWED by further frames is not covered at the byte level (whether the
   reader stops there depends on a CRC comparison of mixed bytes); since /repo 912c988
   (truncate_torn_tail on open) and df9083d (a failed append is rolled back) a torn frame can
   only be the tail of the file. *)
From Coq Require Import Lia ZifyBool ZifyN ZifyNat.
From NDB Require Import Base.Bytes Base.Bytes_proofs Codec.Crc32 Codec.PropValue Codec.PropValue_proofs
  Codec.WalRecord Codec.WalLog Codec.WalLog_proofs Codec.WalRecord_proofs Codec.WalLog_corollaries.
From NDB Require Crash.Protocol.
Open Scope N_scope.

(* ---- the byte log of a list of complete transactions, possibly followed by a torn frame ---- *)

Definition tx_ok (t : tx) : Prop :=
  forallb (fun x => negb (is_marker x)) (snd t) = true /\
  Forall (fun x => wf_rec x = true /\ len (encode_body x) <= wal_max_record_len) (commit_records t).

Definition records_of (txs : list tx) : list wrec := flat_map commit_records txs.
Definition bytes_of (txs : list tx) : bytes := log_of (map encode_body (records_of txs)).

(* a frame that failed half way: a proper prefix of a frame (or nothing) *)
Definition torn (t : bytes) : Prop :=
  t = [] \/ exists body rest, len body < 4294967296 /\ frame_body body = t ++ rest /\ rest <> [].

Lemma torn_stops t : torn t -> next_frame t = NStop.
Proof.
  intros [->|(body & rest & Hl & Hf & Hr)]; [apply short_stops; reflexivity|].
  exact (prefix_stops body t rest Hl Hf Hr).
Qed.

Lemma replay_records txs : Forall tx_ok txs -> replay (records_of txs) None [] [] = Some txs.
Proof.
  induction txs as [|t txs IH] using rev_ind; intros H; [reflexivity|].
  apply Forall_app in H as [H1 H2]. inversion H2 as [|? ? [Hops _] _]; subst.
  unfold records_of. rewrite flat_map_app. cbn [flat_map]. rewrite app_nil_r.
  apply replay_commit; [now apply IH|exact Hops].
Qed.

Lemma records_wf txs : Forall tx_ok txs ->
  Forall (fun x => wf_rec x = true /\ len (encode_body x) <= wal_max_record_len) (records_of txs).
Proof.
  induction 1 as [|t txs [_ Ht] _ IH]; [constructor|]. unfold records_of. cbn [flat_map].
  apply Forall_app. split; assumption.
Qed.

(* byte level: the reader yields exactly the complete transactions, in order; open leaves
   exactly their bytes in the file *)
Theorem scan_bytes_complete_txs txs t : Forall tx_ok txs -> torn t ->
  replay_file (bytes_of txs ++ t) = inl txs /\ open_log (bytes_of txs ++ t) = inl (bytes_of txs, txs).
Proof.
  intros Hok Ht.
  pose proof (written_log_valid (records_of txs) (records_wf txs Hok)) as Hv.
  destruct (tail_tolerated _ _ t txs Hv (torn_stops t Ht) (replay_records txs Hok)) as (Ho & Hr & _).
  split; assumption.
Qed.

(* ---- the item abstraction of Crash/Protocol.v ---- *)
Import Crash.Protocol.

(* the checkpoint a transaction carries: the last Checkpoint record among its operations
   (`need` is a ghost count supplied by the harness, not in the bytes) *)
Fixpoint last_ckpt (ops : list WalRecord.wrec) : option N :=
  match ops with
  | [] => None
  | WCheckpoint u _ _ _ :: r => match last_ckpt r with Some x => Some x | None => Some u end
  | _ :: r => last_ckpt r
  end.
Definition ctx_of (need : tx -> N) (t : tx) : ctx :=
  (fst t, match last_ckpt (snd t) with Some u => Some (u, need t) | None => None end).
Definition item_of (need : tx -> N) (t : tx) : item := ITx (fst (ctx_of need t)) (snd (ctx_of need t)).
(* the abstract log of a byte log: one ITx per complete transaction, ITorn for a non-empty torn frame *)
Definition items_of (need : tx -> N) (txs : list tx) (torn_tail : bool) : list item :=
  map (item_of need) txs ++ (if torn_tail then [ITorn] else []).

Lemma scan_items need txs torn_tail : scan (items_of need txs torn_tail) = map (ctx_of need) txs.
Proof.
  unfold items_of. induction txs as [|t txs IH]; [destruct torn_tail; reflexivity|].
  cbn [map app scan item_of]. now rewrite IH.
Qed.

(* the justification of the ITorn / item abstraction: the abstract scan of the items and the
   byte-level reader of the bytes they stand for see the same transactions *)
Theorem items_abstract_bytes need txs t : Forall tx_ok txs -> torn t ->
  match replay_file (bytes_of txs ++ t) with
  | inl got => map (ctx_of need) got = scan (items_of need txs (negb (len t =? 0)))
  | inr _ => False
  end.
Proof.
  intros Hok Ht. destruct (scan_bytes_complete_txs txs t Hok Ht) as [-> _]. now rewrite scan_items.
Qed.
