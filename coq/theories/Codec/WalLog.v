(* Codec/WalLog.v — byte-exact model of the log file: framing
   `len:u32 | crc32:u32 | body`, WalReader::next_record, Wal::replay_committed,
   what GraphEngine::open does to the file (truncate_torn_tail) and Wal::append
   (always at the end of the file).  Executable definitions only.
   The reader's treatment of the length field, the size check in `append` and
   whether `open` cuts the tail off are read from the source (Gen/Consts.v:
   wal_reader_len_policy, wal_append_checks_max, wal_open_truncates_tail), so
   the model follows the code that exists. *)
From NDB Require Export Base.Bytes Gen.Consts Codec.Crc32 Codec.PropValue Codec.WalRecord.
Open Scope N_scope.

Definition frame_body (body : bytes) : bytes := le 4 (len body) ++ le 4 (crc32 body) ++ body.
Definition frame (r : wrec) : bytes := frame_body (encode_body r).

(* outcome of WalReader::next_record on the rest of the file *)
Inductive nf :=
| NRec (body rest : bytes)     (* a complete frame whose checksum matches *)
| NStop                        (* Ok(None): end of log *)
| NTooLarge.                   (* Err(WalRecordTooLarge) *)

Definition next_frame (l : bytes) : nf :=
  if len l <? 4 then NStop else                         (* try_read_u32: short read *)
  let n := unle (firstn 4 l) in
  if (wal_reader_len_policy =? 0) && (wal_max_record_len <? n) then NTooLarge else
  if (wal_reader_len_policy =? 1) && ((n =? 0) || (wal_max_record_len <? n)) then NStop else
  if len l <? 8 then NStop else
  let crc := unle (firstn 4 (skipn 4 l)) in
  if len l <? 8 + n then NStop else                     (* read_exact: UnexpectedEof *)
  let body := firstn (N.to_nat n) (skipn 8 l) in
  if negb (crc32 body =? crc) then NStop else
  NRec body (skipn (N.to_nat (8 + n)) l).

Inductive lerr := LTooLarge | LProtocol | LPanic | LNoFuel.

(* the records the reader yields, and the offset after the last one;
   fuel: one per frame (a frame has at least 8 bytes) *)
Fixpoint scan (fuel : nat) (l : bytes) (off : N) (acc : list wrec) : (list wrec * N) + lerr :=
  match fuel with
  | O => inr LNoFuel
  | S f =>
    match next_frame l with
    | NStop => inl (rev acc, off)
    | NTooLarge => inr LTooLarge
    | NRec body rest =>
        match decode_body body with
        | WOk r => scan f rest (off + 8 + len body) (r :: acc)
        | WErr => inr LProtocol
        | WPanic => inr LPanic
        end
    end
  end.

Definition scan_file (l : bytes) := scan (S (length l)) l 0 [].

(* Wal::replay_committed over the records *)
Definition tx := (N * list wrec)%type.

Fixpoint replay (rs : list wrec) (cur : option N) (pending : list wrec) (out : list tx) : option (list tx) :=
  match rs with
  | [] => Some (rev out)
  | r :: rs' =>
      match r with
      | WBegin t => replay rs' (Some t) [] out
      | WCommit t =>
          match cur with
          | Some c => if c =? t then replay rs' None [] ((t, rev pending) :: out) else None
          | None => None                     (* "CommitTx without matching BeginTx" *)
          end
      | other =>
          match cur with
          | Some _ => replay rs' cur (other :: pending) out
          | None => None                     (* "op outside tx" *)
          end
      end
  end.

Definition replay_file (l : bytes) : (list tx) + lerr :=
  match scan_file l with
  | inl (rs, _) => match replay rs None [] [] with Some t => inl t | None => inr LProtocol end
  | inr e => inr e
  end.

(* GraphEngine::open as far as the log is concerned: the file afterwards and
   the committed transactions handed to recovery *)
Definition open_log (l : bytes) : (bytes * list tx) + lerr :=
  match scan_file l with
  | inr e => inr e
  | inl (rs, off) =>
      let l' := if wal_open_truncates_tail =? 1 then firstn (N.to_nat off) l else l in
      match replay rs None [] [] with
      | Some t => inl (l', t)
      | None => inr LProtocol
      end
  end.

(* Wal::append: None = refused (encode_body error / WalRecordTooLarge) *)
Definition append (l : bytes) (r : wrec) : option bytes :=
  let body := encode_body r in
  if rec_too_deep r then None                      (* encode_body fails *)
  else if (wal_append_checks_max =? 1) && (wal_max_record_len <? len body) then None
  else Some (l ++ frame_body body).

Fixpoint append_all (l : bytes) (rs : list wrec) : option bytes :=
  match rs with
  | [] => Some l
  | r :: rs' => match append l r with Some l' => append_all l' rs' | None => None end
  end.

(* a commit as engine.rs writes it: BeginTx, the operations, CommitTx *)
Definition commit_records (t : tx) : list wrec := WBegin (fst t) :: snd t ++ [WCommit (fst t)].

Definition tx_eqb (a b : tx) : bool :=
  (fst a =? fst b) &&
  (fix go (x y : list wrec) : bool :=
     match x, y with
     | [], [] => true
     | p :: x', q :: y' => wrec_eqb p q && go x' y'
     | _, _ => false
     end) (snd a) (snd b).
