(* Codec/WalLog_corollaries.v — commit_after_tail with the record-level round trip
   (WalRecord_proofs.wal_roundtrip) discharging the hypothesis on the appended records. *)
From Coq Require Import Lia ZifyBool ZifyN ZifyNat.
From NDB Require Import Base.Bytes Base.Bytes_proofs Codec.Crc32 Codec.PropValue Codec.PropValue_proofs
  Codec.WalRecord Codec.WalLog Codec.WalLog_proofs Codec.WalRecord_proofs.
Open Scope N_scope.

Lemma encode_body_nonempty r : 1 <= len (encode_body r).
Proof. destruct r; cbn [encode_body]; rewrite len_cons; lia. Qed.

Lemma body_ok_wf r : wf_rec r = true -> len (encode_body r) <= wal_max_record_len -> body_ok (encode_body r) r.
Proof.
  intros Hwf Hl. split; [split; [apply encode_body_nonempty|exact Hl]|now apply wal_roundtrip].
Qed.

Lemma wf_not_too_deep r : wf_rec r = true -> rec_too_deep r = false.
Proof.
  unfold rec_too_deep. destruct r; intros H; try (now rewrite Bool.andb_false_r).
  - cbn [wf_rec] in H. apply andb_prop in H as [_ H]. apply wfd_inv in H as [_ H].
    destruct (pv_max_nesting <? cdepth value) eqn:E; [lia|apply Bool.andb_false_r].
  - cbn [wf_rec] in H. apply andb_prop in H as [_ H]. apply wfd_inv in H as [_ H].
    destruct (pv_max_nesting <? cdepth value) eqn:E; [lia|apply Bool.andb_false_r].
Qed.
Lemma rec_ok_wf r : wf_rec r = true -> len (encode_body r) <= wal_max_record_len -> rec_ok r.
Proof. intros H1 H2. split; [now apply body_ok_wf|now apply wf_not_too_deep]. Qed.

Theorem commit_after_tail_wf l rs t txs (newtx : tx) t2 :
  valid_log l rs -> next_frame t = NStop -> replay rs None [] [] = Some txs ->
  forallb (fun r => negb (is_marker r)) (snd newtx) = true ->
  Forall (fun r => wf_rec r = true /\ len (encode_body r) <= wal_max_record_len) (commit_records newtx) ->
  next_frame t2 = NStop ->
  exists l1 l2,
    open_log (l ++ t) = inl (l1, txs) /\
    append_all l1 (commit_records newtx) = Some l2 /\
    valid_log l2 (rs ++ commit_records newtx) /\
    open_log (l2 ++ t2) = inl (l2, txs ++ [newtx]).
Proof.
  intros Hv Ht Hr Hops Hnew Ht2. apply (commit_after_tail l rs t txs newtx t2 Hv Ht Hr Hops); [|exact Ht2].
  clear -Hnew. induction Hnew as [|r rs' [H1 H2] _ IH]; constructor; [now apply rec_ok_wf|exact IH].
Qed.

(* a log written record by record is a valid log *)
Theorem written_log_valid rs :
  Forall (fun r => wf_rec r = true /\ len (encode_body r) <= wal_max_record_len) rs ->
  valid_log (log_of (map encode_body rs)) rs.
Proof.
  intros H. exists (map encode_body rs). split; [reflexivity|].
  induction H as [|r rs' [H1 H2] _ IH]; constructor; [now apply body_ok_wf|exact IH].
Qed.


(* any number of rounds: (whatever got behind the log, the transaction committed after opening it) *)
Fixpoint run_rounds (file : bytes) (rounds : list (bytes * tx)) : option bytes :=
  match rounds with
  | [] => Some file
  | (t, newtx) :: more =>
      match open_log (file ++ t) with
      | inl (f1, _) =>
          match append_all f1 (commit_records newtx) with
          | Some f2 => run_rounds f2 more
          | None => None
          end
      | inr _ => None
      end
  end.

Definition round_ok (r : bytes * tx) : Prop :=
  next_frame (fst r) = NStop /\
  forallb (fun x => negb (is_marker x)) (snd (snd r)) = true /\
  Forall (fun x => wf_rec x = true /\ len (encode_body x) <= wal_max_record_len) (commit_records (snd r)).

Theorem rounds_tolerated rounds : forall l recs txs,
  valid_log l recs -> replay recs None [] [] = Some txs -> Forall round_ok rounds ->
  exists l' recs',
    run_rounds l rounds = Some l' /\
    valid_log l' recs' /\
    replay recs' None [] [] = Some (txs ++ map snd rounds) /\
    forall t, next_frame t = NStop -> open_log (l' ++ t) = inl (l', txs ++ map snd rounds).
Proof.
  induction rounds as [|[t newtx] more IH]; intros l recs txs Hv Hr Hok.
  - exists l, recs. cbn [run_rounds map]. rewrite app_nil_r. repeat split; try assumption.
    intros t Ht. now destruct (tail_tolerated l recs t txs Hv Ht Hr) as (Ho & _).
  - inversion Hok as [|? ? (Ht & Hops & Hwf) Hmore]; subst. cbn [fst snd] in *.
    destruct (commit_after_tail_wf l recs t txs newtx [] Hv Ht Hr Hops Hwf (short_stops [] eq_refl))
      as (l1 & l2 & Ho & Ha & Hv2 & _).
    pose proof (replay_commit recs txs newtx Hr Hops) as Hr2.
    destruct (IH l2 (recs ++ commit_records newtx) (txs ++ [newtx]) Hv2 Hr2 Hmore) as (l' & recs' & Hrun & Hv' & Hr' & Hopen).
    exists l', recs'. cbn [run_rounds map]. rewrite Ho, Ha, <- app_assoc in *. cbn [app] in *.
    repeat split; assumption.
Qed.
