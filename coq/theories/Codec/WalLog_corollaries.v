(* Codec/WalLog_corollaries.v — commit_after_tail with the record-level round trip
   (WalRecord_proofs.wal_roundtrip) discharging the hypothesis on the appended records. *)
From Coq Require Import Lia ZifyBool ZifyN ZifyNat.
From NDB Require Import Base.Bytes Base.Bytes_proofs Codec.Crc32 Codec.PropValue Codec.PropValue_proofs
  Codec.WalRecord Codec.WalLog Codec.WalLog_proofs Codec.WalRecord_proofs.
Open Scope N_scope.

Lemma encode_body_nonempty r : 1 <= len (encode_body r).
Proof. destruct r; cbn [encode_body]; rewrite len_cons; lia. Qed.

Lemma body_ok_wf r : wf_rec r = true -> len (encode_body r) <= wal_max_record_len -> body_ok (encode_body r) r.
Proof.
  intros Hwf Hl. split; [split; [apply encode_body_nonempty|exact Hl]|now apply wal_roundtrip].
Qed.

Theorem commit_after_tail_wf l rs t txs (newtx : tx) t2 :
  valid_log l rs -> next_frame t = NStop -> replay rs None [] [] = Some txs ->
  forallb (fun r => negb (is_marker r)) (snd newtx) = true ->
  Forall (fun r => wf_rec r = true /\ len (encode_body r) <= wal_max_record_len) (commit_records newtx) ->
  next_frame t2 = NStop ->
  exists l1 l2,
    open_log (l ++ t) = inl (l1, txs) /\
    append_all l1 (commit_records newtx) = Some l2 /\
    valid_log l2 (rs ++ commit_records newtx) /\
    open_log (l2 ++ t2) = inl (l2, txs ++ [newtx]).
Proof.
  intros Hv Ht Hr Hops Hnew Ht2. apply (commit_after_tail l rs t txs newtx t2 Hv Ht Hr Hops); [|exact Ht2].
  clear -Hnew. induction Hnew as [|r rs' [H1 H2] _ IH]; constructor; [now apply body_ok_wf|exact IH].
Qed.

(* a log written record by record is a valid log *)
Theorem written_log_valid rs :
  Forall (fun r => wf_rec r = true /\ len (encode_body r) <= wal_max_record_len) rs ->
  valid_log (log_of (map encode_body rs)) rs.
Proof.
  intros H. exists (map encode_body rs). split; [reflexivity|].
  induction H as [|r rs' [H1 H2] _ IH]; constructor; [now apply body_ok_wf|exact IH].
Qed.
