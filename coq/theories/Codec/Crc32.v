(* Codec/Crc32.v — CRC-32 (IEEE 802.3) as computed by the crate `crc32fast`
   used in wal.rs: reflected polynomial 0xEDB88320, initial value and final
   xor 0xFFFFFFFF, bit by bit.  Model file: executable definitions only.
   The harness compares `crc32` with crc32fast on the bodies it generates
   (through the checksum field the implementation writes into the log). *)
From NDB Require Export Base.Bytes Gen.Consts.
Open Scope N_scope.

Definition crc_mask : N := 4294967295.

Definition crc_bit (c : N) : N :=
  if N.testbit c 0 then N.lxor (N.shiftr c 1) crc32_poly_reflected else N.shiftr c 1.

Definition crc_byte (c b : N) : N :=
  let c := N.lxor c b in
  crc_bit (crc_bit (crc_bit (crc_bit (crc_bit (crc_bit (crc_bit (crc_bit c))))))).

(* the result is a u32 *)
Definition crc32 (l : bytes) : N := (N.lxor (fold_left crc_byte l crc_mask) crc_mask) mod 4294967296.
