(* Codec/PropValue.v — model of nervusdb-api/src/lib.rs
   PropertyValue::{encode, decode, decode_recursive}.  Executable definitions
   only (proofs: PropValue_proofs.v).  Tags come from Gen/Consts.v.

   The decoder is written the way the Rust code is written: it indexes into the
   input slice with explicit length checks, and every slice expression
   (`bytes[a..b]`, `&bytes[pos..]`) is a partial operation here — an
   out-of-range slice is the distinct outcome [Panic].  That the outcome never
   occurs is a theorem, not a property of the modelling style.
   usize is 64 bits (all sums below stay under 2^64 because every length field
   is a u32 and positions are bounded by the slice length). *)
From NDB Require Export Base.Bytes Gen.Consts Codec.Utf8.
Open Scope N_scope.

(* floats are IEEE-754 binary64 bit patterns; strings and map keys are byte
   strings that must be valid UTF-8; maps are association lists in strictly
   increasing byte-wise key order (= BTreeMap<String, _> iteration order) *)
Inductive pv :=
| PNull
| PBool (b : bool)
| PInt (z : Z)
| PFloat (bits : N)
| PStr (s : bytes)
| PDateTime (z : Z)
| PBlob (s : bytes)
| PList (l : list pv)
| PMap (m : list (bytes * pv)).

Definition len {A} (l : list A) : N := N.of_nat (length l).

Fixpoint encode (v : pv) : bytes :=
  match v with
  | PNull => [pv_tag_null]
  | PBool b => [pv_tag_bool; if b then 1 else 0]
  | PInt z => pv_tag_int :: le 8 (u64_of_i64 z)
  | PFloat bits => pv_tag_float :: le 8 bits
  | PStr s => pv_tag_string :: le 4 (len s) ++ s
  | PDateTime z => pv_tag_datetime :: le 8 (u64_of_i64 z)
  | PBlob s => pv_tag_blob :: le 4 (len s) ++ s
  | PList l => pv_tag_list :: le 4 (len l) ++ flat_map encode l
  | PMap m => pv_tag_map :: le 4 (len m) ++
              flat_map (fun kv => match kv with (k, x) => le 4 (len k) ++ k ++ encode x end) m
  end.

(* ---- decoding ---- *)

Inductive derr := EEmpty | EInvalidLength | EInvalidUtf8 | EUnknownType (t : N) | ETooDeep.

Inductive res (A : Type) :=
| Ok (a : A)
| Err (e : derr)
| Panic          (* slice index out of range / arithmetic overflow in the Rust code *)
| NoFuel.        (* artefact of the fuelled recursion; excluded by theorem *)
Arguments Ok {A} a.
Arguments Err {A} e.
Arguments Panic {A}.
Arguments NoFuel {A}.

(* `&b[off .. off+n]` *)
Definition sub (b : bytes) (off n : N) : option bytes :=
  if off + n <=? len b then Some (firstn (N.to_nat n) (skipn (N.to_nat off) b)) else None.
(* `&b[off ..]` *)
Definition from (b : bytes) (off : N) : option bytes :=
  if off <=? len b then Some (skipn (N.to_nat off) b) else None.

(* BTreeMap<String, PropertyValue>::insert: ordered by the keys' bytes, an
   existing key keeps its place and gets the new value *)
Fixpoint map_insert (k : bytes) (v : pv) (m : list (bytes * pv)) : list (bytes * pv) :=
  match m with
  | [] => [(k, v)]
  | (k', v') :: t =>
      match lex_cmp k k' with
      | Lt => (k, v) :: m
      | Eq => (k', v) :: t
      | Gt => (k', v') :: map_insert k v t
      end
  end.

(* `for _ in 0..count { let (item, consumed) = decode_recursive(&bytes[pos..])?; items.push(item); pos += consumed; }` *)
Fixpoint list_loop (rec : bytes -> res (pv * N)) (k : nat) (count : N) (b : bytes) (pos : N)
         (acc : list pv) : res (pv * N) :=
  if count =? 0 then Ok (PList (rev acc), pos) else
  match k with
  | O => NoFuel
  | S k' =>
    match from b pos with
    | None => Panic
    | Some rest =>
      match rec rest with
      | Ok (item, consumed) => list_loop rec k' (count - 1) b (pos + consumed) (item :: acc)
      | Err e => Err e
      | Panic => Panic
      | NoFuel => NoFuel
      end
    end
  end.

Fixpoint map_loop (rec : bytes -> res (pv * N)) (k : nat) (count : N) (b : bytes) (pos : N)
         (m : list (bytes * pv)) : res (pv * N) :=
  if count =? 0 then Ok (PMap m, pos) else
  match k with
  | O => NoFuel
  | S k' =>
    if len b <? pos + 4 then Err EInvalidLength else
    match sub b pos 4 with
    | None => Panic
    | Some kl =>
      let k_len := unle kl in
      let pos1 := pos + 4 in
      if len b <? pos1 + k_len then Err EInvalidLength else
      match sub b pos1 k_len with
      | None => Panic
      | Some key =>
        if negb (utf8_valid key) then Err EInvalidUtf8 else
        let pos2 := pos1 + k_len in
        match from b pos2 with
        | None => Panic
        | Some rest =>
          match rec rest with
          | Ok (v, consumed) => map_loop rec k' (count - 1) b (pos2 + consumed) (map_insert key v m)
          | Err e => Err e
          | Panic => Panic
          | NoFuel => NoFuel
          end
        end
      end
    end
  end.

Definition dec_i64 (b : bytes) (mk : Z -> pv) : res (pv * N) :=
  if len b <? 9 then Err EInvalidLength else
  match sub b 1 8 with
  | Some s => Ok (mk (i64_of_u64 (unle s)), 9)
  | None => Panic
  end.

Definition dec_lenpref (b : bytes) (k : bytes -> N -> res (pv * N)) : res (pv * N) :=
  if len b <? 5 then Err EInvalidLength else
  match sub b 1 4 with
  | None => Panic
  | Some l4 =>
    let n := unle l4 in
    if len b <? 5 + n then Err EInvalidLength else
    match sub b 5 n with
    | None => Panic
    | Some s => k s (5 + n)
    end
  end.

(* `depth >= MAX_PROPERTY_NESTING` (only when the code has the limit: Gen/Consts.v) *)
Definition too_deep (d : N) : bool := (pv_nesting_limited =? 1) && (pv_max_nesting <=? d).

(* decode_recursive(bytes, depth); `fuel` bounds the recursion and the loop lengths;
   `d` = number of lists/maps the value sits in *)
Fixpoint dec (fuel : nat) (d : N) (b : bytes) : res (pv * N) :=
  match fuel with
  | O => NoFuel
  | S f =>
    match b with
    | [] => Err EEmpty
    | ty :: _ =>
      if ty =? pv_tag_null then Ok (PNull, 1)
      else if ty =? pv_tag_bool then
        if len b <? 2 then Err EInvalidLength else
        match nth_error b 1 with
        | Some x => Ok (PBool (negb (x =? 0)), 2)
        | None => Panic
        end
      else if ty =? pv_tag_int then dec_i64 b PInt
      else if ty =? pv_tag_float then
        if len b <? 9 then Err EInvalidLength else
        match sub b 1 8 with
        | Some s => Ok (PFloat (unle s), 9)
        | None => Panic
        end
      else if ty =? pv_tag_string then
        dec_lenpref b (fun s c => if utf8_valid s then Ok (PStr s, c) else Err EInvalidUtf8)
      else if ty =? pv_tag_datetime then dec_i64 b PDateTime
      else if ty =? pv_tag_blob then
        dec_lenpref b (fun s c => Ok (PBlob s, c))
      else if ty =? pv_tag_list then
        if len b <? 5 then Err EInvalidLength else
        if too_deep d then Err ETooDeep else
        match sub b 1 4 with
        | None => Panic
        | Some l4 => list_loop (dec f (d + 1)) fuel (unle l4) b 5 []
        end
      else if ty =? pv_tag_map then
        if len b <? 5 then Err EInvalidLength else
        if too_deep d then Err ETooDeep else
        match sub b 1 4 with
        | None => Panic
        | Some l4 => map_loop (dec f (d + 1)) fuel (unle l4) b 5 []
        end
      else Err (EUnknownType ty)
    end
  end.

(* enough fuel for every input (theorem dec_fuel_enough) *)
Definition dec_top (b : bytes) : res (pv * N) := dec (S (length b)) 0 b.

(* the public PropertyValue::decode: trailing bytes are ignored *)
Definition decode (b : bytes) : res pv :=
  match dec_top b with
  | Ok (v, _) => Ok v
  | Err e => Err e
  | Panic => Panic
  | NoFuel => NoFuel
  end.

(* ---- resources the decoder asks for ---- *)

(* elements reserved by the list arm before anything is decoded; which form
   the code has is read from the source (pv_list_prealloc) *)
Definition list_request (count remaining : N) : N :=
  if pv_list_prealloc =? 0 then count
  else if pv_list_prealloc =? 1 then N.min count remaining
  else 0.

(* (container elements: reserved up front + pushed into a Vec + inserted into a
   BTreeMap, summed over the whole call; recursion depth).  Control flow is
   taken from `rec` (= dec), so this is the same traversal. *)
Fixpoint list_cost (rec : bytes -> res (pv * N)) (cost : bytes -> N * N) (k : nat) (count : N)
         (b : bytes) (pos : N) (acc : N * N) : N * N :=
  if count =? 0 then acc else
  match k with
  | O => acc
  | S k' =>
    match from b pos with
    | None => acc
    | Some rest =>
      let c := cost rest in
      let a := fst acc + fst c in
      let d := N.max (snd acc) (snd c) in
      match rec rest with
      | Ok (_, consumed) => list_cost rec cost k' (count - 1) b (pos + consumed) (a + 1, d)
      | _ => (a, d)
      end
    end
  end.

Fixpoint map_cost (rec : bytes -> res (pv * N)) (cost : bytes -> N * N) (k : nat) (count : N)
         (b : bytes) (pos : N) (acc : N * N) : N * N :=
  if count =? 0 then acc else
  match k with
  | O => acc
  | S k' =>
    if len b <? pos + 4 then acc else
    match sub b pos 4 with
    | None => acc
    | Some kl =>
      let pos1 := pos + 4 in
      if len b <? pos1 + unle kl then acc else
      match sub b pos1 (unle kl) with
      | None => acc
      | Some key =>
        if negb (utf8_valid key) then acc else
        let pos2 := pos1 + unle kl in
        match from b pos2 with
        | None => acc
        | Some rest =>
          let c := cost rest in
          let a := fst acc + fst c in
          let d := N.max (snd acc) (snd c) in
          match rec rest with
          | Ok (_, consumed) => map_cost rec cost k' (count - 1) b (pos2 + consumed) (a + 1, d)
          | _ => (a, d)
          end
        end
      end
    end
  end.

Fixpoint cost (fuel : nat) (d : N) (b : bytes) : N * N :=
  match fuel with
  | O => (0, 0)
  | S f =>
    match b with
    | [] => (0, 1)
    | ty :: _ =>
      if ty =? pv_tag_list then
        if len b <? 5 then (0, 1) else
        if too_deep d then (0, 1) else
        match sub b 1 4 with
        | None => (0, 1)
        | Some l4 =>
          let r := list_cost (dec f (d + 1)) (cost f (d + 1)) fuel (unle l4) b 5 (0, 0) in
          (list_request (unle l4) (len b - 5) + fst r, 1 + snd r)
        end
      else if ty =? pv_tag_map then
        if len b <? 5 then (0, 1) else
        if too_deep d then (0, 1) else
        match sub b 1 4 with
        | None => (0, 1)
        | Some l4 =>
          let r := map_cost (dec f (d + 1)) (cost f (d + 1)) fuel (unle l4) b 5 (0, 0) in
          (fst r, 1 + snd r)
        end
      else (0, 1)
    end
  end.

Definition alloc_request (b : bytes) : N := fst (cost (S (length b)) 0 b).
Definition depth (b : bytes) : N := snd (cost (S (length b)) 0 b).

(* ---- well-formed values (what the encoder accepts without panicking and
        what Rust's types can hold) ---- *)

Definition two32' : N := 4294967296.

Fixpoint strictly_sorted (ks : list bytes) : bool :=
  match ks with
  | [] => true
  | k :: t =>
      match t with
      | [] => true
      | k' :: _ => match lex_cmp k k' with Lt => true | _ => false end
      end && strictly_sorted t
  end.

Fixpoint wf (v : pv) : bool :=
  match v with
  | PNull | PBool _ => true
  | PInt z | PDateTime z => in_i64 z
  | PFloat bits => bits <? two64
  | PStr s => (len s <? two32') && utf8_valid s
  | PBlob s => len s <? two32'
  | PList l => (len l <? two32') && forallb wf l
  | PMap m =>
      (len m <? two32') && strictly_sorted (map fst m) &&
      forallb (fun kv => match kv with (k, x) => (len k <? two32') && utf8_valid k && wf x end) m
  end.

(* number of nested lists/maps (a scalar: 0, [1]: 1, [[1]]: 2) — PropertyValue::exceeds_nesting *)
Fixpoint cdepth (v : pv) : N :=
  match v with
  | PList l => 1 + fold_right (fun x acc => N.max (cdepth x) acc) 0 l
  | PMap m => 1 + fold_right (fun kv acc => match kv with (_, x) => N.max (cdepth x) acc end) 0 m
  | _ => 0
  end.
(* values the engine accepts: well-formed and, when the code has the limit, nested at most
   MAX_PROPERTY_NESTING deep *)
Definition nesting_ok (v : pv) : bool := negb (pv_nesting_limited =? 1) || (cdepth v <=? pv_max_nesting).
Definition wfd (v : pv) : bool := wf v && nesting_ok v.

(* structural equality with floats compared as bit patterns (for Corr) *)
Fixpoint pv_eqb (a b : pv) : bool :=
  match a, b with
  | PNull, PNull => true
  | PBool x, PBool y => Bool.eqb x y
  | PInt x, PInt y => (x =? y)%Z
  | PFloat x, PFloat y => x =? y
  | PStr x, PStr y => bytes_eqb x y
  | PDateTime x, PDateTime y => (x =? y)%Z
  | PBlob x, PBlob y => bytes_eqb x y
  | PList x, PList y =>
      (fix go (x y : list pv) : bool :=
         match x, y with
         | [], [] => true
         | a :: x', b :: y' => pv_eqb a b && go x' y'
         | _, _ => false
         end) x y
  | PMap x, PMap y =>
      (fix go (x y : list (bytes * pv)) : bool :=
         match x, y with
         | [], [] => true
         | (ka, a) :: x', (kb, b) :: y' => bytes_eqb ka kb && pv_eqb a b && go x' y'
         | _, _ => false
         end) x y
  | _, _ => false
  end.
