(* Codec/WalRecord.v — model of nervusdb-storage/src/wal.rs
   WalRecord::{record_type, encode_body, decode_body} for every record kind.
   Executable definitions only.  Record types, PAGE_SIZE and the length check
   of the ManifestSwitch arm come from Gen/Consts.v.  Integers are N with the
   width given by the encoder (u32: le 4, u64: le 8); every `payload[a..b]` is
   the partial [sub] — out of range = [WPanic]. *)
From NDB Require Export Base.Bytes Gen.Consts Codec.Utf8 Codec.PropValue.
Open Scope N_scope.

Inductive wrec :=
| WBegin (txid : N)
| WCommit (txid : N)
| WPageWrite (page_id : N) (page : bytes)
| WPageFree (page_id : N)
| WCreateLabel (name : bytes) (label_id : N)
| WCreateNode (external_id label_id internal_id : N)
| WAddNodeLabel (node label_id : N)
| WRemoveNodeLabel (node label_id : N)
| WCreateEdge (src rel dst : N)
| WTombstoneNode (node : N)
| WTombstoneEdge (src rel dst : N)
| WManifestSwitch (epoch : N) (segments : list (N * N)) (properties_root stats_root : N)
| WCheckpoint (up_to_txid epoch properties_root stats_root : N)
| WSetNodeProp (node : N) (key : bytes) (value : pv)
| WSetEdgeProp (src rel dst : N) (key : bytes) (value : pv)
| WRemoveNodeProp (node : N) (key : bytes)
| WRemoveEdgeProp (src rel dst : N) (key : bytes).

Definition u32 := le 4.
Definition u64 := le 8.

Definition enc_seg (s : N * N) : bytes := match s with (id, meta) => u64 id ++ u64 meta end.

Definition encode_body (r : wrec) : bytes :=
  match r with
  | WBegin t => wal_ty_begin_tx :: u64 t
  | WCommit t => wal_ty_commit_tx :: u64 t
  | WPageWrite p page => wal_ty_page_write :: u64 p ++ page
  | WPageFree p => wal_ty_page_free :: u64 p
  | WCreateLabel name l => wal_ty_create_label :: u32 l ++ u32 (len name) ++ name
  | WCreateNode e l i => wal_ty_create_node :: u64 e ++ u32 l ++ u32 i
  | WAddNodeLabel n l => wal_ty_add_node_label :: u32 n ++ u32 l
  | WRemoveNodeLabel n l => wal_ty_remove_node_label :: u32 n ++ u32 l
  | WCreateEdge s r d => wal_ty_create_edge :: u32 s ++ u32 r ++ u32 d
  | WTombstoneNode n => wal_ty_tombstone_node :: u32 n
  | WTombstoneEdge s r d => wal_ty_tombstone_edge :: u32 s ++ u32 r ++ u32 d
  | WManifestSwitch e segs pr sr =>
      wal_ty_manifest_switch :: u64 e ++ u32 (len segs) ++ flat_map enc_seg segs ++ u64 pr ++ u64 sr
  | WCheckpoint u e pr sr => wal_ty_checkpoint :: u64 u ++ u64 e ++ u64 pr ++ u64 sr
  | WSetNodeProp n k v => wal_ty_set_node_property :: u32 n ++ u32 (len k) ++ k ++ encode v
  | WSetEdgeProp s r d k v => wal_ty_set_edge_property :: u32 s ++ u32 r ++ u32 d ++ u32 (len k) ++ k ++ encode v
  | WRemoveNodeProp n k => wal_ty_remove_node_property :: u32 n ++ u32 (len k) ++ k
  | WRemoveEdgeProp s r d k => wal_ty_remove_edge_property :: u32 s ++ u32 r ++ u32 d ++ u32 (len k) ++ k
  end.

Inductive wres (A : Type) :=
| WOk (a : A)
| WErr            (* Err(Error::WalProtocol(..)) *)
| WPanic.         (* slice out of range in the Rust code *)
Arguments WOk {A} a.
Arguments WErr {A}.
Arguments WPanic {A}.

(* `uNN::from_le_bytes(p[off..off+n])`, then continue *)
Definition rd {A} (p : bytes) (off n : N) (k : N -> wres A) : wres A :=
  match sub p off n with Some s => k (unle s) | None => WPanic end.
Definition rdb {A} (p : bytes) (off n : N) (k : bytes -> wres A) : wres A :=
  match sub p off n with Some s => k s | None => WPanic end.

Definition read_u64 (p : bytes) (mk : N -> wrec) : wres wrec :=
  if negb (len p =? 8) then WErr else rd p 0 8 (fun x => WOk (mk x)).

(* `for _ in 0..count { id = p[off..off+8]; meta = p[off+8..off+16]; off += 16 }` *)
Fixpoint read_segs (k : nat) (count : N) (p : bytes) (off : N) (acc : list (N * N)) : wres (list (N * N) * N) :=
  if count =? 0 then WOk (rev acc, off) else
  match k with
  | O => WErr   (* unreachable: k >= count is ensured by the caller's length check *)
  | S k' =>
      rd p off 8 (fun id => rd p (off + 8) 8 (fun meta =>
        read_segs k' (count - 1) p (off + 16) ((id, meta) :: acc)))
  end.

Definition dec_key_value (p : bytes) (hdr : N) (mk : bytes -> pv -> wrec) : wres wrec :=
  (* [.. hdr bytes ..][key_len: u32][key][value]; hdr already checked: len p >= hdr + 4 *)
  rd p hdr 4 (fun key_len =>
    if len p <? hdr + 4 + key_len then WErr else
    rdb p (hdr + 4) key_len (fun key =>
      if negb (utf8_valid key) then WErr else
      match from p (hdr + 4 + key_len) with
      | None => WPanic
      | Some vb =>
          match decode vb with
          | Ok v => WOk (mk key v)
          | Err _ => WErr
          | Panic => WPanic
          | NoFuel => WPanic
          end
      end)).

Definition dec_key_only (p : bytes) (hdr : N) (mk : bytes -> wrec) : wres wrec :=
  rd p hdr 4 (fun key_len =>
    if negb (len p =? hdr + 4 + key_len) then WErr else
    rdb p (hdr + 4) key_len (fun key =>
      if negb (utf8_valid key) then WErr else WOk (mk key))).

Definition decode_body (body : bytes) : wres wrec :=
  match body with
  | [] => WErr                                  (* "empty record body" *)
  | ty :: p =>
    if ty =? wal_ty_begin_tx then read_u64 p WBegin
    else if ty =? wal_ty_commit_tx then read_u64 p WCommit
    else if ty =? wal_ty_page_write then
      if negb (len p =? 8 + storage_page_size) then WErr else
      rd p 0 8 (fun pid => match from p 8 with Some page => WOk (WPageWrite pid page) | None => WPanic end)
    else if ty =? wal_ty_page_free then read_u64 p WPageFree
    else if ty =? wal_ty_create_label then
      if len p <? 8 then WErr else
      rd p 0 4 (fun label_id => rd p 4 4 (fun name_len =>
        if len p <? 8 + name_len then WErr else
        rdb p 8 name_len (fun name =>
          if negb (utf8_valid name) then WErr else WOk (WCreateLabel name label_id))))
    else if ty =? wal_ty_create_node then
      if negb (len p =? 16) then WErr else
      rd p 0 8 (fun e => rd p 8 4 (fun l => rd p 12 4 (fun i => WOk (WCreateNode e l i))))
    else if ty =? wal_ty_add_node_label then
      if negb (len p =? 8) then WErr else
      rd p 0 4 (fun n => rd p 4 4 (fun l => WOk (WAddNodeLabel n l)))
    else if ty =? wal_ty_remove_node_label then
      if negb (len p =? 8) then WErr else
      rd p 0 4 (fun n => rd p 4 4 (fun l => WOk (WRemoveNodeLabel n l)))
    else if ty =? wal_ty_create_edge then
      if negb (len p =? 12) then WErr else
      rd p 0 4 (fun s => rd p 4 4 (fun r => rd p 8 4 (fun d => WOk (WCreateEdge s r d))))
    else if ty =? wal_ty_tombstone_node then
      if negb (len p =? 4) then WErr else
      rd p 0 4 (fun n => WOk (WTombstoneNode n))
    else if ty =? wal_ty_tombstone_edge then
      if negb (len p =? 12) then WErr else
      rd p 0 4 (fun s => rd p 4 4 (fun r => rd p 8 4 (fun d => WOk (WTombstoneEdge s r d))))
    else if ty =? wal_ty_manifest_switch then
      if len p <? 28 then WErr else
      rd p 0 8 (fun epoch => rd p 8 4 (fun count =>
        let segments_end := 12 + count * 16 in
        if len p <? segments_end + wal_manifest_tail_check then WErr else
        match read_segs (S (length p)) count p 12 [] with
        | WOk (segs, off) =>
            rd p off 8 (fun pr => rd p (off + 8) 8 (fun sr => WOk (WManifestSwitch epoch segs pr sr)))
        | WErr => WErr
        | WPanic => WPanic
        end))
    else if ty =? wal_ty_checkpoint then
      if negb (len p =? 32) then WErr else
      rd p 0 8 (fun u => rd p 8 8 (fun e => rd p 16 8 (fun pr => rd p 24 8 (fun sr => WOk (WCheckpoint u e pr sr)))))
    else if ty =? wal_ty_set_node_property then
      if len p <? 8 then WErr else
      rd p 0 4 (fun n => dec_key_value p 4 (fun k v => WSetNodeProp n k v))
    else if ty =? wal_ty_set_edge_property then
      if len p <? 16 then WErr else
      rd p 0 4 (fun s => rd p 4 4 (fun r => rd p 8 4 (fun d => dec_key_value p 12 (fun k v => WSetEdgeProp s r d k v))))
    else if ty =? wal_ty_remove_node_property then
      if len p <? 8 then WErr else
      rd p 0 4 (fun n => dec_key_only p 4 (fun k => WRemoveNodeProp n k))
    else if ty =? wal_ty_remove_edge_property then
      if len p <? 16 then WErr else
      rd p 0 4 (fun s => rd p 4 4 (fun r => rd p 8 4 (fun d => dec_key_only p 12 (fun k => WRemoveEdgeProp s r d k))))
    else WErr                                     (* "unknown record type" *)
  end.

(* well-formed records: field widths, valid UTF-8 names/keys, well-formed value,
   a page is PAGE_SIZE bytes *)
Definition u32ok (x : N) : bool := x <? 4294967296.
Definition u64ok (x : N) : bool := x <? two64.
Definition keyok (k : bytes) : bool := (len k <? 4294967296) && utf8_valid k.

Definition wf_rec (r : wrec) : bool :=
  match r with
  | WBegin t | WCommit t => u64ok t
  | WPageWrite p page => u64ok p && (len page =? storage_page_size)
  | WPageFree p => u64ok p
  | WCreateLabel name l => keyok name && u32ok l
  | WCreateNode e l i => u64ok e && u32ok l && u32ok i
  | WAddNodeLabel n l | WRemoveNodeLabel n l => u32ok n && u32ok l
  | WCreateEdge s r d | WTombstoneEdge s r d => u32ok s && u32ok r && u32ok d
  | WTombstoneNode n => u32ok n
  | WManifestSwitch e segs pr sr =>
      u64ok e && (len segs <? 4294967296) && forallb (fun s => u64ok (fst s) && u64ok (snd s)) segs && u64ok pr && u64ok sr
  | WCheckpoint u e pr sr => u64ok u && u64ok e && u64ok pr && u64ok sr
  | WSetNodeProp n k v => u32ok n && keyok k && wfd v
  | WSetEdgeProp s r d k v => u32ok s && u32ok r && u32ok d && keyok k && wfd v
  | WRemoveNodeProp n k => u32ok n && keyok k
  | WRemoveEdgeProp s r d k => u32ok s && u32ok r && u32ok d && keyok k
  end.

(* encode_body refuses (Err) a property record whose value the decoder would refuse *)
Definition rec_too_deep (r : wrec) : bool :=
  (wal_encode_checks_nesting =? 1) &&
  match r with
  | WSetNodeProp _ _ v | WSetEdgeProp _ _ _ _ v => pv_max_nesting <? cdepth v
  | _ => false
  end.

Definition seg_eqb (a b : N * N) : bool := (fst a =? fst b) && (snd a =? snd b).
Fixpoint segs_eqb (a b : list (N * N)) : bool :=
  match a, b with
  | [], [] => true
  | x :: a', y :: b' => seg_eqb x y && segs_eqb a' b'
  | _, _ => false
  end.

Definition wrec_eqb (a b : wrec) : bool :=
  match a, b with
  | WBegin x, WBegin y | WCommit x, WCommit y | WPageFree x, WPageFree y | WTombstoneNode x, WTombstoneNode y => x =? y
  | WPageWrite p x, WPageWrite q y => (p =? q) && bytes_eqb x y
  | WCreateLabel n l, WCreateLabel n' l' => bytes_eqb n n' && (l =? l')
  | WCreateNode a1 a2 a3, WCreateNode b1 b2 b3 => (a1 =? b1) && (a2 =? b2) && (a3 =? b3)
  | WAddNodeLabel a1 a2, WAddNodeLabel b1 b2 | WRemoveNodeLabel a1 a2, WRemoveNodeLabel b1 b2 => (a1 =? b1) && (a2 =? b2)
  | WCreateEdge a1 a2 a3, WCreateEdge b1 b2 b3 | WTombstoneEdge a1 a2 a3, WTombstoneEdge b1 b2 b3 => (a1 =? b1) && (a2 =? b2) && (a3 =? b3)
  | WManifestSwitch e s p q, WManifestSwitch e' s' p' q' => (e =? e') && segs_eqb s s' && (p =? p') && (q =? q')
  | WCheckpoint a1 a2 a3 a4, WCheckpoint b1 b2 b3 b4 => (a1 =? b1) && (a2 =? b2) && (a3 =? b3) && (a4 =? b4)
  | WSetNodeProp n k v, WSetNodeProp n' k' v' => (n =? n') && bytes_eqb k k' && pv_eqb v v'
  | WSetEdgeProp s r d k v, WSetEdgeProp s' r' d' k' v' => (s =? s') && (r =? r') && (d =? d') && bytes_eqb k k' && pv_eqb v v'
  | WRemoveNodeProp n k, WRemoveNodeProp n' k' => (n =? n') && bytes_eqb k k'
  | WRemoveEdgeProp s r d k, WRemoveEdgeProp s' r' d' k' => (s =? s') && (r =? r') && (d =? d') && bytes_eqb k k'
  | _, _ => false
  end.
