(* Codec/PropValue_proofs.v — proofs about the PropertyValue codec model:
   decoding never panics / never runs out of fuel / consumes within the input
   (dec_top_good), and decode (encode v ++ rest) = v for every well-formed v
   (roundtrip). *)
From Coq Require Import Lia ZifyBool ZifyN ZifyNat.
From NDB Require Import Base.Bytes Base.Bytes_proofs Codec.Utf8 Codec.PropValue.
Open Scope N_scope.

(* ---- p1 ---- *)

Lemma len_nil {A} : len (@nil A) = 0. Proof. reflexivity. Qed.
Lemma len_cons {A} (x : A) l : len (x :: l) = 1 + len l.
Proof. unfold len. cbn [length]. lia. Qed.
Lemma len_app {A} (a b : list A) : len (a ++ b) = len a + len b.
Proof. unfold len. rewrite app_length. lia. Qed.
Lemma len_le n x : len (le n x) = N.of_nat n.
Proof. unfold len. now rewrite le_length. Qed.
Lemma len_firstn {A} n (l : list A) : len (firstn n l) = N.min (N.of_nat n) (len l).
Proof. unfold len. rewrite firstn_length. lia. Qed.
Lemma len_skipn {A} n (l : list A) : len (skipn n l) = len l - N.of_nat n.
Proof. unfold len. rewrite skipn_length. lia. Qed.

Lemma skipn_app_exact {A} (p r : list A) n : n = length p -> skipn n (p ++ r) = r.
Proof. intros ->. rewrite skipn_app, skipn_all, Nat.sub_diag. reflexivity. Qed.
Lemma firstn_app_exact {A} (p r : list A) n : n = length p -> firstn n (p ++ r) = p.
Proof. intros ->. rewrite firstn_app, firstn_all, Nat.sub_diag. cbn. now rewrite app_nil_r. Qed.

Lemma from_app p r off : off = len p -> from (p ++ r) off = Some r.
Proof.
  intros ->. unfold from. rewrite len_app.
  destruct (len p <=? len p + len r) eqn:E; [|lia].
  f_equal. apply skipn_app_exact. unfold len. lia.
Qed.
Lemma sub_app p s r off n : off = len p -> n = len s -> sub (p ++ s ++ r) off n = Some s.
Proof.
  intros -> ->. unfold sub. rewrite !len_app.
  destruct (len p + len s <=? len p + (len s + len r)) eqn:E; [|lia].
  f_equal. rewrite skipn_app_exact by (unfold len; lia).
  apply firstn_app_exact. unfold len. lia.
Qed.
Lemma from_some b off r : from b off = Some r -> off <= len b /\ r = skipn (N.to_nat off) b /\ len r = len b - off.
Proof.
  unfold from. destruct (off <=? len b) eqn:E; [|discriminate]. intros [= <-].
  rewrite len_skipn. repeat split; lia.
Qed.
Lemma from_total b off : off <= len b -> exists r, from b off = Some r.
Proof. intros. unfold from. destruct (off <=? len b) eqn:E; [eauto|lia]. Qed.
Lemma sub_total b off n : off + n <= len b -> exists s, sub b off n = Some s /\ len s = n.
Proof.
  intros. unfold sub. destruct (off + n <=? len b) eqn:E; [|lia].
  eexists; split; [reflexivity|]. rewrite len_firstn, len_skipn. lia.
Qed.

Lemma unle_le4 n : n < 4294967296 -> unle (le 4 n) = n.
Proof. intros. rewrite unle_le. change (256 ^ N.of_nat 4) with 4294967296. now apply N.mod_small. Qed.
Lemma unle_le8 n : n < two64 -> unle (le 8 n) = n.
Proof. intros. rewrite unle_le. change (256 ^ N.of_nat 8) with two64. now apply N.mod_small. Qed.

(* ---- p2 ---- *)

Definition good (b : bytes) (r : res (pv * N)) : Prop :=
  r <> Panic /\ r <> NoFuel /\ forall v c, r = Ok (v, c) -> 1 <= c <= len b.

Lemma good_err b e : good b (Err e).
Proof. split; [discriminate|]. split; [discriminate|]. intros; discriminate. Qed.
Lemma good_ok b v c : 1 <= c <= len b -> good b (Ok (v, c)).
Proof. intros H. split; [discriminate|]. split; [discriminate|]. intros v0 c0 [= <- <-]. lia. Qed.

Lemma list_loop_good rec b :
  (forall rest, len rest < len b -> good rest (rec rest)) ->
  forall k count pos acc, 1 <= pos <= len b -> len b - pos < N.of_nat k ->
  good b (list_loop rec k count b pos acc).
Proof.
  intros Hrec. induction k as [|k IH]; intros count pos acc Hpos Hk; [lia|].
  cbn [list_loop]. destruct (count =? 0) eqn:Ec; [apply good_ok; lia|].
  destruct (from_total b pos) as [rest Hr]; [lia|]. rewrite Hr.
  apply from_some in Hr as (_ & _ & Hl).
  specialize (Hrec rest ltac:(lia)). destruct Hrec as (Hp & Hf & Hb).
  destruct (rec rest) as [[item c]| | |] eqn:Er; try (apply good_err); try congruence.
  specialize (Hb _ _ eq_refl). apply IH; lia.
Qed.

Lemma map_loop_good rec b :
  (forall rest, len rest < len b -> good rest (rec rest)) ->
  forall k count pos m, 1 <= pos <= len b -> len b - pos < N.of_nat k ->
  good b (map_loop rec k count b pos m).
Proof.
  intros Hrec. induction k as [|k IH]; intros count pos m Hpos Hk; [lia|].
  cbn [map_loop]. destruct (count =? 0) eqn:Ec; [apply good_ok; lia|].
  destruct (len b <? pos + 4) eqn:E1; [apply good_err|].
  destruct (sub_total b pos 4) as (kl & Hkl & _); [lia|]. rewrite Hkl. cbv zeta.
  destruct (len b <? pos + 4 + unle kl) eqn:E2; [apply good_err|].
  destruct (sub_total b (pos + 4) (unle kl)) as (key & Hkey & _); [lia|]. rewrite Hkey.
  destruct (negb (utf8_valid key)); [apply good_err|].
  destruct (from_total b (pos + 4 + unle kl)) as [rest Hr]; [lia|]. rewrite Hr.
  apply from_some in Hr as (_ & _ & Hl).
  specialize (Hrec rest ltac:(lia)). destruct Hrec as (Hp & Hf & Hb).
  destruct (rec rest) as [[item c]| | |] eqn:Er; try (apply good_err); try congruence.
  specialize (Hb _ _ eq_refl). apply IH; lia.
Qed.

Lemma dec_S f d b : dec (S f) d b =
    match b with
    | [] => Err EEmpty
    | ty :: _ =>
      if ty =? pv_tag_null then Ok (PNull, 1)
      else if ty =? pv_tag_bool then
        if len b <? 2 then Err EInvalidLength else
        match nth_error b 1 with
        | Some x => Ok (PBool (negb (x =? 0)), 2)
        | None => Panic
        end
      else if ty =? pv_tag_int then dec_i64 b PInt
      else if ty =? pv_tag_float then
        if len b <? 9 then Err EInvalidLength else
        match sub b 1 8 with
        | Some s => Ok (PFloat (unle s), 9)
        | None => Panic
        end
      else if ty =? pv_tag_string then
        dec_lenpref b (fun s c => if utf8_valid s then Ok (PStr s, c) else Err EInvalidUtf8)
      else if ty =? pv_tag_datetime then dec_i64 b PDateTime
      else if ty =? pv_tag_blob then
        dec_lenpref b (fun s c => Ok (PBlob s, c))
      else if ty =? pv_tag_list then
        if len b <? 5 then Err EInvalidLength else
        if too_deep d then Err ETooDeep else
        match sub b 1 4 with
        | None => Panic
        | Some l4 => list_loop (dec f (d + 1)) (S f) (unle l4) b 5 []
        end
      else if ty =? pv_tag_map then
        if len b <? 5 then Err EInvalidLength else
        if too_deep d then Err ETooDeep else
        match sub b 1 4 with
        | None => Panic
        | Some l4 => map_loop (dec f (d + 1)) (S f) (unle l4) b 5 []
        end
      else Err (EUnknownType ty)
    end.
Proof. reflexivity. Qed.

Lemma dec_i64_good b mk : good b (dec_i64 b mk).
Proof.
  unfold dec_i64. destruct (len b <? 9) eqn:E; [apply good_err|].
  destruct (sub_total b 1 8) as (s & Hs & _); [lia|]. rewrite Hs. apply good_ok; lia.
Qed.
Lemma dec_lenpref_good b k :
  (forall s c, 1 <= c <= len b -> good b (k s c)) -> good b (dec_lenpref b k).
Proof.
  intros Hk. unfold dec_lenpref. destruct (len b <? 5) eqn:E; [apply good_err|].
  destruct (sub_total b 1 4) as (s & Hs & _); [lia|]. rewrite Hs. cbv zeta.
  destruct (len b <? 5 + unle s) eqn:E2; [apply good_err|].
  destruct (sub_total b 5 (unle s)) as (s2 & Hs2 & _); [lia|]. rewrite Hs2. apply Hk; lia.
Qed.

Lemma dec_good fuel : forall d b, (length b < fuel)%nat -> good b (dec fuel d b).
Proof.
  induction fuel as [|f IH]; intros d b Hb; [lia|].
  rewrite dec_S. destruct b as [|ty t] eqn:Eb; [apply good_err|]. rewrite <- Eb in *.
  assert (Hl : 1 <= len b) by (subst b; rewrite len_cons; lia).
  destruct (ty =? pv_tag_null); [apply good_ok; lia|].
  destruct (ty =? pv_tag_bool).
  { destruct (len b <? 2) eqn:E; [apply good_err|].
    destruct (nth_error b 1) eqn:En; [apply good_ok; lia|].
    apply nth_error_None in En. unfold len in *. lia. }
  destruct (ty =? pv_tag_int); [apply dec_i64_good|].
  destruct (ty =? pv_tag_float).
  { destruct (len b <? 9) eqn:E; [apply good_err|].
    destruct (sub_total b 1 8) as (s & Hs & _); [lia|]. rewrite Hs. apply good_ok; lia. }
  destruct (ty =? pv_tag_string).
  { apply dec_lenpref_good. intros s c Hc. destruct (utf8_valid s); [apply good_ok; lia|apply good_err]. }
  destruct (ty =? pv_tag_datetime); [apply dec_i64_good|].
  destruct (ty =? pv_tag_blob).
  { apply dec_lenpref_good. intros s c Hc. apply good_ok; lia. }
  assert (Hrec : forall rest, len rest < len b -> good rest (dec f (d + 1) rest)).
  { intros rest Hr. apply IH. unfold len in *. lia. }
  destruct (ty =? pv_tag_list).
  { destruct (len b <? 5) eqn:E; [apply good_err|]. destruct (too_deep d); [apply good_err|].
    destruct (sub_total b 1 4) as (s & Hs & _); [lia|]. rewrite Hs.
    apply list_loop_good; [exact Hrec|lia|unfold len in *; lia]. }
  destruct (ty =? pv_tag_map).
  { destruct (len b <? 5) eqn:E; [apply good_err|]. destruct (too_deep d); [apply good_err|].
    destruct (sub_total b 1 4) as (s & Hs & _); [lia|]. rewrite Hs.
    apply map_loop_good; [exact Hrec|lia|unfold len in *; lia]. }
  apply good_err.
Qed.

Theorem dec_top_good b : good b (dec_top b).
Proof. apply dec_good. lia. Qed.

(* ---- p3 ---- *)

Lemma pv_ind2 (P : pv -> Prop) :
  P PNull -> (forall b, P (PBool b)) -> (forall z, P (PInt z)) -> (forall x, P (PFloat x)) ->
  (forall s, P (PStr s)) -> (forall z, P (PDateTime z)) -> (forall s, P (PBlob s)) ->
  (forall l, Forall P l -> P (PList l)) ->
  (forall m, Forall (fun kv => P (snd kv)) m -> P (PMap m)) ->
  forall v, P v.
Proof.
  intros H0 H1 H2 H3 H4 H5 H6 H7 H8. fix IH 1. intros [ | b | z | x | s | z | s | l | m ].
  - exact H0.
  - apply H1.
  - apply H2.
  - apply H3.
  - apply H4.
  - apply H5.
  - apply H6.
  - apply H7. induction l as [|x l IHl]; constructor; [apply IH | exact IHl].
  - apply H8. induction m as [|[k x] m IHm]; constructor; [apply IH | exact IHm].
Qed.

Ltac tags := cbv [pv_tag_null pv_tag_bool pv_tag_int pv_tag_float pv_tag_string pv_tag_datetime pv_tag_blob pv_tag_list pv_tag_map]; cbn [N.eqb Pos.eqb].

Lemma len_ge_cons {A} (x : A) l : 1 <= len (x :: l). Proof. rewrite len_cons. lia. Qed.

Lemma dec_i64_rt tag z mk rest : in_i64 z = true ->
  dec_i64 (tag :: le 8 (u64_of_i64 z) ++ rest) mk = Ok (mk z, 9).
Proof.
  intros Hz. unfold dec_i64. rewrite len_cons, len_app, len_le.
  destruct (1 + (N.of_nat 8 + len rest) <? 9) eqn:E; [lia|].
  change (tag :: le 8 (u64_of_i64 z) ++ rest) with ([tag] ++ le 8 (u64_of_i64 z) ++ rest).
  rewrite (sub_app [tag] (le 8 (u64_of_i64 z)) rest 1 8); [|reflexivity|now rewrite len_le].
  rewrite unle_le8 by apply u64_of_i64_lt. now rewrite i64_u64_roundtrip.
Qed.

Lemma dec_lenpref_rt tag s rest k : len s < 4294967296 ->
  dec_lenpref (tag :: le 4 (len s) ++ s ++ rest) k = k s (5 + len s).
Proof.
  intros Hs. unfold dec_lenpref. rewrite len_cons, !len_app, len_le.
  destruct (1 + (N.of_nat 4 + (len s + len rest)) <? 5) eqn:E; [lia|].
  change (tag :: le 4 (len s) ++ s ++ rest) with ([tag] ++ le 4 (len s) ++ s ++ rest).
  rewrite (sub_app [tag] (le 4 (len s)) (s ++ rest) 1 4); [|reflexivity|now rewrite len_le].
  rewrite unle_le4 by exact Hs. cbv zeta.
  destruct (1 + (N.of_nat 4 + (len s + len rest)) <? 5 + len s) eqn:E2; [lia|].
  change ([tag] ++ le 4 (len s) ++ s ++ rest) with ((tag :: le 4 (len s)) ++ s ++ rest).
  rewrite (sub_app (tag :: le 4 (len s)) s rest); [reflexivity| |reflexivity].
  rewrite len_cons, len_le. lia.
Qed.

(* the list loop over the encodings of wf items *)
Lemma list_loop_rt rec (items : list pv) :
  forall pre rest k acc,
  (forall x r, In x items -> rec (encode x ++ r) = Ok (x, len (encode x))) ->
  (length items <= k)%nat ->
  list_loop rec k (len items) (pre ++ flat_map encode items ++ rest) (len pre) acc
  = Ok (PList (rev acc ++ items), len pre + len (flat_map encode items)).
Proof.
  induction items as [|x items IH]; intros pre rest k acc Hrec Hk.
  - cbn [list_loop flat_map app len length N.of_nat N.eqb]. destruct k; cbn; rewrite app_nil_r; f_equal; f_equal; lia.
  - destruct k as [|k]; [cbn in Hk; lia|]. cbn [list_loop].
    rewrite len_cons. destruct (1 + len items =? 0) eqn:E; [lia|].
    rewrite from_app by reflexivity. cbn [flat_map]. rewrite <- app_assoc.
    rewrite Hrec by (left; reflexivity).
    replace (1 + len items - 1) with (len items) by lia.
    specialize (IH (pre ++ encode x) rest k (x :: acc)).
    rewrite <- app_assoc, len_app in IH. rewrite IH.
    + cbn [rev]. rewrite <- app_assoc. cbn [app]. f_equal. f_equal. rewrite len_app. lia.
    + intros; apply Hrec; right; assumption.
    + cbn in Hk. lia.
Qed.

(* ---- p4 ---- *)

Definition enc_entry (kv : bytes * pv) : bytes :=
  match kv with (k, x) => le 4 (len k) ++ k ++ encode x end.

Lemma encode_map m : encode (PMap m) = pv_tag_map :: le 4 (len m) ++ flat_map enc_entry m.
Proof. reflexivity. Qed.

Lemma encode_nonempty v : (1 <= length (encode v))%nat.
Proof. destruct v; cbn [encode length]; lia. Qed.

Lemma flat_map_encode_len (l : list pv) x : In x l -> (length (encode x) <= length (flat_map encode l))%nat.
Proof.
  induction l as [|y l IH]; [contradiction|]. cbn [flat_map]. rewrite app_length.
  intros [->|H]; [lia|]. specialize (IH H). lia.
Qed.
Lemma flat_map_encode_count (l : list pv) : (length l <= length (flat_map encode l))%nat.
Proof.
  induction l as [|y l IH]; [cbn; lia|]. cbn [flat_map length]. rewrite app_length.
  pose proof (encode_nonempty y). lia.
Qed.
Lemma flat_map_entry_len (m : list (bytes * pv)) kx : In kx m -> (length (encode (snd kx)) + 4 <= length (flat_map enc_entry m))%nat.
Proof.
  induction m as [|y m IH]; [contradiction|]. cbn [flat_map]. rewrite app_length.
  intros [->|H].
  - destruct kx as [k x]. cbn [enc_entry snd]. rewrite !app_length, le_length. lia.
  - specialize (IH H). lia.
Qed.
Lemma flat_map_entry_count (m : list (bytes * pv)) : (length m <= length (flat_map enc_entry m))%nat.
Proof.
  induction m as [|[k x] m IH]; [cbn; lia|]. cbn [flat_map length enc_entry]. rewrite !app_length, le_length. lia.
Qed.

Lemma ss_head_lt l : forall k', strictly_sorted (k' :: l) = true -> forall k, In k l -> lex_cmp k' k = Lt.
Proof.
  induction l as [|a l IH]; intros k' Hs k Hin; [contradiction|].
  cbn [strictly_sorted] in Hs. apply andb_prop in Hs as [H1 H2].
  destruct (lex_cmp k' a) eqn:E; try discriminate.
  destruct Hin as [->|Hin]; [exact E|].
  apply (lex_lt_trans k' a k); [exact E|]. apply IH; assumption.
Qed.
Lemma ss_tail k l : strictly_sorted (k :: l) = true -> strictly_sorted l = true.
Proof. cbn [strictly_sorted]. intros H. apply andb_prop in H as [_ H]. exact H. Qed.

Lemma map_insert_last acc : forall k v t,
  strictly_sorted (map fst (acc ++ (k, v) :: t)) = true -> map_insert k v acc = acc ++ [(k, v)].
Proof.
  induction acc as [|[k' v'] acc IH]; intros k v t Hs; [reflexivity|].
  cbn [map_insert app]. cbn [app map fst] in Hs.
  assert (Hlt : lex_cmp k' k = Lt).
  { apply (ss_head_lt _ _ Hs). rewrite map_app. apply in_or_app. right. left. reflexivity. }
  rewrite lex_cmp_antisym, Hlt. cbn [CompOpp]. f_equal. apply (IH k v t). apply (ss_tail _ _ Hs).
Qed.

Lemma map_loop_rt rec (m : list (bytes * pv)) :
  forall pre rest k acc,
  (forall kx r, In kx m -> rec (encode (snd kx) ++ r) = Ok (snd kx, len (encode (snd kx)))) ->
  (forall kx, In kx m -> len (fst kx) < 4294967296 /\ utf8_valid (fst kx) = true) ->
  strictly_sorted (map fst (acc ++ m)) = true ->
  (length m <= k)%nat ->
  map_loop rec k (len m) (pre ++ flat_map enc_entry m ++ rest) (len pre) acc
  = Ok (PMap (acc ++ m), len pre + len (flat_map enc_entry m)).
Proof.
  induction m as [|[key x] m IH]; intros pre rest k acc Hrec Hkeys Hs Hk.
  - cbn [map_loop flat_map app len length N.of_nat N.eqb]. destruct k; cbn; rewrite app_nil_r; f_equal; f_equal; lia.
  - destruct k as [|k]; [cbn in Hk; lia|]. cbn [map_loop].
    rewrite len_cons. destruct (1 + len m =? 0) eqn:E; [lia|].
    cbn [flat_map enc_entry]. rewrite <- !app_assoc.
    destruct (Hkeys (key, x) (or_introl eq_refl)) as [Hkl Hku]. cbn [fst] in Hkl, Hku.
    set (tail := flat_map enc_entry m ++ rest).
    assert (Hlen : len (pre ++ le 4 (len key) ++ key ++ encode x ++ tail) = len pre + 4 + len key + len (encode x) + len tail).
    { rewrite !len_app, len_le. lia. }
    rewrite Hlen.
    destruct (len pre + 4 + len key + len (encode x) + len tail <? len pre + 4) eqn:E1; [lia|].
    rewrite (sub_app pre (le 4 (len key)) (key ++ encode x ++ tail)); [|reflexivity|now rewrite len_le].
    cbv zeta. rewrite unle_le4 by exact Hkl.
    destruct (len pre + 4 + len key + len (encode x) + len tail <? len pre + 4 + len key) eqn:E2; [lia|].
    replace (pre ++ le 4 (len key) ++ key ++ encode x ++ tail) with ((pre ++ le 4 (len key)) ++ key ++ encode x ++ tail)
      by now rewrite <- app_assoc.
    rewrite (sub_app (pre ++ le 4 (len key)) key (encode x ++ tail)); [|rewrite len_app, len_le; lia|reflexivity].
    rewrite Hku. cbn [negb].
    replace ((pre ++ le 4 (len key)) ++ key ++ encode x ++ tail) with ((pre ++ le 4 (len key) ++ key) ++ encode x ++ tail)
      by now rewrite <- !app_assoc.
    rewrite from_app by (rewrite !len_app, len_le; lia).
    pose proof (Hrec (key, x) tail (or_introl eq_refl)) as Hx. cbn [snd] in Hx. rewrite Hx.
    replace (1 + len m - 1) with (len m) by lia.
    rewrite (map_insert_last acc key x m Hs).
    set (pre' := (pre ++ le 4 (len key) ++ key) ++ encode x).
    replace ((pre ++ le 4 (len key) ++ key) ++ encode x ++ tail) with (pre' ++ flat_map enc_entry m ++ rest)
      by (unfold pre', tail; repeat rewrite <- app_assoc; reflexivity).
    replace (len pre + 4 + len key + len (encode x)) with (len pre')
      by (unfold pre'; rewrite !len_app, len_le; lia).
    rewrite (IH pre' rest k (acc ++ [(key, x)])).
    + rewrite <- app_assoc. cbn [app]. f_equal. f_equal. unfold pre'. rewrite !len_app, len_le. lia.
    + intros; apply Hrec; right; assumption.
    + intros; apply Hkeys; right; assumption.
    + rewrite <- app_assoc. exact Hs.
    + cbn in Hk. lia.
Qed.

(* ---- p5 ---- *)

Ltac tagr := repeat match goal with |- context [N.eqb ?a ?b] =>
   let r := eval vm_compute in (N.eqb a b) in
   replace (N.eqb a b) with r by (vm_compute; reflexivity) end.

Lemma dec_S_null f d t : dec (S f) d (pv_tag_null :: t) = Ok (PNull, 1).
Proof. rewrite dec_S. tagr. reflexivity. Qed.
Lemma dec_S_bool f d t : dec (S f) d (pv_tag_bool :: t) =
  if len (pv_tag_bool :: t) <? 2 then Err EInvalidLength else
  match nth_error (pv_tag_bool :: t) 1 with Some x => Ok (PBool (negb (x =? 0)), 2) | None => Panic end.
Proof. rewrite dec_S. tagr. reflexivity. Qed.
Lemma dec_S_int f d t : dec (S f) d (pv_tag_int :: t) = dec_i64 (pv_tag_int :: t) PInt.
Proof. rewrite dec_S. tagr. reflexivity. Qed.
Lemma dec_S_float f d t : dec (S f) d (pv_tag_float :: t) =
  if len (pv_tag_float :: t) <? 9 then Err EInvalidLength else
  match sub (pv_tag_float :: t) 1 8 with Some s => Ok (PFloat (unle s), 9) | None => Panic end.
Proof. rewrite dec_S. tagr. reflexivity. Qed.
Lemma dec_S_str f d t : dec (S f) d (pv_tag_string :: t) =
  dec_lenpref (pv_tag_string :: t) (fun s c => if utf8_valid s then Ok (PStr s, c) else Err EInvalidUtf8).
Proof. rewrite dec_S. tagr. reflexivity. Qed.
Lemma dec_S_datetime f d t : dec (S f) d (pv_tag_datetime :: t) = dec_i64 (pv_tag_datetime :: t) PDateTime.
Proof. rewrite dec_S. tagr. reflexivity. Qed.
Lemma dec_S_blob f d t : dec (S f) d (pv_tag_blob :: t) = dec_lenpref (pv_tag_blob :: t) (fun s c => Ok (PBlob s, c)).
Proof. rewrite dec_S. tagr. reflexivity. Qed.
Lemma dec_S_list f d t : dec (S f) d (pv_tag_list :: t) =
  if len (pv_tag_list :: t) <? 5 then Err EInvalidLength else
  if too_deep d then Err ETooDeep else
  match sub (pv_tag_list :: t) 1 4 with
  | None => Panic
  | Some l4 => list_loop (dec f (d + 1)) (S f) (unle l4) (pv_tag_list :: t) 5 []
  end.
Proof. rewrite dec_S. tagr. reflexivity. Qed.
Lemma dec_S_map f d t : dec (S f) d (pv_tag_map :: t) =
  if len (pv_tag_map :: t) <? 5 then Err EInvalidLength else
  if too_deep d then Err ETooDeep else
  match sub (pv_tag_map :: t) 1 4 with
  | None => Panic
  | Some l4 => map_loop (dec f (d + 1)) (S f) (unle l4) (pv_tag_map :: t) 5 []
  end.
Proof. rewrite dec_S. tagr. reflexivity. Qed.

Lemma forallb_In {A} (f : A -> bool) l x : forallb f l = true -> In x l -> f x = true.
Proof. intros H Hin. rewrite forallb_forall in H. auto. Qed.
Lemma sub_cons1 t s r n : n = len s -> sub (t :: s ++ r) 1 n = Some s.
Proof. intros. change (t :: s ++ r) with ([t] ++ s ++ r). now apply sub_app. Qed.

(* the nesting limit with the constants resolved (the code has the limit) *)
Lemma too_deep_eq d : too_deep d = (pv_max_nesting <=? d).
Proof. reflexivity. Qed.
Lemma nesting_ok_eq v : nesting_ok v = (cdepth v <=? pv_max_nesting).
Proof. reflexivity. Qed.

Lemma cdepth_list_in l x : In x l -> cdepth x + 1 <= cdepth (PList l).
Proof.
  cbn [cdepth]. induction l as [|y l IH]; [contradiction|]. cbn [fold_right].
  intros [->|H]; [lia|]. specialize (IH H). lia.
Qed.
Lemma cdepth_map_in m k x : In (k, x) m -> cdepth x + 1 <= cdepth (PMap m).
Proof.
  cbn [cdepth]. induction m as [|[k' y] m IH]; [contradiction|]. cbn [fold_right].
  intros [H|H]; [injection H as -> ->; lia|]. specialize (IH H). lia.
Qed.

(* [d]: number of lists/maps the value sits in; it must fit under the limit with its own nesting *)
Definition RT (v : pv) : Prop := wf v = true -> forall f d rest,
  (length (encode v) <= f)%nat -> d + cdepth v <= pv_max_nesting ->
  dec (S f) d (encode v ++ rest) = Ok (v, len (encode v)).

Lemma rt_null : RT PNull.
Proof. unfold RT. intros _ f d rest Hf Hd. apply dec_S_null. Qed.
Lemma rt_bool b : RT (PBool b).
Proof.
  unfold RT. intros _ f d rest Hf Hd. cbn [encode app]. rewrite dec_S_bool. rewrite !len_cons.
  destruct (1 + (1 + len rest) <? 2) eqn:E; [lia|]. cbn [nth_error]. destruct b; reflexivity.
Qed.
Lemma rt_int z : RT (PInt z).
Proof.
  unfold RT. intros Hwf f d rest Hf Hd. cbn [encode app]. rewrite dec_S_int, dec_i64_rt by exact Hwf.
  rewrite len_cons, len_le. reflexivity.
Qed.
Lemma rt_datetime z : RT (PDateTime z).
Proof.
  unfold RT. intros Hwf f d rest Hf Hd. cbn [encode app]. rewrite dec_S_datetime, dec_i64_rt by exact Hwf.
  rewrite len_cons, len_le. reflexivity.
Qed.
Lemma rt_float x : RT (PFloat x).
Proof.
  unfold RT. intros Hwf f d rest Hf Hd. cbn [encode app]. cbn [wf] in Hwf. rewrite dec_S_float.
  rewrite len_cons, len_app, len_le.
  destruct (1 + (N.of_nat 8 + len rest) <? 9) eqn:E; [lia|].
  rewrite sub_cons1 by now rewrite len_le.
  rewrite unle_le8 by lia. rewrite len_cons, len_le. reflexivity.
Qed.
Lemma rt_str s : RT (PStr s).
Proof.
  unfold RT. intros Hwf f d rest Hf Hd. cbn [encode app]. cbn [wf] in Hwf. apply andb_prop in Hwf as [H1 H2].
  assert (Hs : len s < 4294967296) by (unfold two32' in H1; lia).
  rewrite dec_S_str, <- app_assoc, (dec_lenpref_rt _ _ _ _ Hs), H2.
  rewrite len_cons, len_app, len_le. f_equal. f_equal. lia.
Qed.
Lemma wf_blob_len s : wf (PBlob s) = true -> len s < 4294967296.
Proof. cbn [wf]. unfold two32'. lia. Qed.
Lemma wf_list_inv l : wf (PList l) = true -> len l < 4294967296 /\ forallb wf l = true.
Proof. cbn [wf]. unfold two32'. intros H. apply andb_prop in H as [H1 H2]. split; [lia|exact H2]. Qed.
Lemma wf_map_inv m : wf (PMap m) = true ->
  len m < 4294967296 /\ strictly_sorted (map fst m) = true /\
  forallb (fun kv => match kv with (k, x) => (len k <? two32') && utf8_valid k && wf x end) m = true.
Proof.
  cbn [wf]. unfold two32'. intros H. apply andb_prop in H as [H12 H3]. apply andb_prop in H12 as [H1 H2].
  split; [lia|]. split; assumption.
Qed.
Lemma rt_blob s : RT (PBlob s).
Proof.
  unfold RT. intros Hwf f d rest Hf Hd. apply wf_blob_len in Hwf. cbn [encode app].
  rewrite dec_S_blob, <- app_assoc, (dec_lenpref_rt _ _ _ _ Hwf).
  rewrite len_cons, len_app, len_le. f_equal. f_equal. lia.
Qed.
Lemma rt_list l : Forall RT l -> RT (PList l).
Proof.
  unfold RT. intros H Hwf f d rest Hf Hd. apply wf_list_inv in Hwf as [Hl H2].
  cbn [encode length] in Hf. rewrite app_length, le_length in Hf.
  cbn [encode app]. rewrite dec_S_list, <- app_assoc.
  rewrite len_cons, !len_app, len_le.
  destruct (1 + (N.of_nat 4 + (len (flat_map encode l) + len rest)) <? 5) eqn:E; [lia|].
  rewrite too_deep_eq. assert (Hc : 1 <= cdepth (PList l)) by (cbn [cdepth]; lia).
  destruct (pv_max_nesting <=? d) eqn:Ed; [lia|].
  rewrite sub_cons1 by now rewrite len_le.
  rewrite unle_le4 by exact Hl.
  change (pv_tag_list :: le 4 (len l) ++ flat_map encode l ++ rest) with ((pv_tag_list :: le 4 (len l)) ++ flat_map encode l ++ rest).
  replace 5 with (len (pv_tag_list :: le 4 (len l))) at 1 by (rewrite len_cons, len_le; reflexivity).
  destruct f as [|f]; [lia|].
  rewrite list_loop_rt.
  - cbn [rev app]. f_equal. f_equal. rewrite !len_cons, !len_app, len_le. lia.
  - intros x r Hin. rewrite Forall_forall in H. apply (H x Hin); [exact (forallb_In _ _ _ H2 Hin)| |].
    + pose proof (flat_map_encode_len l x Hin). lia.
    + pose proof (cdepth_list_in l x Hin). lia.
  - pose proof (flat_map_encode_count l). lia.
Qed.
Lemma rt_map m : Forall (fun kv => RT (snd kv)) m -> RT (PMap m).
Proof.
  unfold RT. intros H Hwf f d rest Hf Hd. apply wf_map_inv in Hwf as (Hl & H2 & H3).
  rewrite encode_map in *. cbn [length] in Hf. rewrite app_length, le_length in Hf.
  cbn [app]. rewrite dec_S_map, <- app_assoc.
  rewrite len_cons, !len_app, len_le.
  destruct (1 + (N.of_nat 4 + (len (flat_map enc_entry m) + len rest)) <? 5) eqn:E; [lia|].
  rewrite too_deep_eq. assert (Hc : 1 <= cdepth (PMap m)) by (cbn [cdepth]; lia).
  destruct (pv_max_nesting <=? d) eqn:Ed; [lia|].
  rewrite sub_cons1 by now rewrite len_le.
  rewrite unle_le4 by exact Hl.
  change (pv_tag_map :: le 4 (len m) ++ flat_map enc_entry m ++ rest) with ((pv_tag_map :: le 4 (len m)) ++ flat_map enc_entry m ++ rest).
  replace 5 with (len (pv_tag_map :: le 4 (len m))) at 1 by (rewrite len_cons, len_le; reflexivity).
  destruct f as [|f]; [lia|].
  rewrite map_loop_rt.
  - cbn [app]. f_equal. f_equal. rewrite !len_cons, !len_app, len_le. lia.
  - intros kx r Hin. rewrite Forall_forall in H. pose proof (forallb_In _ _ _ H3 Hin) as Hk. destruct kx as [k x].
    apply andb_prop in Hk as [_ Hx]. apply (H (k, x) Hin); [exact Hx| |].
    + pose proof (flat_map_entry_len m (k, x) Hin). cbn [snd] in *. lia.
    + pose proof (cdepth_map_in m k x Hin). cbn [snd]. lia.
  - intros kx Hin. pose proof (forallb_In _ _ _ H3 Hin) as Hk. destruct kx as [k x].
    apply andb_prop in Hk as [Hk _]. apply andb_prop in Hk as [Ha Hb]. cbn [fst]. unfold two32' in Ha. split; [lia|exact Hb].
  - cbn [app]. exact H2.
  - pose proof (flat_map_entry_count m). lia.
Qed.

Lemma dec_encode : forall v, RT v.
Proof.
  apply pv_ind2; [exact rt_null|exact rt_bool|exact rt_int|exact rt_float|exact rt_str|exact rt_datetime|exact rt_blob|exact rt_list|exact rt_map].
Qed.

Theorem roundtrip v rest : wf v = true -> cdepth v <= pv_max_nesting ->
  dec_top (encode v ++ rest) = Ok (v, len (encode v)) /\ decode (encode v ++ rest) = Ok v.
Proof.
  intros Hwf Hd. assert (H : dec_top (encode v ++ rest) = Ok (v, len (encode v))).
  { unfold dec_top. apply dec_encode; [exact Hwf| |lia]. rewrite app_length. lia. }
  split; [exact H|]. unfold decode. now rewrite H.
Qed.

(* ---- p6: resources ---- *)

Lemma cost_S f d b : cost (S f) d b =
    match b with
    | [] => (0, 1)
    | ty :: _ =>
      if ty =? pv_tag_list then
        if len b <? 5 then (0, 1) else
        if too_deep d then (0, 1) else
        match sub b 1 4 with
        | None => (0, 1)
        | Some l4 =>
          let r := list_cost (dec f (d + 1)) (cost f (d + 1)) (S f) (unle l4) b 5 (0, 0) in
          (list_request (unle l4) (len b - 5) + fst r, 1 + snd r)
        end
      else if ty =? pv_tag_map then
        if len b <? 5 then (0, 1) else
        if too_deep d then (0, 1) else
        match sub b 1 4 with
        | None => (0, 1)
        | Some l4 =>
          let r := map_cost (dec f (d + 1)) (cost f (d + 1)) (S f) (unle l4) b 5 (0, 0) in
          (fst r, 1 + snd r)
        end
      else (0, 1)
    end.
Proof. reflexivity. Qed.

(* ---- depth: at most one level per 5 input bytes ---- *)
Lemma list_cost_depth rec cst b D :
  (forall rest, len rest + 5 <= len b -> snd (cst rest) <= D) ->
  forall k count pos acc, 5 <= pos -> snd acc <= D -> snd (list_cost rec cst k count b pos acc) <= D.
Proof.
  intros Hc. induction k as [|k IH]; intros count pos acc Hpos Hacc; cbn [list_cost].
  - destruct (count =? 0); exact Hacc.
  - destruct (count =? 0); [exact Hacc|].
    destruct (from b pos) as [rest|] eqn:Hr; [|exact Hacc].
    apply from_some in Hr as (Hle & _ & Hl). cbv zeta.
    assert (Hd : N.max (snd acc) (snd (cst rest)) <= D) by (apply N.max_lub; [exact Hacc|apply Hc; lia]).
    destruct (rec rest) as [[v c]| | |]; cbn [snd]; try exact Hd.
    apply IH; [lia|exact Hd].
Qed.
Lemma map_cost_depth rec cst b D :
  (forall rest, len rest + 5 <= len b -> snd (cst rest) <= D) ->
  forall k count pos acc, 5 <= pos -> snd acc <= D -> snd (map_cost rec cst k count b pos acc) <= D.
Proof.
  intros Hc. induction k as [|k IH]; intros count pos acc Hpos Hacc; cbn [map_cost].
  - destruct (count =? 0); exact Hacc.
  - destruct (count =? 0); [exact Hacc|].
    destruct (len b <? pos + 4); [exact Hacc|].
    destruct (sub b pos 4) as [kl|]; [|exact Hacc]. cbv zeta.
    destruct (len b <? pos + 4 + unle kl); [exact Hacc|].
    destruct (sub b (pos + 4) (unle kl)) as [key|]; [|exact Hacc].
    destruct (negb (utf8_valid key)); [exact Hacc|].
    destruct (from b (pos + 4 + unle kl)) as [rest|] eqn:Hr; [|exact Hacc].
    apply from_some in Hr as (Hle & _ & Hl).
    assert (Hd : N.max (snd acc) (snd (cst rest)) <= D) by (apply N.max_lub; [exact Hacc|apply Hc; lia]).
    destruct (rec rest) as [[v c]| | |]; cbn [snd]; try exact Hd.
    apply IH; [lia|exact Hd].
Qed.

Lemma cost_depth fuel : forall d b, 5 * snd (cost fuel d b) <= len b + 5.
Proof.
  induction fuel as [|f IH]; intros d b; [cbn; lia|].
  rewrite cost_S. destruct b as [|ty t] eqn:Eb; [cbn; lia|]. rewrite <- Eb.
  destruct (ty =? pv_tag_list).
  { destruct (len b <? 5) eqn:E; [cbn; lia|]. destruct (too_deep d); [cbn; lia|]. destruct (sub b 1 4); [|cbn; lia]. cbv zeta. cbn [snd].
    pose proof (list_cost_depth (dec f (d + 1)) (cost f (d + 1)) b ((len b) / 5)) as H.
    assert (Hr : forall rest, len rest + 5 <= len b -> snd (cost f (d + 1) rest) <= len b / 5).
    { intros rest Hl. specialize (IH (d + 1) rest). apply N.div_le_lower_bound; lia. }
    specialize (H Hr (S f) (unle b0) 5 (0, 0) ltac:(lia) ltac:(cbn; lia)).
    pose proof (N.mul_div_le (len b) 5 ltac:(lia)). lia. }
  destruct (ty =? pv_tag_map).
  { destruct (len b <? 5) eqn:E; [cbn; lia|]. destruct (too_deep d); [cbn; lia|]. destruct (sub b 1 4); [|cbn; lia]. cbv zeta. cbn [snd].
    pose proof (map_cost_depth (dec f (d + 1)) (cost f (d + 1)) b ((len b) / 5)) as H.
    assert (Hr : forall rest, len rest + 5 <= len b -> snd (cost f (d + 1) rest) <= len b / 5).
    { intros rest Hl. specialize (IH (d + 1) rest). apply N.div_le_lower_bound; lia. }
    specialize (H Hr (S f) (unle b0) 5 (0, 0) ltac:(lia) ltac:(cbn; lia)).
    pose proof (N.mul_div_le (len b) 5 ltac:(lia)). lia. }
  cbn. lia.
Qed.

Theorem depth_bounded b : 5 * depth b <= len b + 5.
Proof. apply cost_depth. Qed.

(* with the nesting limit: the recursion never goes deeper than MAX_PROPERTY_NESTING + 1 calls *)
Lemma cost_depth_limit fuel : forall d b, d <= pv_max_nesting -> snd (cost fuel d b) + d <= pv_max_nesting + 1.
Proof.
  induction fuel as [|f IH]; intros d b Hd; [cbn [cost snd]; lia|].
  rewrite cost_S. destruct b as [|ty t] eqn:Eb; [cbn [snd]; lia|]. rewrite <- Eb.
  destruct (ty =? pv_tag_list).
  { destruct (len b <? 5) eqn:E; [cbn [snd]; lia|]. rewrite too_deep_eq.
    destruct (pv_max_nesting <=? d) eqn:Ed; [cbn [snd]; lia|]. destruct (sub b 1 4); [|cbn [snd]; lia]. cbv zeta. cbn [snd].
    pose proof (list_cost_depth (dec f (d + 1)) (cost f (d + 1)) b (pv_max_nesting - d)) as H.
    assert (Hr : forall rest, len rest + 5 <= len b -> snd (cost f (d + 1) rest) <= pv_max_nesting - d).
    { intros rest Hl. specialize (IH (d + 1) rest ltac:(lia)). lia. }
    specialize (H Hr (S f) (unle b0) 5 (0, 0) ltac:(lia) ltac:(cbn [snd]; lia)). lia. }
  destruct (ty =? pv_tag_map).
  { destruct (len b <? 5) eqn:E; [cbn [snd]; lia|]. rewrite too_deep_eq.
    destruct (pv_max_nesting <=? d) eqn:Ed; [cbn [snd]; lia|]. destruct (sub b 1 4); [|cbn [snd]; lia]. cbv zeta. cbn [snd].
    pose proof (map_cost_depth (dec f (d + 1)) (cost f (d + 1)) b (pv_max_nesting - d)) as H.
    assert (Hr : forall rest, len rest + 5 <= len b -> snd (cost f (d + 1) rest) <= pv_max_nesting - d).
    { intros rest Hl. specialize (IH (d + 1) rest ltac:(lia)). lia. }
    specialize (H Hr (S f) (unle b0) 5 (0, 0) ltac:(lia) ltac:(cbn [snd]; lia)). lia. }
  cbn [snd]. lia.
Qed.
Theorem depth_limited b : depth b <= pv_max_nesting + 1.
Proof. pose proof (cost_depth_limit (S (length b)) 0 b ltac:(lia)). unfold depth. lia. Qed.

(* ---- p7: resources ---- *)

Lemma prealloc2 : pv_list_prealloc = 2. Proof. reflexivity. Qed.
Lemma list_request_0 c r : list_request c r = 0.
Proof. unfold list_request. rewrite prealloc2. reflexivity. Qed.

(* elements held in containers: below the consumed length on success, below the input length otherwise *)
Definition abound (b : bytes) (r : res (pv * N)) (a : N) : Prop :=
  match r with Ok (_, c) => a + 1 <= c | _ => a <= len b end.

Lemma list_cost_alloc rec cst b :
  (forall rest, len rest < len b -> good rest (rec rest) /\ abound rest (rec rest) (fst (cst rest))) ->
  forall k count pos accl acc, 1 <= pos <= len b ->
  match list_loop rec k count b pos accl with
  | Ok (_, c) => fst (list_cost rec cst k count b pos acc) + pos <= fst acc + c
  | _ => fst (list_cost rec cst k count b pos acc) + pos <= fst acc + len b
  end.
Proof.
  intros Hrec. induction k as [|k IH]; intros count pos accl acc Hpos; cbn [list_loop list_cost].
  - destruct (count =? 0); lia.
  - destruct (count =? 0); [lia|].
    destruct (from_total b pos) as [rest Hr]; [lia|]. rewrite Hr.
    apply from_some in Hr as (_ & _ & Hl). cbv zeta.
    destruct (Hrec rest ltac:(lia)) as ((_ & _ & Hb) & Ha). unfold abound in Ha.
    destruct (rec rest) as [[item c]| | |]; cbn [fst]; try lia.
    specialize (Hb _ _ eq_refl).
    specialize (IH (count - 1) (pos + c) (item :: accl) (fst acc + fst (cst rest) + 1, N.max (snd acc) (snd (cst rest))) ltac:(lia)).
    cbn [fst] in IH. destruct (list_loop rec k (count - 1) b (pos + c) (item :: accl)) as [[v cf]| | |]; lia.
Qed.

Lemma map_cost_alloc rec cst b :
  (forall rest, len rest < len b -> good rest (rec rest) /\ abound rest (rec rest) (fst (cst rest))) ->
  forall k count pos m acc, 1 <= pos <= len b ->
  match map_loop rec k count b pos m with
  | Ok (_, c) => fst (map_cost rec cst k count b pos acc) + pos <= fst acc + c
  | _ => fst (map_cost rec cst k count b pos acc) + pos <= fst acc + len b
  end.
Proof.
  intros Hrec. induction k as [|k IH]; intros count pos m acc Hpos; cbn [map_loop map_cost].
  - destruct (count =? 0); lia.
  - destruct (count =? 0); [lia|].
    destruct (len b <? pos + 4) eqn:E1; [lia|].
    destruct (sub_total b pos 4) as (kl & Hkl & _); [lia|]. rewrite Hkl. cbv zeta.
    destruct (len b <? pos + 4 + unle kl) eqn:E2; [lia|].
    destruct (sub_total b (pos + 4) (unle kl)) as (key & Hkey & _); [lia|]. rewrite Hkey.
    destruct (negb (utf8_valid key)); [lia|].
    destruct (from_total b (pos + 4 + unle kl)) as [rest Hr]; [lia|]. rewrite Hr.
    apply from_some in Hr as (_ & _ & Hl).
    destruct (Hrec rest ltac:(lia)) as ((_ & _ & Hb) & Ha). unfold abound in Ha.
    destruct (rec rest) as [[item c]| | |]; cbn [fst]; try lia.
    specialize (Hb _ _ eq_refl).
    specialize (IH (count - 1) (pos + 4 + unle kl + c) (map_insert key item m) (fst acc + fst (cst rest) + 1, N.max (snd acc) (snd (cst rest))) ltac:(lia)).
    cbn [fst] in IH. destruct (map_loop rec k (count - 1) b (pos + 4 + unle kl + c) (map_insert key item m)) as [[v cf]| | |]; lia.
Qed.

Lemma cost_alloc fuel : forall d b, (length b < fuel)%nat -> abound b (dec fuel d b) (fst (cost fuel d b)).
Proof.
  induction fuel as [|f IH]; intros d b Hf; [lia|].
  pose proof (dec_good (S f) d b Hf) as (_ & _ & Hgood).
  assert (Hrec : forall rest, len rest < len b -> good rest (dec f (d + 1) rest) /\ abound rest (dec f (d + 1) rest) (fst (cost f (d + 1) rest))).
  { intros rest Hl. split; [apply dec_good|apply IH]; unfold len in *; lia. }
  rewrite cost_S. destruct b as [|ty t] eqn:Eb; [cbn; lia|].
  destruct (ty =? pv_tag_list) eqn:EL.
  { apply N.eqb_eq in EL. subst ty. rewrite dec_S_list. rewrite <- Eb in *.
    destruct (len b <? 5) eqn:E; [cbn; lia|]. destruct (too_deep d); [cbn; lia|].
    destruct (sub_total b 1 4) as (l4 & Hl4 & _); [lia|]. rewrite Hl4. cbv zeta. cbn [fst].
    rewrite list_request_0.
    pose proof (list_cost_alloc (dec f (d + 1)) (cost f (d + 1)) b Hrec (S f) (unle l4) 5 [] (0, 0) ltac:(lia)) as H.
    unfold abound. destruct (list_loop (dec f (d + 1)) (S f) (unle l4) b 5 []) as [[v c]| | |]; cbn [fst] in H; lia. }
  destruct (ty =? pv_tag_map) eqn:EM.
  { apply N.eqb_eq in EM. subst ty. rewrite dec_S_map. rewrite <- Eb in *.
    destruct (len b <? 5) eqn:E; [cbn; lia|]. destruct (too_deep d); [cbn; lia|].
    destruct (sub_total b 1 4) as (l4 & Hl4 & _); [lia|]. rewrite Hl4. cbv zeta. cbn [fst].
    pose proof (map_cost_alloc (dec f (d + 1)) (cost f (d + 1)) b Hrec (S f) (unle l4) 5 [] (0, 0) ltac:(lia)) as H.
    unfold abound. destruct (map_loop (dec f (d + 1)) (S f) (unle l4) b 5 []) as [[v c]| | |]; cbn [fst] in H; lia. }
  cbn [fst]. unfold abound. destruct (dec (S f) d (ty :: t)) as [[v c]| | |]; try lia.
  specialize (Hgood _ _ eq_refl). lia.
Qed.

Theorem alloc_bounded b : alloc_request b <= len b.
Proof.
  pose proof (cost_alloc (S (length b)) 0 b ltac:(lia)) as H. unfold abound in H. fold (dec_top b) in H.
  pose proof (dec_top_good b) as (_ & _ & Hg). unfold alloc_request.
  destruct (dec_top b) as [[v c]| | |]; try lia. specialize (Hg _ _ eq_refl). lia.
Qed.

(* ---- nested headers: the depth bound is reached; beyond the limit decoding is an error ---- *)

(* k nested one-element list headers around a Null *)
Fixpoint nest (k : nat) : bytes :=
  match k with O => [pv_tag_null] | S k' => [pv_tag_list; 1; 0; 0; 0] ++ nest k' end.

Lemma len_nest k : len (nest k) = 5 * N.of_nat k + 1.
Proof. induction k as [|k IH]; [reflexivity|]. cbn [nest]. rewrite len_app, IH. change (len [pv_tag_list; 1; 0; 0; 0]) with 5. lia. Qed.

Lemma cost_nest : forall k f d, (k < f)%nat -> d + N.of_nat k <= pv_max_nesting ->
  snd (cost f d (nest k)) = N.of_nat k + 1.
Proof.
  induction k as [|k IH]; intros f d Hf Hd; (destruct f as [|f]; [lia|]).
  - reflexivity.
  - rewrite cost_S. cbn [nest app].
    replace (pv_tag_list =? pv_tag_list) with true by (symmetry; apply N.eqb_refl).
    change (pv_tag_list :: 1 :: 0 :: 0 :: 0 :: nest k) with ([pv_tag_list; 1; 0; 0; 0] ++ nest k).
    rewrite len_app. change (len [pv_tag_list; 1; 0; 0; 0]) with 5.
    destruct (5 + len (nest k) <? 5) eqn:E; [lia|].
    rewrite too_deep_eq. destruct (pv_max_nesting <=? d) eqn:Ed; [lia|].
    change ([pv_tag_list; 1; 0; 0; 0] ++ nest k) with ([pv_tag_list] ++ [1; 0; 0; 0] ++ nest k).
    rewrite (sub_app [pv_tag_list] [1; 0; 0; 0] (nest k) 1 4) by reflexivity.
    change (unle [1; 0; 0; 0]) with 1. cbv zeta.
    change ([pv_tag_list] ++ [1; 0; 0; 0] ++ nest k) with ([pv_tag_list; 1; 0; 0; 0] ++ nest k).
    cbn [list_cost]. change (1 =? 0) with false. cbv iota.
    rewrite (from_app [pv_tag_list; 1; 0; 0; 0] (nest k) 5) by reflexivity. cbv zeta.
    specialize (IH f (d + 1) ltac:(lia) ltac:(lia)).
    destruct (dec f (d + 1) (nest k)) as [[v c]| | |]; cbn [snd fst].
    + change (1 - 1) with 0. destruct f; cbn [list_cost N.eqb snd]; rewrite IH; lia.
    + rewrite IH. lia.
    + rewrite IH. lia.
    + rewrite IH. lia.
Qed.

(* the depth bound MAX_PROPERTY_NESTING + 1 is reached, one level per 5 bytes below it *)
Theorem depth_nest k : N.of_nat k <= pv_max_nesting -> depth (nest k) = N.of_nat k + 1.
Proof.
  intros H. unfold depth. apply cost_nest; [|lia].
  pose proof (len_nest k). unfold len in *. lia.
Qed.

(* beyond the limit the decoder answers with an error instead of recursing further *)
Lemma dec_nest_deep : forall k f d, (k < f)%nat -> pv_max_nesting < d + N.of_nat k -> d <= pv_max_nesting ->
  dec f d (nest k) = Err ETooDeep.
Proof.
  induction k as [|k IH]; intros f d Hf Hd Hd2; (destruct f as [|f]; [lia|]); [lia|].
  cbn [nest app]. rewrite dec_S_list.
  change (pv_tag_list :: 1 :: 0 :: 0 :: 0 :: nest k) with ([pv_tag_list; 1; 0; 0; 0] ++ nest k).
  rewrite len_app. change (len [pv_tag_list; 1; 0; 0; 0]) with 5.
  destruct (5 + len (nest k) <? 5) eqn:E; [lia|].
  rewrite too_deep_eq. destruct (pv_max_nesting <=? d) eqn:Ed; [reflexivity|].
  change ([pv_tag_list; 1; 0; 0; 0] ++ nest k) with ([pv_tag_list] ++ [1; 0; 0; 0] ++ nest k).
  rewrite (sub_app [pv_tag_list] [1; 0; 0; 0] (nest k) 1 4) by reflexivity.
  change (unle [1; 0; 0; 0]) with 1.
  change ([pv_tag_list] ++ [1; 0; 0; 0] ++ nest k) with ([pv_tag_list; 1; 0; 0; 0] ++ nest k).
  cbn [list_loop]. change (1 =? 0) with false. cbv iota.
  rewrite (from_app [pv_tag_list; 1; 0; 0; 0] (nest k) 5) by reflexivity.
  rewrite (IH f (d + 1)) by lia. reflexivity.
Qed.
Theorem decode_nest_deep k : pv_max_nesting < N.of_nat k -> decode (nest k) = Err ETooDeep.
Proof.
  intros H. unfold decode, dec_top. rewrite dec_nest_deep; [reflexivity| |lia|lia].
  pose proof (len_nest k). unfold len in *. lia.
Qed.
