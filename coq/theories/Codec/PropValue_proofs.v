(* Codec/PropValue_proofs.v — proofs about the PropertyValue codec model. *)
From Coq Require Import Lia ZifyBool ZifyN ZifyNat.
From NDB Require Import Base.Bytes Base.Bytes_proofs Codec.Utf8 Codec.PropValue.
Open Scope N_scope.

Lemma len_nil {A} : len (@nil A) = 0. Proof. reflexivity. Qed.
Lemma len_cons {A} (x : A) l : len (x :: l) = 1 + len l.
Proof. unfold len. cbn [length]. lia. Qed.
Lemma len_app {A} (a b : list A) : len (a ++ b) = len a + len b.
Proof. unfold len. rewrite app_length. lia. Qed.
Lemma len_le n x : len (le n x) = N.of_nat n.
Proof. unfold len. now rewrite le_length. Qed.
Lemma len_firstn {A} n (l : list A) : len (firstn n l) = N.min (N.of_nat n) (len l).
Proof. unfold len. rewrite firstn_length. lia. Qed.
Lemma len_skipn {A} n (l : list A) : len (skipn n l) = len l - N.of_nat n.
Proof. unfold len. rewrite skipn_length. lia. Qed.

Lemma skipn_app_exact {A} (p r : list A) n : n = length p -> skipn n (p ++ r) = r.
Proof. intros ->. rewrite skipn_app, skipn_all, Nat.sub_diag. reflexivity. Qed.
Lemma firstn_app_exact {A} (p r : list A) n : n = length p -> firstn n (p ++ r) = p.
Proof. intros ->. rewrite firstn_app, firstn_all, Nat.sub_diag. cbn. now rewrite app_nil_r. Qed.

Lemma from_app p r off : off = len p -> from (p ++ r) off = Some r.
Proof.
  intros ->. unfold from. rewrite len_app.
  destruct (len p <=? len p + len r) eqn:E; [|lia].
  f_equal. apply skipn_app_exact. unfold len. lia.
Qed.
Lemma sub_app p s r off n : off = len p -> n = len s -> sub (p ++ s ++ r) off n = Some s.
Proof.
  intros -> ->. unfold sub. rewrite !len_app.
  destruct (len p + len s <=? len p + (len s + len r)) eqn:E; [|lia].
  f_equal. rewrite skipn_app_exact by (unfold len; lia).
  apply firstn_app_exact. unfold len. lia.
Qed.
Lemma from_some b off r : from b off = Some r -> off <= len b /\ r = skipn (N.to_nat off) b /\ len r = len b - off.
Proof.
  unfold from. destruct (off <=? len b) eqn:E; [|discriminate]. intros [= <-].
  rewrite len_skipn. repeat split; lia.
Qed.
Lemma from_total b off : off <= len b -> exists r, from b off = Some r.
Proof. intros. unfold from. destruct (off <=? len b) eqn:E; [eauto|lia]. Qed.
Lemma sub_total b off n : off + n <= len b -> exists s, sub b off n = Some s /\ len s = n.
Proof.
  intros. unfold sub. destruct (off + n <=? len b) eqn:E; [|lia].
  eexists; split; [reflexivity|]. rewrite len_firstn, len_skipn. lia.
Qed.

Lemma unle_le4 n : n < 4294967296 -> unle (le 4 n) = n.
Proof. intros. rewrite unle_le. change (256 ^ N.of_nat 4) with 4294967296. now apply N.mod_small. Qed.
Lemma unle_le8 n : n < two64 -> unle (le 8 n) = n.
Proof. intros. rewrite unle_le. change (256 ^ N.of_nat 8) with two64. now apply N.mod_small. Qed.

Definition good (b : bytes) (r : res (pv * N)) : Prop :=
  r <> Panic /\ r <> NoFuel /\ forall v c, r = Ok (v, c) -> 1 <= c <= len b.

Lemma good_err b e : good b (Err e).
Proof. split; [discriminate|]. split; [discriminate|]. intros; discriminate. Qed.
Lemma good_ok b v c : 1 <= c <= len b -> good b (Ok (v, c)).
Proof. intros H. split; [discriminate|]. split; [discriminate|]. intros v0 c0 [= <- <-]. lia. Qed.

Lemma list_loop_good rec b :
  (forall rest, len rest < len b -> good rest (rec rest)) ->
  forall k count pos acc, 1 <= pos <= len b -> len b - pos < N.of_nat k ->
  good b (list_loop rec k count b pos acc).
Proof.
  intros Hrec. induction k as [|k IH]; intros count pos acc Hpos Hk; [lia|].
  cbn [list_loop]. destruct (count =? 0) eqn:Ec; [apply good_ok; lia|].
  destruct (from_total b pos) as [rest Hr]; [lia|]. rewrite Hr.
  apply from_some in Hr as (_ & _ & Hl).
  specialize (Hrec rest ltac:(lia)). destruct Hrec as (Hp & Hf & Hb).
  destruct (rec rest) as [[item c]| | |] eqn:Er; try (apply good_err); try congruence.
  specialize (Hb _ _ eq_refl). apply IH; lia.
Qed.

Lemma map_loop_good rec b :
  (forall rest, len rest < len b -> good rest (rec rest)) ->
  forall k count pos m, 1 <= pos <= len b -> len b - pos < N.of_nat k ->
  good b (map_loop rec k count b pos m).
Proof.
  intros Hrec. induction k as [|k IH]; intros count pos m Hpos Hk; [lia|].
  cbn [map_loop]. destruct (count =? 0) eqn:Ec; [apply good_ok; lia|].
  destruct (len b <? pos + 4) eqn:E1; [apply good_err|].
  destruct (sub_total b pos 4) as (kl & Hkl & _); [lia|]. rewrite Hkl. cbv zeta.
  destruct (len b <? pos + 4 + unle kl) eqn:E2; [apply good_err|].
  destruct (sub_total b (pos + 4) (unle kl)) as (key & Hkey & _); [lia|]. rewrite Hkey.
  destruct (negb (utf8_valid key)); [apply good_err|].
  destruct (from_total b (pos + 4 + unle kl)) as [rest Hr]; [lia|]. rewrite Hr.
  apply from_some in Hr as (_ & _ & Hl).
  specialize (Hrec rest ltac:(lia)). destruct Hrec as (Hp & Hf & Hb).
  destruct (rec rest) as [[item c]| | |] eqn:Er; try (apply good_err); try congruence.
  specialize (Hb _ _ eq_refl). apply IH; lia.
Qed.

Lemma dec_S f b : dec (S f) b =
    match b with
    | [] => Err EEmpty
    | ty :: _ =>
      if ty =? pv_tag_null then Ok (PNull, 1)
      else if ty =? pv_tag_bool then
        if len b <? 2 then Err EInvalidLength else
        match nth_error b 1 with
        | Some x => Ok (PBool (negb (x =? 0)), 2)
        | None => Panic
        end
      else if ty =? pv_tag_int then dec_i64 b PInt
      else if ty =? pv_tag_float then
        if len b <? 9 then Err EInvalidLength else
        match sub b 1 8 with
        | Some s => Ok (PFloat (unle s), 9)
        | None => Panic
        end
      else if ty =? pv_tag_string then
        dec_lenpref b (fun s c => if utf8_valid s then Ok (PStr s, c) else Err EInvalidUtf8)
      else if ty =? pv_tag_datetime then dec_i64 b PDateTime
      else if ty =? pv_tag_blob then
        dec_lenpref b (fun s c => Ok (PBlob s, c))
      else if ty =? pv_tag_list then
        if len b <? 5 then Err EInvalidLength else
        match sub b 1 4 with
        | None => Panic
        | Some l4 => list_loop (dec f) (S f) (unle l4) b 5 []
        end
      else if ty =? pv_tag_map then
        if len b <? 5 then Err EInvalidLength else
        match sub b 1 4 with
        | None => Panic
        | Some l4 => map_loop (dec f) (S f) (unle l4) b 5 []
        end
      else Err (EUnknownType ty)
    end.
Proof. reflexivity. Qed.

Lemma dec_i64_good b mk : good b (dec_i64 b mk).
Proof.
  unfold dec_i64. destruct (len b <? 9) eqn:E; [apply good_err|].
  destruct (sub_total b 1 8) as (s & Hs & _); [lia|]. rewrite Hs. apply good_ok; lia.
Qed.
Lemma dec_lenpref_good b k :
  (forall s c, 1 <= c <= len b -> good b (k s c)) -> good b (dec_lenpref b k).
Proof.
  intros Hk. unfold dec_lenpref. destruct (len b <? 5) eqn:E; [apply good_err|].
  destruct (sub_total b 1 4) as (s & Hs & _); [lia|]. rewrite Hs. cbv zeta.
  destruct (len b <? 5 + unle s) eqn:E2; [apply good_err|].
  destruct (sub_total b 5 (unle s)) as (s2 & Hs2 & _); [lia|]. rewrite Hs2. apply Hk; lia.
Qed.

Lemma dec_good fuel : forall b, (length b < fuel)%nat -> good b (dec fuel b).
Proof.
  induction fuel as [|f IH]; intros b Hb; [lia|].
  rewrite dec_S. destruct b as [|ty t] eqn:Eb; [apply good_err|]. rewrite <- Eb in *.
  assert (Hl : 1 <= len b) by (subst b; rewrite len_cons; lia).
  destruct (ty =? pv_tag_null); [apply good_ok; lia|].
  destruct (ty =? pv_tag_bool).
  { destruct (len b <? 2) eqn:E; [apply good_err|].
    destruct (nth_error b 1) eqn:En; [apply good_ok; lia|].
    apply nth_error_None in En. unfold len in *. lia. }
  destruct (ty =? pv_tag_int); [apply dec_i64_good|].
  destruct (ty =? pv_tag_float).
  { destruct (len b <? 9) eqn:E; [apply good_err|].
    destruct (sub_total b 1 8) as (s & Hs & _); [lia|]. rewrite Hs. apply good_ok; lia. }
  destruct (ty =? pv_tag_string).
  { apply dec_lenpref_good. intros s c Hc. destruct (utf8_valid s); [apply good_ok; lia|apply good_err]. }
  destruct (ty =? pv_tag_datetime); [apply dec_i64_good|].
  destruct (ty =? pv_tag_blob).
  { apply dec_lenpref_good. intros s c Hc. apply good_ok; lia. }
  assert (Hrec : forall rest, len rest < len b -> good rest (dec f rest)).
  { intros rest Hr. apply IH. unfold len in *. lia. }
  destruct (ty =? pv_tag_list).
  { destruct (len b <? 5) eqn:E; [apply good_err|].
    destruct (sub_total b 1 4) as (s & Hs & _); [lia|]. rewrite Hs.
    apply list_loop_good; [exact Hrec|lia|unfold len in *; lia]. }
  destruct (ty =? pv_tag_map).
  { destruct (len b <? 5) eqn:E; [apply good_err|].
    destruct (sub_total b 1 4) as (s & Hs & _); [lia|]. rewrite Hs.
    apply map_loop_good; [exact Hrec|lia|unfold len in *; lia]. }
  apply good_err.
Qed.

Theorem dec_top_good b : good b (dec_top b).
Proof. apply dec_good. lia. Qed.
