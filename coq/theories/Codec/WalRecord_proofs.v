(* Codec/WalRecord_proofs.v — decode_body (encode_body r) = r for every well-formed record of
   every kind (wal_roundtrip). *)
From Coq Require Import Lia ZifyBool ZifyN ZifyNat.
From NDB Require Import Base.Bytes Base.Bytes_proofs Codec.Crc32 Codec.PropValue Codec.PropValue_proofs Codec.WalRecord Codec.WalLog.
Open Scope N_scope.

Lemma rd_at {A} pre s r (k : N -> wres A) o n : o = len pre -> n = len s ->
  rd (pre ++ s ++ r) o n k = k (unle s).
Proof. intros -> ->. unfold rd. now rewrite sub_app. Qed.
Lemma rd_at0 {A} s r (k : N -> wres A) n : n = len s -> rd (s ++ r) 0 n k = k (unle s).
Proof. intros ->. apply (rd_at [] s r k); reflexivity. Qed.

Lemma u32_rt x : u32ok x = true -> unle (u32 x) = x.
Proof. unfold u32ok, u32. intros. apply unle_le4. lia. Qed.
Lemma u64_rt x : u64ok x = true -> unle (u64 x) = x.
Proof. unfold u64ok, u64. intros. apply unle_le8. lia. Qed.
Lemma len_u32 x : len (u32 x) = 4. Proof. unfold u32. now rewrite len_le. Qed.
Lemma len_u64 x : len (u64 x) = 8. Proof. unfold u64. now rewrite len_le. Qed.

Ltac tagw := repeat match goal with |- context [N.eqb ?a ?b] =>
   let r := eval vm_compute in (N.eqb a b) in
   match r with true => idtac | false => idtac end;
   replace (N.eqb a b) with r by (vm_compute; reflexivity) end.



Lemma rd_only {A} s (k : N -> wres A) n : n = len s -> rd s 0 n k = k (unle s).
Proof. intros. rewrite <- (app_nil_r s) at 1. now apply rd_at0. Qed.
Lemma rd_last {A} pre s (k : N -> wres A) o n : o = len pre -> n = len s -> rd (pre ++ s) o n k = k (unle s).
Proof. intros. rewrite <- (app_nil_r s) at 1. now apply rd_at. Qed.
Lemma rd_at2 {A} a b s r (k : N -> wres A) o n : o = len a + len b -> n = len s -> rd (a ++ b ++ s ++ r) o n k = k (unle s).
Proof. intros. rewrite (app_assoc a b). apply rd_at; [now rewrite len_app|assumption]. Qed.
Lemma rd_last2 {A} a b s (k : N -> wres A) o n : o = len a + len b -> n = len s -> rd (a ++ b ++ s) o n k = k (unle s).
Proof. intros. rewrite <- (app_nil_r s) at 1. now apply rd_at2. Qed.
Lemma rd_at3 {A} a b c s r (k : N -> wres A) o n : o = len a + len b + len c -> n = len s -> rd (a ++ b ++ c ++ s ++ r) o n k = k (unle s).
Proof. intros. rewrite (app_assoc b c), (app_assoc a (b ++ c)). apply rd_at; [rewrite !len_app; lia|assumption]. Qed.
Lemma rd_last3 {A} a b c s (k : N -> wres A) o n : o = len a + len b + len c -> n = len s -> rd (a ++ b ++ c ++ s) o n k = k (unle s).
Proof. intros. rewrite <- (app_nil_r s) at 1. now apply rd_at3. Qed.

Ltac lens := rewrite ?len_app, ?len_u64, ?len_u32; reflexivity.
Ltac rdall := repeat first
  [ rewrite rd_only by lens | rewrite rd_at0 by lens
  | rewrite rd_last by lens | rewrite rd_at by lens
  | rewrite rd_last2 by lens | rewrite rd_at2 by lens
  | rewrite rd_last3 by lens | rewrite rd_at3 by lens ].
Ltac wfsplit H := cbn [wf_rec] in H; repeat (let H' := fresh "Hw" in apply andb_prop in H as [H H']).
Ltac start H := wfsplit H; cbn [encode_body]; unfold decode_body; tagw; cbn [negb].
Ltac fin := rewrite ?u64_rt, ?u32_rt by assumption; reflexivity.

Lemma rt_begin t : wf_rec (WBegin t) = true -> decode_body (encode_body (WBegin t)) = WOk (WBegin t).
Proof. intros H. start H. unfold read_u64. tagw. cbn [negb]. rdall. fin. Qed.
Lemma rt_commit t : wf_rec (WCommit t) = true -> decode_body (encode_body (WCommit t)) = WOk (WCommit t).
Proof. intros H. start H. unfold read_u64. tagw. cbn [negb]. rdall. fin. Qed.
Lemma rt_page_free t : wf_rec (WPageFree t) = true -> decode_body (encode_body (WPageFree t)) = WOk (WPageFree t).
Proof. intros H. start H. unfold read_u64. tagw. cbn [negb]. rdall. fin. Qed.
Lemma rt_create_node e l i : wf_rec (WCreateNode e l i) = true -> decode_body (encode_body (WCreateNode e l i)) = WOk (WCreateNode e l i).
Proof. intros H. start H. rdall. fin. Qed.
Lemma rt_add_label n l : wf_rec (WAddNodeLabel n l) = true -> decode_body (encode_body (WAddNodeLabel n l)) = WOk (WAddNodeLabel n l).
Proof. intros H. start H. rdall. fin. Qed.
Lemma rt_remove_label n l : wf_rec (WRemoveNodeLabel n l) = true -> decode_body (encode_body (WRemoveNodeLabel n l)) = WOk (WRemoveNodeLabel n l).
Proof. intros H. start H. rdall. fin. Qed.
Lemma rt_create_edge s r d : wf_rec (WCreateEdge s r d) = true -> decode_body (encode_body (WCreateEdge s r d)) = WOk (WCreateEdge s r d).
Proof. intros H. start H. rdall. fin. Qed.
Lemma rt_tomb_edge s r d : wf_rec (WTombstoneEdge s r d) = true -> decode_body (encode_body (WTombstoneEdge s r d)) = WOk (WTombstoneEdge s r d).
Proof. intros H. start H. rdall. fin. Qed.
Lemma rt_tomb_node n : wf_rec (WTombstoneNode n) = true -> decode_body (encode_body (WTombstoneNode n)) = WOk (WTombstoneNode n).
Proof. intros H. start H. rdall. fin. Qed.
Lemma rt_checkpoint a b c d : wf_rec (WCheckpoint a b c d) = true -> decode_body (encode_body (WCheckpoint a b c d)) = WOk (WCheckpoint a b c d).
Proof. intros H. start H. rdall. fin. Qed.

Lemma rdb_at {A} pre s r (k : bytes -> wres A) o n : o = len pre -> n = len s ->
  rdb (pre ++ s ++ r) o n k = k s.
Proof. intros -> ->. unfold rdb. now rewrite sub_app. Qed.
Lemma rdb_last {A} pre s (k : bytes -> wres A) o n : o = len pre -> n = len s -> rdb (pre ++ s) o n k = k s.
Proof. intros. pose proof (rdb_at pre s [] k o n H H0) as E. now rewrite app_nil_r in E. Qed.
Lemma keyok_inv k : keyok k = true -> len k < 4294967296 /\ utf8_valid k = true.
Proof. unfold keyok. intros H. apply andb_prop in H as [H1 H2]. split; [lia|exact H2]. Qed.
Lemma unle_u32_len (k : bytes) : len k < 4294967296 -> unle (u32 (len k)) = len k.
Proof. intros. unfold u32. now apply unle_le4. Qed.

(* [hdr][key_len][key] *)
Lemma dec_key_only_rt hdr k mk : keyok k = true ->
  dec_key_only (hdr ++ u32 (len k) ++ k) (len hdr) mk = WOk (mk k).
Proof.
  intros Hk. apply keyok_inv in Hk as [Hl Hu]. unfold dec_key_only.
  rewrite (rd_at hdr (u32 (len k)) k) by (rewrite ?len_u32; reflexivity).
  rewrite unle_u32_len by exact Hl.
  rewrite !len_app, len_u32.
  replace (len hdr + (4 + len k) =? len hdr + 4 + len k) with true by (symmetry; apply N.eqb_eq; lia).
  cbn [negb].
  rewrite (app_assoc hdr). rewrite (rdb_last (hdr ++ u32 (len k)) k) by (rewrite ?len_app, ?len_u32; reflexivity).
  now rewrite Hu.
Qed.

(* [hdr][key_len][key][value] *)
Lemma wfd_inv v : wfd v = true -> wf v = true /\ cdepth v <= pv_max_nesting.
Proof. unfold wfd. rewrite nesting_ok_eq. intros H. apply andb_prop in H as [H1 H2]. split; [exact H1|lia]. Qed.

Lemma dec_key_value_rt hdr k v mk : keyok k = true -> wfd v = true ->
  dec_key_value (hdr ++ u32 (len k) ++ k ++ encode v) (len hdr) mk = WOk (mk k v).
Proof.
  intros Hk Hv. apply wfd_inv in Hv as [Hv Hdp]. apply keyok_inv in Hk as [Hl Hu]. unfold dec_key_value.
  rewrite (rd_at hdr (u32 (len k)) (k ++ encode v)) by (rewrite ?len_u32; reflexivity).
  rewrite unle_u32_len by exact Hl.
  rewrite !len_app, len_u32.
  destruct (len hdr + (4 + (len k + len (encode v))) <? len hdr + 4 + len k) eqn:E; [lia|].
  rewrite (app_assoc hdr). rewrite (rdb_at (hdr ++ u32 (len k)) k (encode v)) by (rewrite ?len_app, ?len_u32; reflexivity).
  rewrite Hu. cbn [negb].
  rewrite (app_assoc (hdr ++ u32 (len k))).
  rewrite from_app by (rewrite !len_app, len_u32; lia).
  rewrite <- (app_nil_r (encode v)). destruct (roundtrip v [] Hv Hdp) as [_ ->]. reflexivity.
Qed.

Lemma rt_remove_node_prop n k : wf_rec (WRemoveNodeProp n k) = true ->
  decode_body (encode_body (WRemoveNodeProp n k)) = WOk (WRemoveNodeProp n k).
Proof.
  intros H. wfsplit H. cbn [encode_body]. unfold decode_body. tagw. cbn [negb].
  rewrite !len_app, !len_u32. destruct (4 + (4 + len k) <? 8) eqn:E; [lia|].
  rewrite rd_at0 by lens. rewrite u32_rt by assumption.
  replace 4 with (len (u32 n)) at 1 by apply len_u32.
  now rewrite dec_key_only_rt.
Qed.
Lemma rt_remove_edge_prop s r d k : wf_rec (WRemoveEdgeProp s r d k) = true ->
  decode_body (encode_body (WRemoveEdgeProp s r d k)) = WOk (WRemoveEdgeProp s r d k).
Proof.
  intros H. wfsplit H. cbn [encode_body]. unfold decode_body. tagw. cbn [negb].
  rewrite !len_app, !len_u32. destruct (4 + (4 + (4 + (4 + len k))) <? 16) eqn:E; [lia|].
  rewrite rd_at0 by lens. rewrite rd_at by lens. rewrite rd_at2 by lens. rewrite !u32_rt by assumption.
  rewrite (app_assoc (u32 r)), (app_assoc (u32 s)).
  replace 12 with (len (u32 s ++ u32 r ++ u32 d)) by (rewrite !len_app, !len_u32; reflexivity).
  now rewrite dec_key_only_rt.
Qed.
Lemma rt_set_node_prop n k v : wf_rec (WSetNodeProp n k v) = true ->
  decode_body (encode_body (WSetNodeProp n k v)) = WOk (WSetNodeProp n k v).
Proof.
  intros H. wfsplit H. cbn [encode_body]. unfold decode_body. tagw. cbn [negb].
  rewrite !len_app, !len_u32. destruct (4 + (4 + (len k + len (encode v))) <? 8) eqn:E; [lia|].
  rewrite rd_at0 by lens. rewrite u32_rt by assumption.
  replace 4 with (len (u32 n)) at 1 by apply len_u32.
  now rewrite dec_key_value_rt.
Qed.
Lemma rt_set_edge_prop s r d k v : wf_rec (WSetEdgeProp s r d k v) = true ->
  decode_body (encode_body (WSetEdgeProp s r d k v)) = WOk (WSetEdgeProp s r d k v).
Proof.
  intros H. wfsplit H. cbn [encode_body]. unfold decode_body. tagw. cbn [negb].
  rewrite !len_app, !len_u32. destruct (4 + (4 + (4 + (4 + (len k + len (encode v))))) <? 16) eqn:E; [lia|].
  rewrite rd_at0 by lens. rewrite rd_at by lens. rewrite rd_at2 by lens. rewrite !u32_rt by assumption.
  rewrite (app_assoc (u32 r)), (app_assoc (u32 s)).
  replace 12 with (len (u32 s ++ u32 r ++ u32 d)) by (rewrite !len_app, !len_u32; reflexivity).
  now rewrite dec_key_value_rt.
Qed.

Lemma rt_create_label name l : wf_rec (WCreateLabel name l) = true ->
  decode_body (encode_body (WCreateLabel name l)) = WOk (WCreateLabel name l).
Proof.
  intros H. cbn [wf_rec] in H. apply andb_prop in H as [Hk Hl0]. apply keyok_inv in Hk as [Hl Hu]. cbn [encode_body]. unfold decode_body. tagw. cbn [negb].
  rewrite !len_app, !len_u32. destruct (4 + (4 + len name) <? 8) eqn:E; [lia|].
  rewrite rd_at0 by lens. rewrite rd_at by lens. rewrite (u32_rt l) by exact Hl0. rewrite unle_u32_len by exact Hl.
  destruct (4 + (4 + len name) <? 8 + len name) eqn:E2; [lia|].
  rewrite (app_assoc (u32 l)). rewrite rdb_last by (rewrite ?len_app, ?len_u32; reflexivity).
  now rewrite Hu.
Qed.

Lemma rt_page_write p page : wf_rec (WPageWrite p page) = true ->
  decode_body (encode_body (WPageWrite p page)) = WOk (WPageWrite p page).
Proof.
  intros H. wfsplit H. cbn [encode_body]. unfold decode_body. tagw. cbn [negb].
  rewrite len_app, len_u64. apply N.eqb_eq in Hw. rewrite Hw, N.eqb_refl. cbn [negb].
  rewrite rd_at0 by lens. rewrite from_app by (now rewrite len_u64). now rewrite u64_rt.
Qed.

Lemma len_enc_segs segs : len (flat_map enc_seg segs) = 16 * len segs.
Proof.
  induction segs as [|[i m] t IH]; [reflexivity|]. cbn [flat_map enc_seg]. rewrite !len_app, !len_u64, IH, len_cons. lia.
Qed.

Lemma read_segs_rt segs : forall pre rest k acc,
  forallb (fun s => u64ok (fst s) && u64ok (snd s)) segs = true -> (length segs <= k)%nat ->
  read_segs k (len segs) (pre ++ flat_map enc_seg segs ++ rest) (len pre) acc
  = WOk (rev acc ++ segs, len pre + 16 * len segs).
Proof.
  induction segs as [|[i m] t IH]; intros pre rest k acc Hok Hk.
  - destruct k; cbn [read_segs len length N.of_nat N.eqb]; rewrite app_nil_r; f_equal; f_equal; lia.
  - destruct k as [|k]; [cbn in Hk; lia|]. cbn [forallb fst snd] in Hok.
    apply andb_prop in Hok as [Him Hok]. apply andb_prop in Him as [Hi Hm].
    cbn [read_segs]. rewrite len_cons. destruct (1 + len t =? 0) eqn:E; [lia|].
    cbn [flat_map enc_seg]. rewrite <- !app_assoc.
    rewrite (rd_at pre (u64 i)) by (rewrite ?len_u64; reflexivity).
    rewrite (app_assoc pre (u64 i)).
    rewrite (rd_at (pre ++ u64 i) (u64 m)) by (rewrite ?len_app, ?len_u64; reflexivity).
    rewrite (app_assoc (pre ++ u64 i) (u64 m)).
    replace (1 + len t - 1) with (len t) by lia.
    replace (len pre + 16) with (len ((pre ++ u64 i) ++ u64 m)) by (rewrite !len_app, !len_u64; lia).
    rewrite IH; [|exact Hok|cbn in Hk; lia].
    rewrite !u64_rt by assumption. cbn [rev]. rewrite <- app_assoc. cbn [app].
    f_equal. f_equal. rewrite !len_app, !len_u64. lia.
Qed.

Lemma manifest_check16 : wal_manifest_tail_check = 16. Proof. reflexivity. Qed.

Lemma rt_manifest e segs pr sr : wf_rec (WManifestSwitch e segs pr sr) = true ->
  decode_body (encode_body (WManifestSwitch e segs pr sr)) = WOk (WManifestSwitch e segs pr sr).
Proof.
  intros H. cbn [wf_rec] in H.
  apply andb_prop in H as [H Hsr]. apply andb_prop in H as [H Hpr]. apply andb_prop in H as [H Hsegs].
  apply andb_prop in H as [He Hl]. assert (Hl' : len segs < 4294967296) by lia.
  cbn [encode_body]. unfold decode_body. tagw. cbn [negb].
  set (p := u64 e ++ u32 (len segs) ++ flat_map enc_seg segs ++ u64 pr ++ u64 sr).
  assert (Hp : len p = 28 + 16 * len segs).
  { unfold p. rewrite !len_app, !len_u64, len_u32, len_enc_segs. lia. }
  rewrite Hp. destruct (28 + 16 * len segs <? 28) eqn:E; [lia|].
  unfold p at 1. rewrite rd_at0 by lens. unfold p at 1. rewrite rd_at by lens.
  rewrite (u32_rt (len segs)) by (unfold u32ok; exact Hl). cbv zeta. rewrite manifest_check16.
  destruct (28 + 16 * len segs <? 12 + len segs * 16 + 16) eqn:E2; [lia|].
  assert (Hrs : read_segs (S (length p)) (len segs) p 12 [] = WOk (segs, 12 + 16 * len segs)).
  { unfold p at 2. rewrite (app_assoc (u64 e)).
    replace 12 with (len (u64 e ++ u32 (len segs))) by (rewrite len_app, len_u64, len_u32; reflexivity).
    rewrite read_segs_rt; [reflexivity|exact Hsegs|]. unfold len in Hp. lia. }
  rewrite Hrs.
  assert (Hsplit : p = (u64 e ++ u32 (len segs) ++ flat_map enc_seg segs) ++ u64 pr ++ u64 sr).
  { unfold p. now rewrite <- !app_assoc. }
  rewrite Hsplit.
  rewrite (rd_at (u64 e ++ u32 (len segs) ++ flat_map enc_seg segs) (u64 pr) (u64 sr))
    by (rewrite ?len_app, ?len_u64, ?len_u32, ?len_enc_segs; lia).
  rewrite (app_assoc (u64 e ++ u32 (len segs) ++ flat_map enc_seg segs) (u64 pr)).
  rewrite rd_last by (rewrite ?len_app, ?len_u64, ?len_u32, ?len_enc_segs; lia).
  now rewrite !u64_rt.
Qed.

Theorem wal_roundtrip r : wf_rec r = true -> decode_body (encode_body r) = WOk r.
Proof.
  destruct r; intros H.
  - now apply rt_begin. - now apply rt_commit. - now apply rt_page_write. - now apply rt_page_free.
  - now apply rt_create_label. - now apply rt_create_node. - now apply rt_add_label. - now apply rt_remove_label.
  - now apply rt_create_edge. - now apply rt_tomb_node. - now apply rt_tomb_edge. - now apply rt_manifest.
  - now apply rt_checkpoint. - now apply rt_set_node_prop. - now apply rt_set_edge_prop.
  - now apply rt_remove_node_prop. - now apply rt_remove_edge_prop.
Qed.
