(* Store/Backup_proofs.v — proofs about Store/Backup.v (C29) *)
From NDB Require Import Store.Backup.
From Coq Require Import Lia ZifyBool ZifyN ZifyNat.
Open Scope N_scope.

(* quiescent backup (no writer step between the two copies): the restored files are the source files *)
Theorem backup_quiescent_files : forall steps i,
  restore (backup steps i i) = apply_steps disk_empty (firstn i steps).
Proof. intros steps i. unfold restore, backup. destruct (apply_steps disk_empty (firstn i steps)); reflexivity. Qed.

Theorem backup_quiescent_dump : forall steps i,
  content (restore (backup steps i i)) = content (apply_steps disk_empty (firstn i steps)).
Proof. intros. rewrite backup_quiescent_files. reflexivity. Qed.

(* ---- the writer keeps every committed transaction visible at every operation boundary ---- *)
Definition refs_present (pages : list (N * N)) (refs : list (N * N)) : Prop :=
  forall id c, In (id, c) refs -> page_lookup id pages = Some c.

Definition upto_of (s : wstate) : N := w_next_tx s - 1 - N.of_nat (length (w_pending s)).

Record inv (s : wstate) (d : disk) : Prop := {
  inv_manifest : last_manifest (d_log d) mf0 = (w_refs s, fst (w_prop s), w_sunk s, upto_of s);
  inv_refs : refs_present (d_pages d) (w_refs s);
  inv_prop : fst (w_prop s) <> 0 -> page_lookup (fst (w_prop s)) (d_pages d) = Some (snd (w_prop s));
  inv_prop0 : fst (w_prop s) = 0 -> snd (w_prop s) = 0;
  inv_prop_below : fst (w_prop s) < w_next_page s;
  inv_prop_notref : forall c, ~ In (fst (w_prop s), c) (w_refs s);
  inv_pages_below : forall id c, In (id, c) (d_pages d) -> id < w_next_page s;
  inv_refs_below : forall id c, In (id, c) (w_refs s) -> id < w_next_page s;
  inv_log : filter (fun t => upto_of s <? t) (log_txs (d_log d)) = w_pending s;
  inv_pending : forall t, In t (w_pending s) -> t < w_next_tx s;
  inv_tx_pos : 1 <= w_next_tx s /\ N.of_nat (length (w_pending s)) <= w_next_tx s - 1;
  inv_log_below : forall t, In t (log_txs (d_log d)) -> t < w_next_tx s;
  inv_labels : log_labels (d_log d) = w_labels s
}.

Lemma last_manifest_app : forall a b acc, last_manifest (a ++ b) acc = last_manifest b (last_manifest a acc).
Proof. induction a as [|[t|l|rf p s u] a IH]; intros; cbn [app last_manifest]; auto. Qed.

Lemma log_txs_app : forall a b, log_txs (a ++ b) = log_txs a ++ log_txs b.
Proof. induction a as [|[t|l|rf p s u] a IH]; intros; cbn [app log_txs]; rewrite ?IH; auto. Qed.

Lemma log_labels_app : forall a b, log_labels (a ++ b) = log_labels a ++ log_labels b.
Proof. induction a as [|[t|l|rf p s u] a IH]; intros; cbn [app log_labels]; rewrite ?IH; auto. Qed.

Lemma apply_steps_app : forall a b d, apply_steps d (a ++ b) = apply_steps (apply_steps d a) b.
Proof. intros. unfold apply_steps. apply fold_left_app. Qed.

Lemma content_of_inv : forall s d, inv s d -> content d = Some (committed s).
Proof.
  intros s d I. unfold content. rewrite (inv_manifest _ _ I).
  replace (forallb _ (w_refs s)) with true.
  - rewrite (inv_log _ _ I), (inv_labels _ _ I). unfold committed.
    destruct (fst (w_prop s) =? 0) eqn:Z.
    + apply N.eqb_eq in Z. rewrite (inv_prop0 _ _ I Z). reflexivity.
    + apply N.eqb_neq in Z. rewrite (inv_prop _ _ I Z). reflexivity.
  - symmetry. apply forallb_forall. intros [id c] Hin. rewrite (inv_refs _ _ I id c Hin). apply N.eqb_refl.
Qed.

Lemma inv_new : inv wstate_new disk_empty.
Proof.
  constructor; unfold upto_of; cbn [wstate_new disk_empty w_refs w_sunk w_next_tx w_pending w_next_page w_prop w_labels d_log d_pages length last_manifest log_txs log_labels filter fst snd].
  - reflexivity.
  - intros id c [].
  - intro H. exfalso. apply H. reflexivity.
  - reflexivity.
  - lia.
  - intros c [].
  - intros id c [].
  - intros id c [].
  - reflexivity.
  - intros t [].
  - cbn. lia.
  - intros t [].
  - reflexivity.
Qed.

Lemma page_lookup_skip : forall l pages id,
  (forall c, ~ In (id, c) l) -> page_lookup id (l ++ pages) = page_lookup id pages.
Proof.
  induction l as [|[i c] t IH]; intros pages id H; [reflexivity|].
  cbn [app page_lookup]. destruct (i =? id) eqn:Ei.
  - apply N.eqb_eq in Ei. subst i. exfalso. apply (H c). left. reflexivity.
  - apply IH. intros c' Hin. apply (H c'). right. exact Hin.
Qed.

Lemma page_lookup_fresh_app : forall np pages id,
  (forall c, ~ In (id, c) np) -> page_lookup id (rev np ++ pages) = page_lookup id pages.
Proof.
  intros np pages id H. apply page_lookup_skip. intros c Hin. apply (H c). apply in_rev. exact Hin.
Qed.

Lemma fresh_pages_ids : forall n start id c, In (id, c) (fresh_pages start n) -> start <= id /\ id < start + N.of_nat n /\ c = id + 1000.
Proof.
  induction n as [|k IH]; intros start id c H; cbn [fresh_pages In] in H; [contradiction|].
  destruct H as [H|H]; [inversion H; subst; lia|]. destruct (IH _ _ _ H) as [A [B C]]. lia.
Qed.

Lemma fresh_pages_lookup : forall n start id c pages, In (id, c) (fresh_pages start n) ->
  page_lookup id (rev (fresh_pages start n) ++ pages) = Some c.
Proof.
  induction n as [|k IH]; intros start id c pages H; cbn [fresh_pages In] in H; [contradiction|].
  cbn [fresh_pages rev]. rewrite <- app_assoc. cbn [app].
  destruct H as [H|H].
  - inversion H; subst. rewrite page_lookup_fresh_app.
    + cbn [page_lookup]. rewrite N.eqb_refl. reflexivity.
    + intros c' Hin. apply fresh_pages_ids in Hin. lia.
  - exact (IH _ _ _ _ H).
Qed.

Lemma apply_pages : forall np d,
  apply_steps d (map (fun '(id, c) => SPage id c) np) = {| d_pages := rev np ++ d_pages d; d_log := d_log d |}.
Proof.
  induction np as [|[id c] t IH]; intros d; [destruct d; reflexivity|].
  cbn [map]. unfold apply_steps in *. cbn [fold_left]. rewrite IH. cbn [apply_step d_pages d_log rev].
  rewrite <- app_assoc. reflexivity.
Qed.

Lemma filter_none : forall (f : N -> bool) l, (forall x, In x l -> f x = false) -> filter f l = [].
Proof. induction l as [|x t IH]; intros H; cbn [filter]; [reflexivity|]. rewrite (H x (or_introl eq_refl)). apply IH. intros y Hy. apply H. right. exact Hy. Qed.

Lemma log_labels_map : forall ls, log_labels (map LLabel ls) = ls.
Proof. induction ls as [|x t IH]; cbn [map log_labels]; [reflexivity|]. rewrite IH. reflexivity. Qed.
Lemma log_txs_map_label : forall ls, log_txs (map LLabel ls) = [].
Proof. induction ls as [|x t IH]; cbn [map log_txs]; auto. Qed.
Lemma last_manifest_map_label : forall ls acc, last_manifest (map LLabel ls) acc = acc.
Proof. induction ls as [|x t IH]; intros; cbn [map last_manifest]; auto. Qed.

Lemma page_lookup_cons_other : forall id pid v pages, id <> pid -> page_lookup id ((pid, v) :: pages) = page_lookup id pages.
Proof. intros. cbn [page_lookup]. destruct (pid =? id) eqn:E; [apply N.eqb_eq in E; congruence|reflexivity]. Qed.

Lemma inv_step : forall s d o steps s', inv s d -> wsteps s o = (steps, s') -> inv s' (apply_steps d steps).
Proof.
  intros s d o steps s' I H. pose proof (inv_tx_pos _ _ I) as [P1 P2].
  destruct o as [| |k|]; cbn [wsteps] in H.
  - (* commit *)
    inversion H; subst steps s'; clear H. unfold apply_steps. cbn [fold_left apply_step].
    constructor; unfold upto_of; cbn [d_log d_pages w_refs w_sunk w_next_tx w_pending w_next_page w_prop w_labels].
    + rewrite last_manifest_app. cbn [last_manifest]. rewrite (inv_manifest _ _ I). unfold upto_of. rewrite app_length. cbn [length]. f_equal. lia.
    + exact (inv_refs _ _ I).
    + exact (inv_prop _ _ I).
    + exact (inv_prop0 _ _ I).
    + exact (inv_prop_below _ _ I).
    + exact (inv_prop_notref _ _ I).
    + exact (inv_pages_below _ _ I).
    + exact (inv_refs_below _ _ I).
    + rewrite log_txs_app, filter_app. cbn [log_txs filter]. rewrite app_length. cbn [length].
      replace (w_next_tx s + 1 - 1 - N.of_nat (length (w_pending s) + 1)) with (upto_of s) by (unfold upto_of; lia).
      rewrite (inv_log _ _ I).
      assert ((upto_of s <? w_next_tx s) = true) as -> by (unfold upto_of; lia). reflexivity.
    + intros t Hin. apply in_app_or in Hin. destruct Hin as [Hin|[Hin|[]]]; [pose proof (inv_pending _ _ I t Hin); lia|lia].
    + rewrite app_length. cbn [length]. lia.
    + intros t Hin. rewrite log_txs_app in Hin. apply in_app_or in Hin. cbn [log_txs In] in Hin.
      destruct Hin as [Hin|[Hin|[]]]; [pose proof (inv_log_below _ _ I t Hin); lia|lia].
    + rewrite log_labels_app. cbn [log_labels]. rewrite app_nil_r. exact (inv_labels _ _ I).
  - (* label *)
    inversion H; subst steps s'; clear H. unfold apply_steps. cbn [fold_left apply_step].
    constructor; unfold upto_of; cbn [d_log d_pages w_refs w_sunk w_next_tx w_pending w_next_page w_prop w_labels].
    + rewrite last_manifest_app. cbn [last_manifest]. exact (inv_manifest _ _ I).
    + exact (inv_refs _ _ I).
    + exact (inv_prop _ _ I).
    + exact (inv_prop0 _ _ I).
    + exact (inv_prop_below _ _ I).
    + exact (inv_prop_notref _ _ I).
    + exact (inv_pages_below _ _ I).
    + exact (inv_refs_below _ _ I).
    + rewrite log_txs_app. cbn [log_txs]. rewrite app_nil_r. exact (inv_log _ _ I).
    + exact (inv_pending _ _ I).
    + exact (conj P1 P2).
    + intros t Hin. rewrite log_txs_app in Hin. cbn [log_txs] in Hin. rewrite app_nil_r in Hin. exact (inv_log_below _ _ I t Hin).
    + rewrite log_labels_app. cbn [log_labels]. rewrite (inv_labels _ _ I). reflexivity.
  - (* compact *)
    destruct (w_pending s) as [|p0 pt] eqn:Ep.
    { inversion H; subst steps s'. exact I. }
    remember (fresh_pages (w_next_page s) (S k)) as np eqn:Enp.
    remember (N.of_nat (S k)) as nk eqn:Enk.
    assert (Hnk : 1 <= nk) by lia.
    pose proof (inv_prop_below _ _ I) as Pb.
    destruct (fst (w_prop s) =? 0) eqn:Zp.
    + (* first compaction with properties: the tree gets a fresh page *)
      apply N.eqb_eq in Zp.
      inversion H; subst steps s'; clear H.
      rewrite apply_steps_app, apply_pages. unfold apply_steps. cbn [app fold_left apply_step d_pages d_log fst snd].
      constructor; unfold upto_of; cbn [d_log d_pages w_refs w_sunk w_next_tx w_pending w_next_page w_prop w_labels length fst snd].
      * rewrite last_manifest_app. cbn [last_manifest]. f_equal. lia.
      * intros id c Hin. assert (id <> w_next_page s + nk).
        { apply in_app_or in Hin. destruct Hin as [Hin|Hin]; [subst np; apply fresh_pages_ids in Hin; lia|pose proof (inv_refs_below _ _ I id c Hin); lia]. }
        rewrite page_lookup_cons_other by assumption.
        apply in_app_or in Hin. destruct Hin as [Hin|Hin].
        -- subst np. apply fresh_pages_lookup. exact Hin.
        -- rewrite page_lookup_fresh_app; [exact (inv_refs _ _ I id c Hin)|].
           intros c' Hin'. subst np. apply fresh_pages_ids in Hin'. pose proof (inv_refs_below _ _ I id c Hin). lia.
      * intros _. cbn [page_lookup]. rewrite N.eqb_refl. reflexivity.
      * intro X. lia.
      * lia.
      * intros c Hin. apply in_app_or in Hin. destruct Hin as [Hin|Hin]; [subst np; apply fresh_pages_ids in Hin; lia|pose proof (inv_refs_below _ _ I _ c Hin); lia].
      * intros id c [Hin|Hin]; [inversion Hin; subst; lia|]. apply in_app_or in Hin. destruct Hin as [Hin|Hin].
        -- apply in_rev in Hin. subst np. apply fresh_pages_ids in Hin. lia.
        -- pose proof (inv_pages_below _ _ I id c Hin). lia.
      * intros id c Hin. apply in_app_or in Hin. destruct Hin as [Hin|Hin].
        -- subst np. apply fresh_pages_ids in Hin. lia.
        -- pose proof (inv_refs_below _ _ I id c Hin). lia.
      * rewrite log_txs_app. cbn [log_txs]. rewrite app_nil_r. apply filter_none.
        intros t Hin. pose proof (inv_log_below _ _ I t Hin). lia.
      * intros t [].
      * lia.
      * intros t Hin. rewrite log_txs_app in Hin. cbn [log_txs] in Hin. rewrite app_nil_r in Hin. exact (inv_log_below _ _ I t Hin).
      * rewrite log_labels_app. cbn [log_labels]. rewrite app_nil_r. exact (inv_labels _ _ I).
    + (* later compactions: the property root is rewritten in place *)
      apply N.eqb_neq in Zp.
      inversion H; subst steps s'; clear H.
      rewrite apply_steps_app, apply_pages. unfold apply_steps. cbn [app fold_left apply_step d_pages d_log fst snd].
      constructor; unfold upto_of; cbn [d_log d_pages w_refs w_sunk w_next_tx w_pending w_next_page w_prop w_labels length fst snd].
      * rewrite last_manifest_app. cbn [last_manifest]. f_equal. lia.
      * intros id c Hin. assert (id <> fst (w_prop s)).
        { apply in_app_or in Hin. destruct Hin as [Hin|Hin]; [subst np; apply fresh_pages_ids in Hin; lia|].
          intro X. subst id. exact (inv_prop_notref _ _ I c Hin). }
        rewrite page_lookup_cons_other by assumption.
        apply in_app_or in Hin. destruct Hin as [Hin|Hin].
        -- subst np. apply fresh_pages_lookup. exact Hin.
        -- rewrite page_lookup_fresh_app; [exact (inv_refs _ _ I id c Hin)|].
           intros c' Hin'. subst np. apply fresh_pages_ids in Hin'. pose proof (inv_refs_below _ _ I id c Hin). lia.
      * intros _. cbn [page_lookup]. rewrite N.eqb_refl. reflexivity.
      * intro X. contradiction.
      * lia.
      * intros c Hin. apply in_app_or in Hin. destruct Hin as [Hin|Hin]; [subst np; apply fresh_pages_ids in Hin; lia|exact (inv_prop_notref _ _ I c Hin)].
      * intros id c [Hin|Hin]; [inversion Hin; subst; lia|]. apply in_app_or in Hin. destruct Hin as [Hin|Hin].
        -- apply in_rev in Hin. subst np. apply fresh_pages_ids in Hin. lia.
        -- pose proof (inv_pages_below _ _ I id c Hin). lia.
      * intros id c Hin. apply in_app_or in Hin. destruct Hin as [Hin|Hin].
        -- subst np. apply fresh_pages_ids in Hin. lia.
        -- pose proof (inv_refs_below _ _ I id c Hin). lia.
      * rewrite log_txs_app. cbn [log_txs]. rewrite app_nil_r. apply filter_none.
        intros t Hin. pose proof (inv_log_below _ _ I t Hin). lia.
      * intros t [].
      * lia.
      * intros t Hin. rewrite log_txs_app in Hin. cbn [log_txs] in Hin. rewrite app_nil_r in Hin. exact (inv_log_below _ _ I t Hin).
      * rewrite log_labels_app. cbn [log_labels]. rewrite app_nil_r. exact (inv_labels _ _ I).
  - (* close *)
    destruct (w_pending s) as [|p0 pt] eqn:Ep.
    2: { inversion H; subst steps s'. exact I. }
    inversion H; subst steps s'; clear H. unfold apply_steps. cbn [fold_left apply_step].
    constructor; unfold upto_of; rewrite ?Ep; cbn [d_log d_pages length].
    + rewrite last_manifest_app, last_manifest_map_label. cbn [last_manifest]. f_equal. lia.
    + exact (inv_refs _ _ I).
    + exact (inv_prop _ _ I).
    + exact (inv_prop0 _ _ I).
    + exact (inv_prop_below _ _ I).
    + exact (inv_prop_notref _ _ I).
    + exact (inv_pages_below _ _ I).
    + exact (inv_refs_below _ _ I).
    + rewrite log_txs_app, log_txs_map_label. reflexivity.
    + intros t [].
    + cbn. lia.
    + intros t Hin. rewrite log_txs_app, log_txs_map_label in Hin. destruct Hin.
    + rewrite log_labels_app, log_labels_map. cbn [log_labels]. apply app_nil_r.
Qed.

Lemma inv_plan : forall ops s d steps s', inv s d -> plan s ops = (steps, s') -> inv s' (apply_steps d steps).
Proof.
  induction ops as [|o t IH]; intros s d steps s' I H; cbn [plan] in H.
  - inversion H; subst. exact I.
  - destruct (wsteps s o) as [a s1] eqn:W. destruct (plan s1 t) as [b s2] eqn:P. inversion H; subst steps s'; clear H.
    rewrite apply_steps_app. apply (IH s1 _ b s2); [exact (inv_step _ _ _ _ _ I W)|exact P].
Qed.

(* backup of an idle database taken after the operations `before` (whatever follows): the restored database
   opens and shows exactly the transactions committed, the labels created and the property tree written before the backup *)
Theorem backup_quiescent : forall before after steps1 s1 steps2 s2,
  plan wstate_new before = (steps1, s1) -> plan s1 after = (steps2, s2) ->
  let steps := steps1 ++ steps2 in let i := length steps1 in
  content (restore (backup steps i i)) = Some (committed s1) /\
  content (restore (backup steps i i)) = content (apply_steps disk_empty (firstn i steps)).
Proof.
  intros before after steps1 s1 steps2 s2 P1 P2 steps i. split; [|apply backup_quiescent_dump].
  rewrite backup_quiescent_dump. unfold steps, i. rewrite firstn_app, Nat.sub_diag, firstn_all. cbn [firstn]. rewrite app_nil_r.
  apply content_of_inv. exact (inv_plan _ _ _ _ _ inv_new P1).
Qed.

Lemma committed_example : let '(steps, s) := plan wstate_new [WCommit; WLabel; WCommit; WCompact 1; WCommit; WCompact 0; WClose] in
  committed s = ([1; 2; 3], [0], 2) /\ content (apply_steps disk_empty steps) = Some ([1; 2; 3], [0], 2) /\ length steps = 12%nat.
Proof. vm_compute. repeat split; reflexivity. Qed.

(* ---- concurrent backup: refuted (K-C29-concurrent) ---- *)
(* commit, compact | page file copied here | commit, compact | log copied here *)
Definition concurrent_witness : list iostep := fst (plan wstate_new [WCommit; WCompact 0; WCommit; WCompact 0]).

Lemma backup_concurrent_refuted :
  content (restore (backup concurrent_witness 4 8)) = None /\
  consistent_at_some_moment concurrent_witness 4 8 = false /\
  content (apply_steps disk_empty (firstn 4 concurrent_witness)) = Some ([1], [], 1) /\
  content (apply_steps disk_empty (firstn 8 concurrent_witness)) = Some ([1; 2], [], 2).
Proof. vm_compute. repeat split; reflexivity. Qed.

(* the in-place property-tree write on its own: page file copied in the middle of the second compaction, after the
   root page was rewritten in place but before the manifest is logged: still the source at that moment (the log
   replays the pending transaction; the tree merely holds its properties already) *)
Lemma backup_mid_compaction_inplace :
  consistent_at_some_moment concurrent_witness 7 7 = true /\
  content (restore (backup concurrent_witness 7 7)) = Some ([1; 2], [], 2) /\
  (* ... whereas page file before the in-place write, log after the manifest: not even the segment pages are there *)
  content (restore (backup concurrent_witness 5 8)) = None.
Proof. vm_compute. repeat split; reflexivity. Qed.

(* a close-time log rewrite between the copies is harmless when nothing was compacted in between *)
Lemma backup_concurrent_close :
  let steps := fst (plan wstate_new [WCommit; WLabel; WCompact 0; WClose]) in
  consistent_at_some_moment steps 5 6 = true /\ content (restore (backup steps 5 6)) = Some ([1], [0], 1).
Proof. vm_compute. split; reflexivity. Qed.

(* ... but commit + compaction + close between the copies is the known class again *)
Lemma backup_concurrent_compact_close :
  let steps := fst (plan wstate_new [WCommit; WCompact 0; WCommit; WCompact 0; WClose]) in
  content (restore (backup steps 4 9)) = None.
Proof. vm_compute. reflexivity. Qed.

(* known class: a manifest switch of a compaction is logged between the two copies *)
Definition no_compaction (ops : list wop) : bool :=
  forallb (fun o => match o with WCompact _ => false | _ => true end) ops.

(* conditional (operation granularity): commits, label creations and close-time log rewrites between the two copies,
   but no compaction => the restored database is the source as of the moment the log was copied *)
Lemma plan_nocompact_pages : forall ops s steps s' d, no_compaction ops = true -> plan s ops = (steps, s') ->
  d_pages (apply_steps d steps) = d_pages d.
Proof.
  induction ops as [|o t IH]; intros s steps s' d Hc H; cbn [plan] in H.
  - inversion H; subst. reflexivity.
  - cbn [no_compaction forallb] in Hc. apply Bool.andb_true_iff in Hc. destruct Hc as [Ho Ht].
    destruct (wsteps s o) as [a s1] eqn:W. destruct (plan s1 t) as [b s2] eqn:P. inversion H; subst steps s'; clear H.
    rewrite apply_steps_app. rewrite (IH _ _ _ (apply_steps d a) Ht P).
    destruct o as [| |k|]; try discriminate; cbn [wsteps] in W.
    + inversion W; subst. reflexivity.
    + inversion W; subst. reflexivity.
    + destruct (w_pending s); inversion W; subst; reflexivity.
Qed.

Theorem backup_concurrent_nocompact : forall before between steps1 s1 steps2 s2,
  plan wstate_new before = (steps1, s1) -> plan s1 between = (steps2, s2) -> no_compaction between = true ->
  let steps := steps1 ++ steps2 in
  content (restore (backup steps (length steps1) (length steps))) = Some (committed s2) /\
  content (restore (backup steps (length steps1) (length steps))) = content (apply_steps disk_empty steps).
Proof.
  intros before between steps1 s1 steps2 s2 P1 P2 Hc steps.
  assert (Hb : restore (backup steps (length steps1) (length steps)) = apply_steps disk_empty steps).
  { unfold restore, backup, steps. rewrite firstn_all.
    rewrite firstn_app, Nat.sub_diag, firstn_all. cbn [firstn]. rewrite app_nil_r.
    rewrite apply_steps_app.
    pose proof (plan_nocompact_pages _ _ _ _ (apply_steps disk_empty steps1) Hc P2) as Hp.
    destruct (apply_steps (apply_steps disk_empty steps1) steps2) as [pg lg] eqn:E.
    cbn [d_pages d_log] in *. rewrite Hp. reflexivity. }
  rewrite Hb. split; [|reflexivity].
  apply content_of_inv. unfold steps. rewrite apply_steps_app.
  apply (inv_plan between s1 _ steps2 s2); [exact (inv_plan _ _ _ _ _ inv_new P1)|exact P2].
Qed.
