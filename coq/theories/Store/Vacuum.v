(* Store/Vacuum.v — MODEL of nervusdb-storage/src/vacuum.rs over a page heap:
   the reachability marking (`mark`, in the code's order, with the code's shared visited set and its
   error cases), the copy (`vacuum`), the CSR segment meta page as *bytes* parsed with the constants
   vacuum.rs uses and, separately, with the constants csr.rs uses when it loads a segment, and
   readers as programs that read pages (`reader`, `run`, `rooted`).  Proofs: Vacuum_proofs.v. *)
From NDB Require Export Store.Pager.
Open Scope N_scope.

(* ---- pages, as the different structures interpret them ---- *)
Inductive btnode :=
| BtLeaf (right : N) (payloads : list N)
| BtInternal (right leftmost : N) (children : list N).

Record praw := {
  p_bt : option btnode;     (* index/btree.rs view (None: bad magic/version/kind) *)
  p_blob_next : N;          (* blob_store.rs view: bytes 0..8 *)
  p_blob_len : N;           (*                      bytes 8..10 *)
  p_csr : bytes             (* csr.rs view: the leading bytes of the page (header + page-id lists) *)
}.

(* allocated data pages of the file: id -> content.  Absent = not allocated / not readable. *)
Definition heap := list (N * praw).

Fixpoint lookup (id : N) (h : heap) : option praw :=
  match h with
  | [] => None
  | (i, p) :: t => if i =? id then Some p else lookup id t
  end.

(* Pager::read_page: only allocated data pages below BITMAP_BITS *)
Definition read_page (h : heap) (id : N) : option praw :=
  if valid_data_page id then lookup id h else None.

Fixpoint mem (x : N) (l : list N) : bool :=
  match l with [] => false | y :: t => (x =? y) || mem x t end.
Definition insert (x : N) (l : list N) : list N := if mem x l then l else x :: l.

(* ---- CSR segment meta page ---- *)
(* page ids listed in a segment meta page: `nlists` u32 counts at `counts_off`, ids from `hdr` on *)
Fixpoint sum_counts (b : bytes) (off : N) (n : nat) : N :=
  match n with O => 0 | S k => field off 4 b + sum_counts b (off + 4) k end.
Fixpoint read_ids (b : bytes) (off : N) (n : nat) : list N :=
  match n with O => [] | S k => field off 8 b :: read_ids b (off + 8) k end.
Definition csr_parse (magic : bytes) (counts_off nlists hdr : N) (b : bytes) : res (list N) :=
  if negb (bytes_eqb (slice 0 8 b) magic) then Err else
  let total := sum_counts b counts_off (N.to_nat nlists) in
  if page_size <? hdr + total * 8 then Err else
  Ok (read_ids b hdr (N.to_nat total)).
(* what vacuum.rs mark_csr_segment_pages marks ... *)
Definition csr_pages_vacuum : bytes -> res (list N) :=
  csr_parse csr_magic_vacuum csr_counts_off_vacuum csr_nlists_vacuum csr_hdr_vacuum.
(* ... and what csr.rs decode_segment reads when the engine loads the segment *)
Definition csr_pages_load : bytes -> res (list N) :=
  csr_parse csr_magic_written csr_counts_off_decode csr_nlists_decode csr_hdr_decode.

(* ---- roots ---- *)
Record roots := {
  r_i2e_start : N; r_i2e_len : N;            (* meta page *)
  r_catalog : N;                             (* meta page *)
  r_cat_entries : option (list (bool * N));  (* catalog page decoded, in name order: (payloads are blob ids?, root); None = undecodable *)
  r_props : N; r_stats : N; r_segments : list N   (* from the log: current manifest *)
}.

Definition records_per_page : N := page_size / i2e_record_size.
Definition vac_records_per_page : N := page_size / vac_i2e_record_size.
Definition div_ceil (a b : N) : N := (a + b - 1) / b.

Fixpoint range (start : N) (n : nat) : list N :=
  match n with O => [] | S k => start :: range (N.succ start) k end.

(* pages vacuum keeps for the node table *)
Definition idmap_pages_vacuum (r : roots) : list N :=
  if (r_i2e_start r =? 0) || (r_i2e_len r =? 0) then []
  else range (r_i2e_start r) (N.to_nat (div_ceil (r_i2e_len r) vac_records_per_page)).

(* ---- the marking ---- *)
Definition nz (l : list N) : list N := filter (fun x => negb (x =? 0)) l.

(* BTree::mark_reachable_pages: BFS; `vis` is the caller's set (shared between all traversals) *)
Fixpoint bt_mark (fuel : nat) (h : heap) (queue vis pl : list N) : res (list N * list N) :=
  match fuel with
  | O => OutOfFuel
  | S f =>
    match queue with
    | [] => Ok (vis, pl)
    | p :: q =>
      if mem p vis then bt_mark f h q vis pl else
      match read_page h p with
      | None => Err
      | Some pg =>
        match p_bt pg with
        | None => Err
        | Some (BtLeaf rsib pls) => bt_mark f h (q ++ nz [rsib]) (p :: vis) (pl ++ pls)
        | Some (BtInternal rsib lft ch) =>
            if (lft =? 0) || existsb (N.eqb 0) ch then Err
            else bt_mark f h (q ++ nz [rsib] ++ lft :: ch) (p :: vis) pl
        end
      end
    end
  end.

Definition max_blob_data : N := page_size - vac_blob_header_size.

(* mark_blob_chain: a page seen before is an error ("cycle detected") *)
Fixpoint blob_mark (fuel : nat) (h : heap) (id : N) (vis : list N) : res (list N) :=
  match fuel with
  | O => OutOfFuel
  | S f =>
    if id =? 0 then Ok vis else
    if mem id vis then Err else
    match read_page h id with
    | None => Err
    | Some pg => if max_blob_data <? p_blob_len pg then Err else blob_mark f h (p_blob_next pg) (id :: vis)
    end
  end.

Fixpoint blobs_mark (fuel : nat) (h : heap) (ids : list N) (vis : list N) : res (list N) :=
  match ids with
  | [] => Ok vis
  | id :: t => match blob_mark fuel h id vis with Ok v => blobs_mark fuel h t v | e => e end
  end.

(* one tree: payloads are followed as blob chains iff `collect` *)
Definition tree_mark (fuel : nat) (h : heap) (collect : bool) (root : N) (vis : list N) : res (list N) :=
  if root =? 0 then Ok vis else
  match bt_mark fuel h [root] vis [] with
  | Ok (v, pl) => if collect then blobs_mark fuel h pl v else Ok v
  | Err => Err
  | OutOfFuel => OutOfFuel
  end.

Fixpoint trees_mark (fuel : nat) (h : heap) (es : list (bool * N)) (vis : list N) : res (list N) :=
  match es with
  | [] => Ok vis
  | (c, root) :: t => match tree_mark fuel h c root vis with Ok v => trees_mark fuel h t v | e => e end
  end.

Fixpoint segs_mark (h : heap) (segs : list N) (vis : list N) : res (list N) :=
  match segs with
  | [] => Ok vis
  | m :: t =>
    if m =? 0 then segs_mark h t vis else
    match read_page h m with
    | None => Err
    | Some pg => match csr_pages_vacuum (p_csr pg) with
                 | Ok ids => segs_mark h t (fold_left (fun v x => insert x v) (nz ids) (insert m vis))
                 | Err => Err
                 | OutOfFuel => OutOfFuel
                 end
    end
  end.

(* enough for every traversal: each page is expanded at most once, each expansion queues its links *)
Definition links (p : praw) : nat :=
  match p_bt p with Some (BtLeaf _ pls) => 2 + length pls | Some (BtInternal _ _ ch) => 3 + length ch | None => 2 end.
Definition fuel_of (h : heap) : nat := 4 + fold_right (fun '(_, p) acc => links p + acc)%nat 0%nat h.

(* mark_reachable_pages *)
Definition mark (h : heap) (r : roots) : res (list N) :=
  let fuel := fuel_of h in
  let v0 := [1; 0] in
  let v1 := fold_left (fun v x => insert x v) (idmap_pages_vacuum r) v0 in
  let v2 := if r_catalog r =? 0 then v1 else insert (r_catalog r) v1 in
  let after_catalog :=
    if r_catalog r =? 0 then Ok v2 else
    match read_page h (r_catalog r) with
    | None => Err
    | Some _ => match r_cat_entries r with None => Err | Some es => trees_mark fuel h es v2 end
    end in
  match after_catalog with
  | Ok v3 =>
    match tree_mark fuel h true (r_props r) v3 with
    | Ok v4 => match blob_mark fuel h (r_stats r) v4 with
               | Ok v5 => segs_mark h (r_segments r) v5
               | e => e end
    | e => e end
  | e => e
  end.

(* Pager::write_vacuum_copy: every kept data page is read (must be allocated, below BITMAP_BITS) *)
Definition copy_ok (h : heap) (vis : list N) : bool :=
  forallb (fun p => (p <? first_data_page_id) || match read_page h p with Some _ => true | None => false end) vis.

Definition restrict (h : heap) (vis : list N) : heap := filter (fun '(id, _) => mem id vis) h.

(* vacuum_in_place: the kept page set and the new heap *)
Definition vacuum (h : heap) (r : roots) : res (list N * heap) :=
  match mark h r with
  | Ok vis => if copy_ok h vis then Ok (vis, restrict h vis) else Err
  | Err => Err
  | OutOfFuel => OutOfFuel
  end.

(* ---- readers: programs that read pages ---- *)
Inductive reader (A : Type) :=
| Ret (a : A)
| Read (id : N) (k : option praw -> reader A).
Arguments Ret {A} a. Arguments Read {A} id k.

Fixpoint run_reader {A} (h : heap) (r : reader A) : A :=
  match r with
  | Ret a => a
  | Read id k => run_reader h (k (read_page h id))
  end.

(* the pages a reader touches on a given heap *)
Fixpoint touched {A} (h : heap) (r : reader A) : list N :=
  match r with
  | Ret _ => []
  | Read id k => id :: touched h (k (read_page h id))
  end.

(* ---- the read closure: what open + reads can reach by following pointers from the roots ---- *)
Inductive kind := KRaw | KBt (collect : bool) | KBlob | KCsr.

Definition kind_eqb (a b : kind) : bool :=
  match a, b with
  | KRaw, KRaw | KBlob, KBlob | KCsr, KCsr => true
  | KBt x, KBt y => Bool.eqb x y
  | _, _ => false
  end.

(* pointers of page `id` when it is read as a page of kind `k` *)
Definition succs (h : heap) (k : kind) (id : N) : list (kind * N) :=
  match read_page h id with
  | None => []
  | Some pg =>
    match k with
    | KRaw => []
    | KBt c =>
      match p_bt pg with
      | Some (BtLeaf rsib pls) => map (pair (KBt c)) (nz [rsib]) ++ (if c then map (pair KBlob) (nz pls) else [])
      | Some (BtInternal rsib lft ch) => map (pair (KBt c)) (nz [rsib] ++ lft :: ch)
      | None => []
      end
    | KBlob => map (pair KBlob) (nz [p_blob_next pg])
    | KCsr => match csr_pages_load (p_csr pg) with Ok ids => map (pair KRaw) (nz ids) | _ => [] end
    end
  end.

(* node-table pages the engine reads: i2e_location start n for n < len *)
Definition idmap_pages_load (r : roots) : list N :=
  if (r_i2e_start r =? 0) || (r_i2e_len r =? 0) then []
  else range (r_i2e_start r) (N.to_nat (div_ceil (r_i2e_len r) records_per_page)).

Definition root_items (r : roots) : list (kind * N) :=
  [(KRaw, 0); (KRaw, 1)] ++ map (pair KRaw) (idmap_pages_load r) ++
  (if r_catalog r =? 0 then [] else
     (KRaw, r_catalog r) :: match r_cat_entries r with
                            | Some es => map (fun '(c, root) => (KBt c, root)) (filter (fun '(_, root) => negb (root =? 0)) es)
                            | None => [] end) ++
  (if r_props r =? 0 then [] else [(KBt true, r_props r)]) ++
  (if r_stats r =? 0 then [] else [(KBlob, r_stats r)]) ++
  map (pair KCsr) (nz (r_segments r)).

Inductive reach (h : heap) (r : roots) : kind -> N -> Prop :=
| reach_root : forall k id, In (k, id) (root_items r) -> reach h r k id
| reach_step : forall k id k' id', reach h r k id -> In (k', id') (succs h k id) -> reach h r k' id'.

(* a reader is rooted when every page it reads is in the read closure *)
Definition rooted {A} (h : heap) (r : roots) (rd : reader A) : Prop :=
  forall id, In id (touched h rd) -> exists k, reach h r k id.

(* ---- executable certificate for one run: the read closure, computed and checked ---- *)
Definition memk (x : kind * N) (l : list (kind * N)) : bool :=
  existsb (fun y => kind_eqb (fst x) (fst y) && (snd x =? snd y)) l.

(* typed worklist closure (not trusted: its result is checked by `closed_items`) *)
Fixpoint typed_reach (fuel : nat) (h : heap) (queue seen : list (kind * N)) : list (kind * N) :=
  match fuel with
  | O => seen
  | S f =>
    match queue with
    | [] => seen
    | x :: q => if memk x seen then typed_reach f h q seen
                else typed_reach f h (q ++ succs h (fst x) (snd x)) (x :: seen)
    end
  end.

Definition closed_items (h : heap) (r : roots) (items : list (kind * N)) : bool :=
  forallb (fun x => memk x items) (root_items r) &&
  forallb (fun x => forallb (fun y => memk y items) (succs h (fst x) (snd x))) items.

(* `vis` covers everything open + reads can reach *)
Definition cert (h : heap) (r : roots) (vis : list N) : bool :=
  let items := typed_reach (8 * fuel_of h + length (root_items r)) h (root_items r) [] in
  closed_items h r items && forallb (fun x => mem (snd x) vis) items.
