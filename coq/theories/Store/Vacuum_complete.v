(* Store/Vacuum_complete.v — the marking of Store/Vacuum.v covers the read closure on well-typed heaps (C28) *)
From NDB Require Import Store.Pager Store.Vacuum Store.Vacuum_proofs.
From Coq Require Import Lia ZifyBool ZifyN ZifyNat.
Open Scope N_scope.

Lemma nz_In : forall x l, In x (nz l) <-> In x l /\ x <> 0.
Proof.
  intros x l. unfold nz. rewrite filter_In. split; intros [A B]; split; auto.
  - intro E. subst x. discriminate.
  - destruct (x =? 0) eqn:E; [apply N.eqb_eq in E; contradiction|reflexivity].
Qed.

Lemma insert_In : forall x y l, In x (insert y l) <-> x = y \/ In x l.
Proof.
  intros x y l. unfold insert. destruct (mem y l) eqn:E.
  - apply mem_In in E. split; [auto|]. intros [->|H]; auto.
  - cbn [In]. split; intros [H|H]; auto.
Qed.

Lemma fold_insert_In : forall l v x, In x (fold_left (fun v x => insert x v) l v) <-> In x l \/ In x v.
Proof.
  induction l as [|y t IH]; intros v x; cbn [fold_left In]; [tauto|].
  rewrite IH, insert_In. split; intros H; intuition.
Qed.

Section MarkComplete.
Variable ty : N -> kind.
Variable h : heap.
Hypothesis WT : forall p k' id', In (k', id') (succs h (ty p) p) -> ty id' = k'.

Definition closed (P vis : list N) : Prop :=
  forall p, In p vis -> forall k' id', In (k', id') (succs h (ty p) p) -> In id' vis \/ In id' P.

Lemma closed_weaken : forall P P' vis, closed P vis -> (forall x, In x P -> In x vis \/ In x P') -> closed P' vis.
Proof.
  intros P P' vis C H p Hp k' id' Hs. destruct (C p Hp k' id' Hs) as [A|A]; [left; exact A|exact (H _ A)].
Qed.

Lemma succs_raw : forall p, succs h KRaw p = [].
Proof. intros p. unfold succs. destruct (read_page h p); reflexivity. Qed.

Lemma in_map_pair : forall (K : kind) k' (id' : N) l, In (k', id') (map (pair K) l) -> k' = K /\ In id' l.
Proof. intros K k' id' l H. apply in_map_iff in H. destruct H as [x [E Hx]]. inversion E; subst. auto. Qed.

Lemma map_pair_in : forall (K : kind) (id' : N) l, In id' l -> In (K, id') (map (pair K) l).
Proof. intros. apply in_map_iff. exists id'. auto. Qed.

(* extending vis by a page whose successors are all pending keeps closedness *)
Lemma closed_add : forall p P vis Q,
  closed (p :: P) vis ->
  (forall k' id', In (k', id') (succs h (ty p) p) -> In id' (p :: vis) \/ In id' (Q ++ P)) ->
  closed (Q ++ P) (p :: vis).
Proof.
  intros p P vis Q C Hp p' Hin k' id' Hs. destruct Hin as [<-|Hin].
  - exact (Hp _ _ Hs).
  - destruct (C p' Hin k' id' Hs) as [A|[A|A]].
    + left. right. exact A.
    + left. left. exact A.
    + right. apply in_or_app. right. exact A.
Qed.

Lemma bt_mark_inv : forall c fuel queue vis pl vis' pl' P,
  bt_mark fuel h queue vis pl = Ok (vis', pl') ->
  (forall p, In p queue -> ty p = KBt c) ->
  closed (queue ++ (if c then nz pl else []) ++ P) vis ->
  (forall x, In x pl -> x <> 0 -> c = true -> ty x = KBlob) ->
  closed ((if c then nz pl' else []) ++ P) vis' /\ incl vis vis' /\ incl queue vis' /\
  (forall x, In x pl' -> x <> 0 -> c = true -> ty x = KBlob).
Proof.
  intros c. induction fuel as [|f IH]; intros queue vis pl vis' pl' P H Tq C Tp; cbn [bt_mark] in H; [discriminate|].
  destruct queue as [|p q].
  - inversion H; subst. cbn [app] in C. repeat split; auto using incl_refl. intros x [].
  - destruct (mem p vis) eqn:M.
    + apply mem_In in M.
      destruct (IH q vis pl vis' pl' P H) as [A [B [D E]]].
      * intros x Hx. apply Tq. right. exact Hx.
      * eapply closed_weaken; [exact C|]. intros x [<-|Hx]; [left; exact M|right; exact Hx].
      * exact Tp.
      * repeat split; auto. intros x [<-|Hx]; [apply B; exact M|apply D; exact Hx].
    + destruct (read_page h p) as [pg|] eqn:R; [|discriminate].
      assert (Typ : ty p = KBt c) by (apply Tq; left; reflexivity).
      destruct (p_bt pg) as [[rsib pls|rsib lft ch]|] eqn:B; [| |discriminate].
      * (* leaf *)
        assert (S : succs h (KBt c) p = map (pair (KBt c)) (nz [rsib]) ++ (if c then map (pair KBlob) (nz pls) else [])).
        { unfold succs. rewrite R, B. reflexivity. }
        destruct (IH (q ++ nz [rsib]) (p :: vis) (pl ++ pls) vis' pl' P H) as [A [Bi [D E]]].
        -- intros x Hx. apply in_app_or in Hx. destruct Hx as [Hx|Hx]; [apply Tq; right; exact Hx|].
           apply (WT p). rewrite Typ, S. apply in_or_app. left. apply map_pair_in. exact Hx.
        -- intros p' Hin k' id' Hs. destruct Hin as [<-|Hin].
           ++ rewrite Typ, S in Hs. apply in_app_or in Hs. destruct Hs as [Hs|Hs].
              ** apply in_map_pair in Hs. destruct Hs as [_ Hs]. right. apply in_or_app. left. apply in_or_app. right. exact Hs.
              ** destruct c; [|destruct Hs]. apply in_map_pair in Hs. destruct Hs as [_ Hs].
                 right. apply in_or_app. right. apply in_or_app. left.
                 apply nz_In. apply nz_In in Hs. destruct Hs as [Hs Hn]. split; [apply in_or_app; right; exact Hs|exact Hn].
           ++ destruct (C p' Hin k' id' Hs) as [X|X]; [left; right; exact X|].
              cbn [app In] in X. destruct X as [X|X]; [left; left; exact X|].
              right. apply in_app_or in X. destruct X as [X|X]; [apply in_or_app; left; apply in_or_app; left; exact X|].
              apply in_or_app. right. apply in_app_or in X. destruct X as [X|X]; [|apply in_or_app; right; exact X].
              apply in_or_app. left. destruct c; [|destruct X].
              apply nz_In. apply nz_In in X. destruct X as [X Hn]. split; [apply in_or_app; left; exact X|exact Hn].
        -- intros x Hx Hn Hc. apply in_app_or in Hx. destruct Hx as [Hx|Hx]; [exact (Tp x Hx Hn Hc)|].
           apply (WT p). rewrite Typ, S. subst c. apply in_or_app. right. apply map_pair_in. apply nz_In. split; assumption.
        -- repeat split; auto.
           ++ intros x Hx. apply Bi. right. exact Hx.
           ++ intros x [<-|Hx]; [apply Bi; left; reflexivity|apply D; apply in_or_app; left; exact Hx].
      * (* internal *)
        destruct ((lft =? 0) || existsb (N.eqb 0) ch) eqn:Z; [discriminate|].
        assert (S : succs h (KBt c) p = map (pair (KBt c)) (nz [rsib] ++ lft :: ch)).
        { unfold succs. rewrite R, B. reflexivity. }
        destruct (IH (q ++ nz [rsib] ++ lft :: ch) (p :: vis) pl vis' pl' P H) as [A [Bi [D E]]].
        -- intros x Hx. apply in_app_or in Hx. destruct Hx as [Hx|Hx]; [apply Tq; right; exact Hx|].
           apply (WT p). rewrite Typ, S. apply map_pair_in. exact Hx.
        -- intros p' Hin k' id' Hs. destruct Hin as [<-|Hin].
           ++ rewrite Typ, S in Hs. apply in_map_pair in Hs. destruct Hs as [_ Hs].
              right. apply in_or_app. left. apply in_or_app. right. exact Hs.
           ++ destruct (C p' Hin k' id' Hs) as [X|X]; [left; right; exact X|].
              cbn [app In] in X. destruct X as [X|X]; [left; left; exact X|].
              right. apply in_app_or in X. destruct X as [X|X]; [apply in_or_app; left; apply in_or_app; left; exact X|].
              apply in_or_app. right. exact X.
        -- exact Tp.
        -- repeat split; auto.
           ++ intros x Hx. apply Bi. right. exact Hx.
           ++ intros x [<-|Hx]; [apply Bi; left; reflexivity|apply D; apply in_or_app; left; exact Hx].
Qed.

Lemma blob_mark_inv : forall fuel id vis vis' P,
  blob_mark fuel h id vis = Ok vis' -> (id <> 0 -> ty id = KBlob) ->
  closed (nz [id] ++ P) vis -> closed P vis' /\ incl vis vis' /\ (id <> 0 -> In id vis').
Proof.
  induction fuel as [|f IH]; intros id vis vis' P H T C; cbn [blob_mark] in H; [discriminate|].
  destruct (id =? 0) eqn:Z.
  - apply N.eqb_eq in Z. subst id. inversion H; subst. cbn in C. repeat split; auto using incl_refl. intro X; contradiction.
  - assert (Hn : id <> 0) by (intro E; subst; discriminate).
    destruct (mem id vis) eqn:M; [discriminate|].
    destruct (read_page h id) as [pg|] eqn:R; [|discriminate].
    destruct (max_blob_data <? p_blob_len pg); [discriminate|].
    assert (S : succs h KBlob id = map (pair KBlob) (nz [p_blob_next pg])).
    { unfold succs. rewrite R. reflexivity. }
    destruct (IH (p_blob_next pg) (id :: vis) vis' P H) as [A [B D]].
    + intros Hx. apply (WT id). rewrite (T Hn), S. apply map_pair_in. apply nz_In. split; [left; reflexivity|exact Hx].
    + intros p' Hin k' id' Hs. destruct Hin as [<-|Hin].
      * rewrite (T Hn), S in Hs. apply in_map_pair in Hs. destruct Hs as [_ Hs]. right. apply in_or_app. left. exact Hs.
      * destruct (C p' Hin k' id' Hs) as [X|X]; [left; right; exact X|].
        apply in_app_or in X. destruct X as [X|X].
        -- apply nz_In in X. destruct X as [[<-|[]] _]. left. left. reflexivity.
        -- right. apply in_or_app. right. exact X.
    + repeat split; auto.
      * intros x Hx. apply B. right. exact Hx.
      * intros _. apply B. left. reflexivity.
Qed.

Lemma nz_cons : forall x l, nz (x :: l) = nz [x] ++ nz l.
Proof. intros. unfold nz. cbn [filter]. destruct (negb (x =? 0)); reflexivity. Qed.

Lemma blobs_mark_inv : forall fuel ids vis vis' P,
  blobs_mark fuel h ids vis = Ok vis' -> (forall x, In x ids -> x <> 0 -> ty x = KBlob) ->
  closed (nz ids ++ P) vis -> closed P vis' /\ incl vis vis'.
Proof.
  induction ids as [|id t IH]; intros vis vis' P H T C; cbn [blobs_mark] in H.
  - inversion H; subst. cbn in C. split; auto using incl_refl.
  - destruct (blob_mark fuel h id vis) as [v| |] eqn:B; try discriminate.
    rewrite nz_cons, <- app_assoc in C.
    destruct (blob_mark_inv _ _ _ _ _ B (T id (or_introl eq_refl)) C) as [A [I _]].
    destruct (IH v vis' P H) as [A' I'].
    + intros x Hx. apply T. right. exact Hx.
    + exact A.
    + split; [exact A'|]. intros x Hx. apply I', I, Hx.
Qed.

Lemma tree_mark_inv : forall fuel cc root vis vis' P,
  tree_mark fuel h cc root vis = Ok vis' -> (root <> 0 -> ty root = KBt cc) ->
  closed (nz [root] ++ P) vis -> closed P vis' /\ incl vis vis' /\ (root <> 0 -> In root vis').
Proof.
  intros fuel cc root vis vis' P H T C. unfold tree_mark in H.
  destruct (root =? 0) eqn:Z.
  - apply N.eqb_eq in Z. subst root. inversion H; subst. cbn in C. repeat split; auto using incl_refl. intro X; contradiction.
  - assert (Hn : root <> 0) by (intro E; subst; discriminate).
    destruct (bt_mark fuel h [root] vis []) as [[v pl]| |] eqn:B; try discriminate.
    destruct (bt_mark_inv cc fuel [root] vis [] v pl P B) as [A [I [Q Tp]]].
    + intros p [<-|[]]. exact (T Hn).
    + assert (E : nz [root] = [root]). { unfold nz. cbn [filter]. rewrite Z. reflexivity. }
      rewrite E in C. destruct cc; cbn [app nz filter] in *; exact C.
    + intros x [].
    + destruct cc.
      * destruct (blobs_mark_inv fuel pl v vis' P H) as [A' I'].
        -- intros x Hx Hx0. exact (Tp x Hx Hx0 eq_refl).
        -- exact A.
        -- repeat split; auto.
           ++ intros x Hx. apply I', I, Hx.
           ++ intros _. apply I', Q. left. reflexivity.
      * inversion H; subst. cbn [app] in A. repeat split; auto. intros _. apply Q. left. reflexivity.
Qed.

Lemma trees_mark_inv : forall fuel es vis vis' P,
  trees_mark fuel h es vis = Ok vis' ->
  (forall cc root, In (cc, root) es -> root <> 0 -> ty root = KBt cc) ->
  closed (nz (map snd es) ++ P) vis ->
  closed P vis' /\ incl vis vis' /\ (forall cc root, In (cc, root) es -> root <> 0 -> In root vis').
Proof.
  induction es as [|[cc root] t IH]; intros vis vis' P H T C; cbn [trees_mark] in H.
  - inversion H; subst. cbn in C. repeat split; auto using incl_refl. intros ? ? [].
  - destruct (tree_mark fuel h cc root vis) as [v| |] eqn:B; try discriminate.
    cbn [map snd] in C. rewrite nz_cons, <- app_assoc in C.
    destruct (tree_mark_inv _ _ _ _ _ _ B (T cc root (or_introl eq_refl)) C) as [A [I R]].
    destruct (IH v vis' P H) as [A' [I' R']].
    + intros c2 r2 Hin. apply T. right. exact Hin.
    + exact A.
    + repeat split; auto.
      * intros x Hx. apply I', I, Hx.
      * intros c2 r2 [E|Hin] Hn; [inversion E; subst; apply I', R, Hn|exact (R' c2 r2 Hin Hn)].
Qed.

Lemma segs_mark_inv : forall segs vis vis' P,
  segs_mark h segs vis = Ok vis' ->
  (forall m, In m segs -> m <> 0 -> ty m = KCsr) ->
  closed (nz segs ++ P) vis ->
  closed P vis' /\ incl vis vis' /\ (forall m, In m segs -> m <> 0 -> In m vis').
Proof.
  induction segs as [|m t IH]; intros vis vis' P H T C; cbn [segs_mark] in H.
  - inversion H; subst. cbn in C. repeat split; auto using incl_refl. intros ? [].
  - rewrite nz_cons, <- app_assoc in C. destruct (m =? 0) eqn:Z.
    + apply N.eqb_eq in Z. subst m. cbn [nz filter N.eqb negb app] in C.
      destruct (IH vis vis' P H) as [A [I R]]; [intros x Hx; apply T; right; exact Hx|exact C|].
      repeat split; auto. intros x [<-|Hx] Hn; [contradiction|exact (R x Hx Hn)].
    + assert (Hn : m <> 0) by (intro E; subst; discriminate).
      assert (E : nz [m] = [m]). { unfold nz. cbn [filter]. rewrite Z. reflexivity. }
      rewrite E in C.
      destruct (read_page h m) as [pg|] eqn:R; [|discriminate].
      destruct (csr_pages_vacuum (p_csr pg)) as [ids| |] eqn:V; try discriminate.
      set (v := fold_left (fun v x => insert x v) (nz ids) (insert m vis)) in *.
      assert (S : succs h KCsr m = map (pair KRaw) (nz ids)).
      { unfold succs. rewrite R. rewrite <- csr_layout_agrees, V. reflexivity. }
      assert (Hv : forall x, In x v <-> In x (nz ids) \/ x = m \/ In x vis).
      { intros x. unfold v. rewrite fold_insert_In, insert_In. tauto. }
      destruct (IH v vis' P H) as [A [I Rr]].
      * intros x Hx. apply T. right. exact Hx.
      * intros p' Hin k' id' Hs. apply Hv in Hin. destruct Hin as [Hin|[->|Hin]].
        -- assert (Tr : ty p' = KRaw). { apply (WT m). rewrite (T m (or_introl eq_refl) Hn), S. apply map_pair_in. exact Hin. }
           rewrite Tr, succs_raw in Hs. destruct Hs.
        -- rewrite (T m (or_introl eq_refl) Hn), S in Hs. apply in_map_pair in Hs. destruct Hs as [_ Hs].
           left. apply Hv. left. exact Hs.
        -- destruct (C p' Hin k' id' Hs) as [X|X]; [left; apply Hv; right; right; exact X|].
           cbn [app In] in X. destruct X as [X|X]; [left; apply Hv; right; left; symmetry; exact X|right; exact X].
      * repeat split; auto.
        -- intros x Hx. apply I. apply Hv. right. right. exact Hx.
        -- intros x [<-|Hx] Hx0; [apply I; apply Hv; right; left; reflexivity|exact (Rr x Hx Hx0)].
Qed.
End MarkComplete.

Definition well_typed (ty : N -> kind) (h : heap) (r : roots) : Prop :=
  (forall k id, In (k, id) (root_items r) -> ty id = k) /\
  (forall p k' id', In (k', id') (succs h (ty p) p) -> ty id' = k').

Lemma reach_typed : forall ty h r, well_typed ty h r -> forall k id, reach h r k id -> ty id = k.
Proof.
  intros ty h r [WR WS] k id H. induction H as [k id Hin|k id k' id' _ IH Hin]; [exact (WR _ _ Hin)|].
  apply (WS id). rewrite IH. exact Hin.
Qed.

Definition entries_of (r : roots) : list (bool * N) :=
  if r_catalog r =? 0 then [] else match r_cat_entries r with Some es => es | None => [] end.


Lemma in_entries_map : forall (es : list (bool * N)) cc root,
  In (KBt cc, root) (map (fun '(c, root) => (KBt c, root)) (filter (fun '(_, root) => negb (root =? 0)) es)) <->
  In (cc, root) es /\ root <> 0.
Proof.
  intros es cc root. rewrite in_map_iff. split.
  - intros [[c2 r2] [E Hin]]. inversion E; subst. apply filter_In in Hin. destruct Hin as [Hin Hz]. split; [exact Hin|].
    intro Z. subst. discriminate.
  - intros [Hin Hn]. exists (cc, root). split; [reflexivity|]. apply filter_In. split; [exact Hin|].
    destruct (root =? 0) eqn:Z; [apply N.eqb_eq in Z; contradiction|reflexivity].
Qed.

Theorem mark_complete : forall ty h r vis, well_typed ty h r -> mark h r = Ok vis ->
  forall k id, reach h r k id -> In id vis.
Proof.
  intros ty h r vis W M.
  pose proof W as [WR WS].
  (* membership facts about root_items *)
  assert (R0 : In (KRaw, 0) (root_items r)) by (unfold root_items; cbn [app In]; auto).
  assert (R1 : In (KRaw, 1) (root_items r)) by (unfold root_items; cbn [app In]; auto).
  assert (Ri : forall x, In x (idmap_pages_load r) -> In (KRaw, x) (root_items r)).
  { intros x Hx. unfold root_items. apply in_or_app. right. apply in_or_app. left. apply map_pair_in. exact Hx. }
  assert (Rc : r_catalog r <> 0 -> In (KRaw, r_catalog r) (root_items r)).
  { intros Hn. unfold root_items. apply in_or_app. right. apply in_or_app. right. apply in_or_app. left.
    destruct (r_catalog r =? 0) eqn:Z; [apply N.eqb_eq in Z; contradiction|]. left. reflexivity. }
  assert (Re : forall es cc root, r_catalog r <> 0 -> r_cat_entries r = Some es -> In (cc, root) es -> root <> 0 -> In (KBt cc, root) (root_items r)).
  { intros es cc root Hn He Hin Hr. unfold root_items. apply in_or_app. right. apply in_or_app. right. apply in_or_app. left.
    destruct (r_catalog r =? 0) eqn:Z; [apply N.eqb_eq in Z; contradiction|]. right. rewrite He. apply in_entries_map. split; assumption. }
  assert (Rp : r_props r <> 0 -> In (KBt true, r_props r) (root_items r)).
  { intros Hn. unfold root_items. do 3 (apply in_or_app; right). apply in_or_app. left.
    destruct (r_props r =? 0) eqn:Z; [apply N.eqb_eq in Z; contradiction|]. left. reflexivity. }
  assert (Rs : r_stats r <> 0 -> In (KBlob, r_stats r) (root_items r)).
  { intros Hn. unfold root_items. do 4 (apply in_or_app; right). apply in_or_app. left.
    destruct (r_stats r =? 0) eqn:Z; [apply N.eqb_eq in Z; contradiction|]. left. reflexivity. }
  assert (Rg : forall m, In m (r_segments r) -> m <> 0 -> In (KCsr, m) (root_items r)).
  { intros m Hin Hn. unfold root_items. do 5 (apply in_or_app; right). apply map_pair_in. apply nz_In. split; assumption. }
  unfold mark in M.
  set (fuel := fuel_of h) in *.
  set (v1 := fold_left (fun v x => insert x v) (idmap_pages_vacuum r) [1; 0]) in *.
  set (v2 := if r_catalog r =? 0 then v1 else insert (r_catalog r) v1) in *.
  assert (Hv1 : forall x, In x v1 <-> In x (idmap_pages_load r) \/ x = 1 \/ x = 0).
  { intros x. unfold v1. rewrite fold_insert_In. rewrite idmap_pages_agree. cbn [In]. intuition. }
  assert (Hv2 : forall x, In x v2 <-> (r_catalog r <> 0 /\ x = r_catalog r) \/ In x v1).
  { intros x. unfold v2. destruct (r_catalog r =? 0) eqn:Z.
    - apply N.eqb_eq in Z. split; [auto|]. intros [[Hn _]|Hx]; [contradiction|exact Hx].
    - apply N.eqb_neq in Z. rewrite insert_In. split; intros [Hx|Hx]; auto. destruct Hx as [_ Hx]. auto. }
  assert (Raw2 : forall x, In x v2 -> ty x = KRaw).
  { intros x Hx. apply Hv2 in Hx. destruct Hx as [[Hn ->]|Hx]; [exact (WR _ _ (Rc Hn))|].
    apply Hv1 in Hx. destruct Hx as [Hx|[->| ->]]; [exact (WR _ _ (Ri x Hx))|exact (WR _ _ R1)|exact (WR _ _ R0)]. }
  assert (C2 : forall P, closed ty h P v2).
  { intros P p Hp k' id' Hs. rewrite (Raw2 p Hp), succs_raw in Hs. destruct Hs. }
  (* the pending roots *)
  set (Pseg := nz (r_segments r) ++ []).
  set (Pst := nz [r_stats r] ++ Pseg).
  set (Ppr := nz [r_props r] ++ Pst).
  (* catalog phase *)
  assert (Hcat : exists v3, closed ty h Ppr v3 /\ incl v2 v3 /\
            tree_mark fuel h true (r_props r) v3 <> Err /\
            (forall k id, In (k, id) (if r_catalog r =? 0 then [] else match r_cat_entries r with Some es => map (fun '(c, root) => (KBt c, root)) (filter (fun '(_, root) => negb (root =? 0)) es) | None => [] end) -> In id v3) /\
            match tree_mark fuel h true (r_props r) v3 with
            | Ok v4 => match blob_mark fuel h (r_stats r) v4 with Ok v5 => segs_mark h (r_segments r) v5 | e => e end
            | e => e end = Ok vis).
  { destruct (r_catalog r =? 0) eqn:Z.
    - exists v2. repeat split; auto using incl_refl.
      + intro E. rewrite E in M. discriminate.
      + intros k id [].
    - apply N.eqb_neq in Z.
      destruct (read_page h (r_catalog r)) as [pgc|]; [|discriminate].
      destruct (r_cat_entries r) as [es|] eqn:Ee; [|discriminate].
      destruct (trees_mark fuel h es v2) as [v3| |] eqn:T; try discriminate.
      destruct (trees_mark_inv ty h WS fuel es v2 v3 Ppr T) as [A [I Rr]].
      + intros cc root Hin Hn. exact (WR _ _ (Re es cc root Z eq_refl Hin Hn)).
      + apply C2.
      + exists v3. repeat split; auto.
        * intro E. rewrite E in M. discriminate.
        * intros k id Hin. apply in_map_iff in Hin. destruct Hin as [[c2 r2] [E Hin]]. inversion E; subst.
          apply filter_In in Hin. destruct Hin as [Hin Hz]. apply (Rr c2 id Hin). intro X. subst. discriminate. }
  destruct Hcat as [v3 [C3 [I3 [_ [Ent M3]]]]].
  destruct (tree_mark fuel h true (r_props r) v3) as [v4| |] eqn:T4; try discriminate.
  destruct (tree_mark_inv ty h WS fuel true (r_props r) v3 v4 Pst T4) as [C4 [I4 R4]].
  { intros Hn. exact (WR _ _ (Rp Hn)). }
  { exact C3. }
  destruct (blob_mark fuel h (r_stats r) v4) as [v5| |] eqn:T5; try discriminate.
  destruct (blob_mark_inv ty h WS fuel (r_stats r) v4 v5 Pseg T5) as [C5 [I5 R5]].
  { intros Hn. exact (WR _ _ (Rs Hn)). }
  { exact C4. }
  destruct (segs_mark_inv ty h WS (r_segments r) v5 vis [] M3) as [C6 [I6 R6]].
  { intros m Hin Hn. exact (WR _ _ (Rg m Hin Hn)). }
  { exact C5. }
  assert (Inc : incl v2 vis). { intros x Hx. apply I6, I5, I4, I3, Hx. }
  (* all roots are kept *)
  assert (Roots : forall k id, In (k, id) (root_items r) -> In id vis).
  { intros k id Hin. unfold root_items in Hin.
    apply in_app_or in Hin. destruct Hin as [Hin|Hin].
    { apply Inc, Hv2. right. apply Hv1. cbn [In] in Hin. destruct Hin as [E|[E|[]]]; inversion E; subst; auto. }
    apply in_app_or in Hin. destruct Hin as [Hin|Hin].
    { apply in_map_pair in Hin. destruct Hin as [_ Hin]. apply Inc, Hv2. right. apply Hv1. left. exact Hin. }
    apply in_app_or in Hin. destruct Hin as [Hin|Hin].
    { destruct (r_catalog r =? 0) eqn:Z; [destruct Hin|]. apply N.eqb_neq in Z. destruct Hin as [E|Hin].
      - inversion E; subst. apply Inc, Hv2. left. split; [exact Z|reflexivity].
      - apply I6, I5, I4. apply (Ent k id). exact Hin. }
    apply in_app_or in Hin. destruct Hin as [Hin|Hin].
    { destruct (r_props r =? 0) eqn:Z; [destruct Hin|]. apply N.eqb_neq in Z. destruct Hin as [E|[]]. inversion E; subst.
      apply I6, I5, R4, Z. }
    apply in_app_or in Hin. destruct Hin as [Hin|Hin].
    { destruct (r_stats r =? 0) eqn:Z; [destruct Hin|]. apply N.eqb_neq in Z. destruct Hin as [E|[]]. inversion E; subst.
      apply I6, R5, Z. }
    apply in_map_pair in Hin. destruct Hin as [_ Hin]. apply nz_In in Hin. destruct Hin as [Hin Hn]. exact (R6 id Hin Hn). }
  intros k id Hreach. induction Hreach as [k id Hin|k id k' id' Hr IH Hin]; [exact (Roots _ _ Hin)|].
  rewrite <- (reach_typed ty h r W k id Hr) in Hin.
  destruct (C6 id IH k' id' Hin) as [X|[]]. exact X.
Qed.

(* unconditional-in-the-marking form of C28: well-typed heap => every rooted reader is preserved *)
Theorem vacuum_preserves_typed : forall ty A (rd : reader A) h r vis h',
  well_typed ty h r -> vacuum h r = Ok (vis, h') -> rooted h r rd -> run_reader h' rd = run_reader h rd.
Proof.
  intros ty A rd h r vis h' W V Ro.
  apply (vacuum_preserves_rooted A rd h r vis h' V); [|exact Ro].
  unfold vacuum in V. destruct (mark h r) as [v| |] eqn:M; try discriminate.
  destruct (copy_ok h v); try discriminate. inversion V; subst.
  exact (mark_complete ty h r vis W M).
Qed.

(* executable typing check, to show the hypothesis is satisfiable by concrete databases *)
Definition ty_of (tyl : list (N * kind)) (p : N) : kind :=
  match find (fun '(i, _) => i =? p) tyl with Some (_, k) => k | None => KRaw end.

Definition well_typedb (tyl : list (N * kind)) (h : heap) (r : roots) : bool :=
  forallb (fun '(k, id) => kind_eqb (ty_of tyl id) k) (root_items r) &&
  forallb (fun '(p, _) => forallb (fun '(k', id') => kind_eqb (ty_of tyl id') k') (succs h (ty_of tyl p) p)) tyl.

Lemma well_typedb_sound : forall tyl h r, well_typedb tyl h r = true -> well_typed (ty_of tyl) h r.
Proof.
  intros tyl h r H. unfold well_typedb in H. apply Bool.andb_true_iff in H. destruct H as [H1 H2].
  rewrite forallb_forall in H1. rewrite forallb_forall in H2. split.
  - intros k id Hin. specialize (H1 (k, id) Hin). cbn in H1. apply kind_eqb_eq in H1. exact H1.
  - intros p k' id' Hin.
    destruct (find (fun '(i, _) => i =? p) tyl) as [[i k]|] eqn:F.
    + pose proof (find_some _ _ F) as [Hi Hp]. apply N.eqb_eq in Hp. subst i.
      specialize (H2 (p, k) Hi). cbn beta iota in H2. rewrite forallb_forall in H2.
      specialize (H2 (k', id') Hin). cbn beta iota in H2. apply kind_eqb_eq in H2. exact H2.
    + unfold ty_of in Hin at 1. rewrite F in Hin. rewrite succs_raw in Hin. destruct Hin.
Qed.

Definition ex_ty : list (N * kind) :=
  [(0, KRaw); (1, KRaw); (2, KRaw); (3, KRaw); (4, KBt true); (5, KBt true); (6, KBlob); (7, KBt true); (8, KBt true);
   (9, KBlob); (10, KRaw); (11, KRaw); (12, KRaw); (13, KRaw); (14, KCsr); (15, KBlob)].
Example ex_well_typed : well_typed (ty_of ex_ty) ex_heap ex_roots.
Proof. apply well_typedb_sound. vm_compute. reflexivity. Qed.
