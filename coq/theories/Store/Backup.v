(* Store/Backup.v — MODEL of nervusdb-storage/src/backup.rs over the writer's I/O step stream.
   The writer issues steps on two files: page writes to the page file and appends to the log.
   A backup copies the page file as it is after step i and the log as it is after step j >= i
   (execute_backup: copy_ndb_file, then copy_wal_file; nothing stops the writer in between).
   Restore copies both files back.  Open takes the last manifest in the log, loads the segment pages it
   names from the page file, and replays the logged transactions above the manifest's checkpoint.
   Granularity: whole pages, whole log records; in-place updates of the property B-tree are not modelled
   (compaction is modelled as writing fresh pages only, then logging the manifest).  Proofs: Backup_proofs.v. *)
From NDB Require Export Base.Bytes.
Open Scope N_scope.

Inductive logrec :=
| LTx (t : N)                                              (* a committed user transaction, number t *)
| LManifest (refs : list (N * N)) (sunk : list N) (upto : N).
   (* manifest switch + checkpoint: segment pages (id, content) now current; transactions `sunk` live in them;
      recovery skips logged transactions numbered <= upto *)

Inductive iostep := SPage (id c : N) | SLog (r : logrec).

Record disk := { d_pages : list (N * N); d_log : list logrec }.
Definition disk_empty : disk := {| d_pages := []; d_log := [] |}.

Definition apply_step (d : disk) (s : iostep) : disk :=
  match s with
  | SPage id c => {| d_pages := (id, c) :: d_pages d; d_log := d_log d |}
  | SLog r => {| d_pages := d_pages d; d_log := d_log d ++ [r] |}
  end.
Definition apply_steps (d : disk) (ss : list iostep) : disk := fold_left apply_step ss d.

Fixpoint page_lookup (id : N) (l : list (N * N)) : option N :=
  match l with [] => None | (i, c) :: t => if i =? id then Some c else page_lookup id t end.

(* last manifest of the log *)
Fixpoint last_manifest (l : list logrec) (acc : list (N * N) * list N * N) : list (N * N) * list N * N :=
  match l with
  | [] => acc
  | LManifest refs sunk upto :: t => last_manifest t (refs, sunk, upto)
  | LTx _ :: t => last_manifest t acc
  end.

Fixpoint log_txs (l : list logrec) : list N :=
  match l with [] => [] | LTx t :: r => t :: log_txs r | LManifest _ _ _ :: r => log_txs r end.

(* open + dump: None = the database does not open (a segment page named by the manifest is missing or is
   not the page the manifest was written for); Some l = the transactions whose effects are visible *)
Definition content (d : disk) : option (list N) :=
  let '(refs, sunk, upto) := last_manifest (d_log d) ([], [], 0) in
  if forallb (fun '(id, c) => match page_lookup id (d_pages d) with Some c' => c' =? c | None => false end) refs
  then Some (sunk ++ filter (fun t => upto <? t) (log_txs (d_log d)))
  else None.

(* ---- the writer ---- *)
Inductive wop := WCommit | WCompact (k : nat).     (* compact writes k+1 fresh segment pages *)

Record wstate := {
  w_next_tx : N;          (* next transaction number *)
  w_next_page : N;        (* next fresh page id (alloc_fresh: compaction never reuses a live page) *)
  w_refs : list (N * N);  (* current manifest *)
  w_sunk : list N;
  w_pending : list N      (* committed, not yet compacted *)
}.
Definition wstate_new : wstate := {| w_next_tx := 1; w_next_page := 2; w_refs := []; w_sunk := []; w_pending := [] |}.

Fixpoint fresh_pages (start : N) (n : nat) : list (N * N) :=
  match n with O => [] | S k => (start, start + 1000) :: fresh_pages (N.succ start) k end.

Definition wsteps (s : wstate) (o : wop) : list iostep * wstate :=
  match o with
  | WCommit => ([SLog (LTx (w_next_tx s))],
                {| w_next_tx := w_next_tx s + 1; w_next_page := w_next_page s; w_refs := w_refs s; w_sunk := w_sunk s;
                   w_pending := w_pending s ++ [w_next_tx s] |})
  | WCompact k =>
      match w_pending s with
      | [] => ([], s)                         (* compact() with no runs does nothing *)
      | _ =>
        let np := fresh_pages (w_next_page s) (S k) in
        let refs := np ++ w_refs s in
        let sunk := w_sunk s ++ w_pending s in
        (map (fun '(id, c) => SPage id c) np ++ [SLog (LManifest refs sunk (w_next_tx s - 1))],
         {| w_next_tx := w_next_tx s; w_next_page := w_next_page s + N.of_nat (S k); w_refs := refs; w_sunk := sunk; w_pending := [] |})
      end
  end.

Fixpoint plan (s : wstate) (ops : list wop) : list iostep * wstate :=
  match ops with
  | [] => ([], s)
  | o :: t => let '(a, s1) := wsteps s o in let '(b, s2) := plan s1 t in (a ++ b, s2)
  end.

Definition committed (s : wstate) : list N := w_sunk s ++ w_pending s.

(* ---- backup / restore ---- *)
(* page file as of step i, log as of step j *)
Definition backup (steps : list iostep) (i j : nat) : disk :=
  {| d_pages := d_pages (apply_steps disk_empty (firstn i steps));
     d_log := d_log (apply_steps disk_empty (firstn j steps)) |}.
Definition restore (b : disk) : disk := b.

Definition same_set (a b : list N) : bool :=
  forallb (fun x => existsb (N.eqb x) b) a && forallb (fun x => existsb (N.eqb x) a) b.

(* the restored database equals the source at some moment t in [i, j] *)
Definition consistent_at_some_moment (steps : list iostep) (i j : nat) : bool :=
  match content (restore (backup steps i j)) with
  | None => false
  | Some l => existsb (fun t => match content (apply_steps disk_empty (firstn t steps)) with
                                | Some l' => same_set l l' | None => false end) (seq i (S (j - i)))
  end.
