(* Store/Backup.v — MODEL of nervusdb-storage/src/backup.rs over the writer's I/O step stream.
   The writer issues steps on two files: page writes to the page file, appends to the log, and the
   close-time rewrite of the log (rewrite_as_snapshot: temp file + rename, one step here).
   A backup copies the page file as it is after step i and the log as it is after step j >= i
   (execute_backup: copy_ndb_file, then copy_wal_file; nothing stops the writer in between).
   Restore copies both files back.  Open takes the last manifest in the log, loads the segment pages it
   names from the page file, needs the property-tree root it names, replays the logged transactions above
   the manifest's checkpoint and all label creations.
   Compaction = fresh segment pages, then the property tree updated IN PLACE (its root page is rewritten
   under the still-current manifest), then the manifest record.
   Granularity: whole pages, whole log records; torn reads inside one io::copy are not modelled.
   Proofs: Backup_proofs.v. *)
From NDB Require Export Base.Bytes.
Open Scope N_scope.

Inductive logrec :=
| LTx (t : N)                                              (* a committed user transaction, number t *)
| LLabel (l : N)                                           (* label / relationship-type creation (logged in its own transaction) *)
| LManifest (refs : list (N * N)) (prop : N) (sunk : list N) (upto : N).
   (* manifest switch + checkpoint: segment pages (id, content) now current; property-tree root page id (0 = none);
      transactions `sunk` live in them; recovery skips logged transactions numbered <= upto *)

Inductive iostep := SPage (id c : N) | SLog (r : logrec) | SRewrite (recs : list logrec).

Record disk := { d_pages : list (N * N); d_log : list logrec }.
Definition disk_empty : disk := {| d_pages := []; d_log := [] |}.

Definition apply_step (d : disk) (s : iostep) : disk :=
  match s with
  | SPage id c => {| d_pages := (id, c) :: d_pages d; d_log := d_log d |}     (* newest first: an in-place write shadows the old content *)
  | SLog r => {| d_pages := d_pages d; d_log := d_log d ++ [r] |}
  | SRewrite recs => {| d_pages := d_pages d; d_log := recs |}
  end.
Definition apply_steps (d : disk) (ss : list iostep) : disk := fold_left apply_step ss d.

Fixpoint page_lookup (id : N) (l : list (N * N)) : option N :=
  match l with [] => None | (i, c) :: t => if i =? id then Some c else page_lookup id t end.

Definition mf := (list (N * N) * N * list N * N)%type.
Definition mf0 : mf := ([], 0, [], 0).

(* last manifest of the log *)
Fixpoint last_manifest (l : list logrec) (acc : mf) : mf :=
  match l with
  | [] => acc
  | LManifest refs prop sunk upto :: t => last_manifest t (refs, prop, sunk, upto)
  | _ :: t => last_manifest t acc
  end.

Fixpoint log_txs (l : list logrec) : list N :=
  match l with [] => [] | LTx t :: r => t :: log_txs r | _ :: r => log_txs r end.
Fixpoint log_labels (l : list logrec) : list N :=
  match l with [] => [] | LLabel x :: r => x :: log_labels r | _ :: r => log_labels r end.

(* open + dump: None = the database does not open / cannot be read (a page named by the manifest is missing or is
   not the page the manifest was written for); Some (txs, labels, property-tree version) = what is visible *)
Definition content (d : disk) : option (list N * list N * N) :=
  let '(refs, prop, sunk, upto) := last_manifest (d_log d) mf0 in
  if forallb (fun '(id, c) => match page_lookup id (d_pages d) with Some c' => c' =? c | None => false end) refs
  then match (if prop =? 0 then Some 0 else page_lookup prop (d_pages d)) with
       | Some v => Some (sunk ++ filter (fun t => upto <? t) (log_txs (d_log d)), log_labels (d_log d), v)
       | None => None end
  else None.

(* ---- the writer ---- *)
Inductive wop :=
| WCommit
| WLabel
| WCompact (k : nat)      (* compact writes k+1 fresh segment pages, then the property tree in place *)
| WClose.                 (* close(): checkpoint_on_close rewrites the log when nothing is pending *)

Record wstate := {
  w_next_tx : N;          (* next transaction number *)
  w_next_page : N;        (* next fresh page id (alloc_fresh: compaction never reuses a live page) *)
  w_refs : list (N * N);  (* current manifest: segment pages *)
  w_prop : N * N;         (* property-tree root page and its version (0,0 = none yet) *)
  w_sunk : list N;
  w_pending : list N;     (* committed, not yet compacted *)
  w_labels : list N
}.
Definition wstate_new : wstate :=
  {| w_next_tx := 1; w_next_page := 2; w_refs := []; w_prop := (0, 0); w_sunk := []; w_pending := []; w_labels := [] |}.

Fixpoint fresh_pages (start : N) (n : nat) : list (N * N) :=
  match n with O => [] | S k => (start, start + 1000) :: fresh_pages (N.succ start) k end.

Definition wsteps (s : wstate) (o : wop) : list iostep * wstate :=
  match o with
  | WCommit => ([SLog (LTx (w_next_tx s))],
                {| w_next_tx := w_next_tx s + 1; w_next_page := w_next_page s; w_refs := w_refs s; w_prop := w_prop s; w_sunk := w_sunk s;
                   w_pending := w_pending s ++ [w_next_tx s]; w_labels := w_labels s |})
  | WLabel => let l := N.of_nat (length (w_labels s)) in
              ([SLog (LLabel l)],
               {| w_next_tx := w_next_tx s; w_next_page := w_next_page s; w_refs := w_refs s; w_prop := w_prop s; w_sunk := w_sunk s;
                  w_pending := w_pending s; w_labels := w_labels s ++ [l] |})
  | WCompact k =>
      match w_pending s with
      | [] => ([], s)                         (* compact() with no runs does nothing *)
      | _ =>
        let np := fresh_pages (w_next_page s) (S k) in
        let next := w_next_page s + N.of_nat (S k) in
        (* property tree: created on a fresh page the first time, afterwards its root page is rewritten in place *)
        let '(prop, next') := if fst (w_prop s) =? 0 then ((next, 1), next + 1) else ((fst (w_prop s), snd (w_prop s) + 1), next) in
        let refs := np ++ w_refs s in
        let sunk := w_sunk s ++ w_pending s in
        (map (fun '(id, c) => SPage id c) np ++ [SPage (fst prop) (snd prop)] ++ [SLog (LManifest refs (fst prop) sunk (w_next_tx s - 1))],
         {| w_next_tx := w_next_tx s; w_next_page := next'; w_refs := refs; w_prop := prop; w_sunk := sunk; w_pending := []; w_labels := w_labels s |})
      end
  | WClose =>
      match w_pending s with
      | [] => ([SRewrite (map LLabel (w_labels s) ++ [LManifest (w_refs s) (fst (w_prop s)) (w_sunk s) (w_next_tx s - 1)])], s)
      | _ => ([], s)                          (* runs exist only in the log: no rewrite, just fsync *)
      end
  end.

Fixpoint plan (s : wstate) (ops : list wop) : list iostep * wstate :=
  match ops with
  | [] => ([], s)
  | o :: t => let '(a, s1) := wsteps s o in let '(b, s2) := plan s1 t in (a ++ b, s2)
  end.

(* what the source shows: committed transactions, labels, property-tree version *)
Definition committed (s : wstate) : list N * list N * N := (w_sunk s ++ w_pending s, w_labels s, snd (w_prop s)).

(* ---- backup / restore ---- *)
(* page file as of step i, log as of step j *)
Definition backup (steps : list iostep) (i j : nat) : disk :=
  {| d_pages := d_pages (apply_steps disk_empty (firstn i steps));
     d_log := d_log (apply_steps disk_empty (firstn j steps)) |}.
Definition restore (b : disk) : disk := b.

Definition same_set (a b : list N) : bool :=
  forallb (fun x => existsb (N.eqb x) b) a && forallb (fun x => existsb (N.eqb x) a) b.
Definition same_content (a b : list N * list N * N) : bool :=
  let '(t1, l1, v1) := a in let '(t2, l2, v2) := b in same_set t1 t2 && same_set l1 l2 && (v1 =? v2).

(* the restored database equals the source at some moment t in [i, j] *)
Definition consistent_at_some_moment (steps : list iostep) (i j : nat) : bool :=
  match content (restore (backup steps i j)) with
  | None => false
  | Some l => existsb (fun t => match content (apply_steps disk_empty (firstn t steps)) with
                                | Some l' => same_content l l' | None => false end) (seq i (S (j - i)))
  end.
