(* Store/IdMap_proofs.v — proofs about Store/Pager.v and Store/IdMap.v (C18) *)
From NDB Require Import Store.Pager Store.IdMap.
From Coq Require Import Lia ZifyBool ZifyN ZifyNat.
Ltac Zify.zify_post_hook ::= Z.div_mod_to_equations.
Open Scope N_scope.

(* ---- pager: allocation is fresh ---- *)
Lemma find_free_some : forall bm n start c, find_free bm start n = Some c ->
  bm c = false /\ start <= c /\ c < start + N.of_nat n.
Proof.
  induction n as [|k IH]; intros start c H; cbn [find_free] in H; [discriminate|].
  destruct (bm start) eqn:E.
  - destruct (IH _ _ H) as [A [B C]]. repeat split; [exact A|lia|lia].
  - inversion H. subst c. repeat split; [exact E|lia|lia].
Qed.

Definition first_data_is_two : first_data_page_id = 2 := eq_refl.

Lemma valid_data_page_spec : forall p, valid_data_page p = true <-> first_data_page_id <= p /\ p < bitmap_bits.
Proof. intros p. unfold valid_data_page. lia. Qed.

Lemma ensure_spec : forall s p s', wf_pager s -> ensure_allocated s p = Ok s' ->
  first_data_page_id <= p /\ p < bitmap_bits /\ pg_bm s' = bm_set (pg_bm s) p true /\ wf_pager s'.
Proof.
  intros s p s' [W1 W2] H. unfold ensure_allocated in H.
  destruct (valid_data_page p) eqn:V; [|discriminate].
  apply valid_data_page_spec in V. destruct V as [V1 V2].
  inversion H; subst s'; clear H. cbn [pg_bm pg_meta].
  split; [assumption|]. split; [assumption|]. split; [reflexivity|]. split.
  - destruct (m_next_page (pg_meta s) <=? p) eqn:E; cbn [pg_meta pg_bm set_next_page m_next_page]; lia.
  - intros q Hq. cbn [pg_meta pg_bm] in *. unfold bm_set.
    destruct (m_next_page (pg_meta s) <=? p) eqn:E; cbn [pg_meta pg_bm set_next_page m_next_page] in Hq.
    + assert (q =? p = false) as -> by lia. apply W2. lia.
    + assert (q =? p = false) as -> by lia. apply W2. exact Hq.
Qed.

Lemma allocate_spec : forall s p s', wf_pager s -> allocate_page s = Ok (p, s') ->
  pg_bm s p = false /\ first_data_page_id <= p /\ p < bitmap_bits /\
  pg_bm s' = bm_set (pg_bm s) p true /\ wf_pager s'.
Proof.
  intros s p s' W H. pose proof W as [W1 W2]. unfold allocate_page in H.
  set (m := pg_meta s) in *.
  destruct (find_free (pg_bm s) first_data_page_id (N.to_nat (m_next_page m - first_data_page_id))) as [c|] eqn:F.
  - destruct (find_free_some _ _ _ _ F) as [A [B C]].
    destruct (bitmap_bits <=? c) eqn:Eb; [discriminate|].
    assert (Hne : c =? m_next_page m = false) by lia. rewrite Hne in H.
    destruct (ensure_allocated s c) as [s2| |] eqn:En; try discriminate.
    inversion H; subst c s2; clear H.
    destruct (ensure_spec _ _ _ W En) as [E1 [E2 [E3 E4]]]. split; [|split; [|split; [|split]]]; assumption.
  - destruct (bitmap_bits <=? m_next_page m) eqn:Eb; [discriminate|].
    rewrite N.eqb_refl in H.
    set (s1 := {| pg_meta := set_next_page m (m_next_page m + 1); pg_bm := pg_bm s; pg_file_pages := pg_file_pages s |}) in *.
    assert (W' : wf_pager s1).
    { split; cbn [s1 pg_meta pg_bm set_next_page m_next_page]; [fold m in W1; lia|].
      intros q Hq. apply W2. fold m. lia. }
    destruct (ensure_allocated s1 (m_next_page m)) as [s2| |] eqn:En; try discriminate.
    inversion H; subst p s2; clear H.
    destruct (ensure_spec _ _ _ W' En) as [E1 [E2 [E3 E4]]].
    split; [|split; [|split; [|split]]]; try assumption. apply W2. fold m. lia.
Qed.

Lemma free_spec : forall s p s', wf_pager s -> free_page s p = Ok s' ->
  pg_bm s p = true /\ pg_bm s' = bm_set (pg_bm s) p false /\ wf_pager s'.
Proof.
  intros s p s' [W1 W2] H. unfold free_page in H.
  destruct (valid_data_page p); [|discriminate]. destruct (pg_bm s p) eqn:E; [|discriminate].
  inversion H; subst s'; clear H. split; [reflexivity|]. split; [reflexivity|]. split; [exact W1|].
  intros q Hq. cbn [pg_bm pg_meta] in *. unfold bm_set. destruct (q =? p); [reflexivity|]. apply W2. exact Hq.
Qed.

Lemma wf_pager_new : wf_pager pager_new.
Proof.
  split; [cbn; lia|]. intros q Hq. cbn [pager_new pg_bm pg_meta meta_new m_next_page] in *.
  unfold bm_new. change meta_page_id with 0. change bitmap_page_id with 1. change first_data_page_id with 2 in Hq. lia.
Qed.

(* for every call sequence: a page is handed out only while it is not allocated (in particular never twice
   without a free in between), never the meta or bitmap page, and only allocated pages are freed *)
Theorem alloc_fresh : forall cs s, wf_pager s -> fresh_trace (pg_bm s) (fst (run s cs)).
Proof.
  induction cs as [|c t IH]; intros s W; cbn [run]; [exact I|].
  destruct (step s c) as [e s1] eqn:St. destruct (run s1 t) as [es s2] eqn:R. cbn [fst].
  assert (IH' : forall s1', wf_pager s1' -> fresh_trace (pg_bm s1') (fst (run s1' t))) by exact IH.
  destruct c as [|p|p]; cbn [step] in St.
  - destruct (allocate_page s) as [[p s']| |] eqn:A; inversion St; subst e s1; clear St; cbn [fresh_trace].
    + destruct (allocate_spec _ _ _ W A) as [A1 [A2 [A3 [A4 A5]]]].
      repeat split; try assumption. rewrite <- A4. specialize (IH' _ A5). rewrite R in IH'. exact IH'.
    + specialize (IH' _ W). rewrite R in IH'. exact IH'.
    + specialize (IH' _ W). rewrite R in IH'. exact IH'.
  - destruct (free_page s p) as [s'| |] eqn:A; inversion St; subst e s1; clear St; cbn [fresh_trace].
    + destruct (free_spec _ _ _ W A) as [A1 [A2 A3]]. split; [exact A1|].
      rewrite <- A2. specialize (IH' _ A3). rewrite R in IH'. exact IH'.
    + specialize (IH' _ W). rewrite R in IH'. exact IH'.
    + specialize (IH' _ W). rewrite R in IH'. exact IH'.
  - destruct (ensure_allocated s p) as [s'| |] eqn:A; inversion St; subst e s1; clear St; cbn [fresh_trace].
    + destruct (ensure_spec _ _ _ W A) as [A1 [A2 [A3 A4]]].
      rewrite <- A3. specialize (IH' _ A4). rewrite R in IH'. exact IH'.
    + specialize (IH' _ W). rewrite R in IH'. exact IH'.
    + specialize (IH' _ W). rewrite R in IH'. exact IH'.
Qed.

(* the hypotheses are met by the fresh database; and the discipline is not vacuous *)
Example alloc_fresh_example :
  fst (run pager_new [CAlloc; CAlloc; CFree 2; CAlloc; CEnsure 7; CAlloc; CFree 9; CAlloc])
  = [EvAlloc 2; EvAlloc 3; EvFree 2; EvAlloc 2; EvEnsure 7; EvAlloc 4; EvErr; EvAlloc 5].
Proof. vm_compute. reflexivity. Qed.

(* ---- idmap: where record n lives ---- *)
Definition rpp_value : i2e_records_per_page = 512 := eq_refl.

Theorem i2e_in_owned_pages : forall start n k, n < i2e_records_per_page * k ->
  start <= fst (i2e_location start n) /\ fst (i2e_location start n) < start + k /\
  snd (i2e_location start n) + i2e_record_size <= page_size.
Proof.
  intros start n k H. unfold i2e_location. cbn [fst snd].
  rewrite rpp_value in *. change i2e_record_size with 16. change page_size with 8192.
  pose proof (N.div_mod n 512 ltac:(lia)). pose proof (N.mod_lt n 512 ltac:(lia)).
  set (q := n / 512) in *. set (r := n mod 512) in *. clearbody q r. lia.
Qed.

(* record number records_per_page * j is the first one in page start + j: the table needs a new page *)
Lemma i2e_boundary : forall start j, i2e_location start (i2e_records_per_page * j) = (start + j, 0).
Proof.
  intros start j. unfold i2e_location. rewrite rpp_value.
  rewrite (N.mul_comm 512 j), N.div_mul, N.mod_mul by lia. reflexivity.
Qed.

(* ---- the monitor is sound ---- *)
Lemma check_trace_app : forall a b o, check_trace o (a ++ b) = check_trace o a && check_trace (owners_after o a) b.
Proof.
  induction a as [|e t IH]; intros b o; cbn [app check_trace owners_after]; [reflexivity|].
  rewrite IH. apply Bool.andb_assoc.
Qed.

Lemma tag_eqb_eq : forall a b, tag_eqb a b = true -> a = b.
Proof. intros [] []; cbn; intro H; try discriminate; reflexivity. Qed.

(* if the checker accepts a trace then at every position: a write or free by structure t goes to a page
   that t owns at that moment, and an allocation takes a page nobody owns (no page ever has two owners) *)
Theorem check_trace_sound : forall tr o, check_trace o tr = true ->
  forall pre e post, tr = pre ++ e :: post ->
    match e with
    | WWrite t p => owners_after o pre p = Some t
    | WFree t p => owners_after o pre p = Some t
    | WAlloc t p => owners_after o pre p = None
    end.
Proof.
  intros tr o H pre e post ->. rewrite check_trace_app in H.
  apply Bool.andb_true_iff in H. destruct H as [_ H]. cbn [check_trace] in H.
  apply Bool.andb_true_iff in H. destruct H as [H _].
  destruct e as [t p|t p|t p]; cbn [ev_ok] in H; destruct (owners_after o pre p) as [t'|]; try discriminate; try reflexivity;
    apply tag_eqb_eq in H; subst; reflexivity.
Qed.

(* the strict checker is the tolerant monitor without spills and without other violations *)
Lemma monitor_clean : forall tr o start i, monitor o start i tr = (0, None) -> check_trace o tr = true.
Proof.
  induction tr as [|e t IH]; intros o start i H; cbn [monitor check_trace] in *; [reflexivity|].
  destruct (ev_ok o e) eqn:E; cbn [andb].
  - exact (IH _ _ _ H).
  - destruct (is_spill o start e); [|discriminate].
    destruct (monitor o start (N.succ i) t) as [n v]. inversion H. lia.
Qed.

(* ---- the refutation: growth of the node table past its first page writes into a foreign page ---- *)
Definition spill_history : list pop := PNode :: PAlloc :: repeat PNode (N.to_nat i2e_records_per_page).

Lemma spill_history_refutes :
  check_trace no_owner (ptrace spill_history) = false /\
  monitor no_owner 2 0 (ptrace spill_history) = (1, None) /\
  nth_error (fst (fst (prun mstate_new spill_history))) 513 = Some (PvNode 3) /\
  nth_error (fst (fst (prun mstate_new spill_history))) 1 = Some (PvAlloc 3).
Proof. vm_compute. repeat split; reflexivity. Qed.

(* without an intervening allocation the same growth is fine: the next page is free and the table takes it *)
Lemma no_spill_when_next_page_free :
  check_trace no_owner (ptrace (PNode :: repeat PNode (N.to_nat i2e_records_per_page) ++ [PAlloc])) = true.
Proof. vm_compute. reflexivity. Qed.

(* conditional, per record: a record write passes the monitor when its page is unowned or the table's *)
Definition node_events (o : owners) (p : N) : list wev :=
  (match o p with None => [WAlloc TIdmap p] | Some _ => [] end) ++ [WWrite TIdmap p].

Theorem node_write_owner_correct : forall o p,
  check_trace o (node_events o p) = true <-> (o p = None \/ o p = Some TIdmap).
Proof.
  intros o p. unfold node_events. destruct (o p) as [t|] eqn:E; cbn [app check_trace ev_ok ev_apply].
  - rewrite E. destruct t; cbn; split; intro H; try discriminate; try (right; reflexivity); try reflexivity;
      destruct H as [H|H]; discriminate.
  - rewrite E. unfold own_set. rewrite N.eqb_refl. cbn. split; [left; reflexivity|reflexivity].
Qed.
