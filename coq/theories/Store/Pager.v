(* Store/Pager.v — MODEL of nervusdb-storage/src/pager.rs: meta page fields, allocation bitmap,
   lowest-free allocate_page, ensure_allocated (no ownership check), free_page, read/write guards.
   Executable definitions only; proofs are in Pager_proofs.v.  Constants come from Gen/Consts.v. *)
From NDB Require Export Base.Bytes Gen.Consts.
Open Scope N_scope.

Inductive res (A : Type) := Ok (a : A) | Err | OutOfFuel.
Arguments Ok {A} a. Arguments Err {A}. Arguments OutOfFuel {A}.

(* ---- meta page ---- *)
Record meta := {
  m_next_page : N;        (* next_page_id: high-water mark of the page file *)
  m_i2e_start : N;        (* first page of the node table (0 = none) *)
  m_i2e_len : N;          (* number of node records *)
  m_next_internal : N;
  m_catalog_root : N;     (* index catalog page (0 = none) *)
  m_next_index_id : N
}.

Definition slice (off len : N) (b : bytes) : bytes := firstn (N.to_nat len) (skipn (N.to_nat off) b).
Definition field (off len : N) (b : bytes) : N := unle (slice off len b).

(* Meta::decode_page restricted to the fields the models use (magic/version/epoch checks are not modelled) *)
Definition decode_meta (b : bytes) : meta := {|
  m_next_page := field meta_off_next_page_id meta_len_next_page_id b;
  m_i2e_start := field meta_off_i2e_start_page_id meta_len_i2e_start_page_id b;
  m_i2e_len := field meta_off_i2e_len meta_len_i2e_len b;
  m_next_internal := field meta_off_next_internal_id meta_len_next_internal_id b;
  m_catalog_root := field meta_off_index_catalog_root meta_len_index_catalog_root b;
  m_next_index_id := field meta_off_next_index_id meta_len_next_index_id b
|}.

(* ---- pager state ---- *)
Record pager := {
  pg_meta : meta;
  pg_bm : N -> bool;      (* Bitmap: bit p = page p allocated *)
  pg_file_pages : N       (* length of the page file in pages *)
}.

Definition bm_set (bm : N -> bool) (p : N) (v : bool) : N -> bool := fun q => if q =? p then v else bm q.

Definition bm_new : N -> bool := fun q => (q =? meta_page_id) || (q =? bitmap_page_id).

Definition meta_new : meta := {| m_next_page := first_data_page_id; m_i2e_start := 0; m_i2e_len := 0;
  m_next_internal := 0; m_catalog_root := 0; m_next_index_id := 0 |}.

Definition pager_new : pager := {| pg_meta := meta_new; pg_bm := bm_new; pg_file_pages := 2 |}.

Definition set_next_page (m : meta) (v : N) : meta := {| m_next_page := v; m_i2e_start := m_i2e_start m; m_i2e_len := m_i2e_len m;
  m_next_internal := m_next_internal m; m_catalog_root := m_catalog_root m; m_next_index_id := m_next_index_id m |}.

(* validate_data_page_id *)
Definition valid_data_page (p : N) : bool := (first_data_page_id <=? p) && (p <? bitmap_bits).

(* Bitmap::find_free_in_range start end = (start..end).find(|id| !get_bit(id)), by counting *)
Fixpoint find_free (bm : N -> bool) (start : N) (n : nat) : option N :=
  match n with
  | O => None
  | S k => if bm start then find_free bm (N.succ start) k else Some start
  end.

(* ensure_allocated: raises next_page_id, sets the bit whatever the bit was, grows the file *)
Definition ensure_allocated (s : pager) (p : N) : res pager :=
  if valid_data_page p then
    let m := pg_meta s in
    let m' := if m_next_page m <=? p then set_next_page m (p + 1) else m in
    Ok {| pg_meta := m'; pg_bm := bm_set (pg_bm s) p true; pg_file_pages := N.max (pg_file_pages s) (p + 1) |}
  else Err.

Definition allocate_page (s : pager) : res (N * pager) :=
  let m := pg_meta s in
  let cand := match find_free (pg_bm s) first_data_page_id (N.to_nat (m_next_page m - first_data_page_id)) with
              | Some c => c | None => m_next_page m end in
  if bitmap_bits <=? cand then Err else
  let s1 := if cand =? m_next_page m
            then {| pg_meta := set_next_page m (cand + 1); pg_bm := pg_bm s; pg_file_pages := pg_file_pages s |} else s in
  match ensure_allocated s1 cand with
  | Ok s2 => Ok (cand, s2)
  | Err => Err
  | OutOfFuel => OutOfFuel
  end.

Definition free_page (s : pager) (p : N) : res pager :=
  if valid_data_page p then
    if pg_bm s p then Ok {| pg_meta := pg_meta s; pg_bm := bm_set (pg_bm s) p false; pg_file_pages := pg_file_pages s |}
    else Err
  else Err.

(* read_page / write_page succeed exactly on allocated data pages *)
Definition page_accessible (s : pager) (p : N) : bool := valid_data_page p && pg_bm s p.

(* ---- call sequences ---- *)
Inductive call := CAlloc | CFree (p : N) | CEnsure (p : N).
Inductive event := EvAlloc (p : N) | EvFree (p : N) | EvEnsure (p : N) | EvErr.

Definition step (s : pager) (c : call) : event * pager :=
  match c with
  | CAlloc => match allocate_page s with Ok (p, s') => (EvAlloc p, s') | _ => (EvErr, s) end
  | CFree p => match free_page s p with Ok s' => (EvFree p, s') | _ => (EvErr, s) end
  | CEnsure p => match ensure_allocated s p with Ok s' => (EvEnsure p, s') | _ => (EvErr, s) end
  end.

Fixpoint run (s : pager) (cs : list call) : list event * pager :=
  match cs with
  | [] => ([], s)
  | c :: t => let '(e, s1) := step s c in let '(es, s2) := run s1 t in (e :: es, s2)
  end.

(* the allocation discipline a trace has to respect: a page is handed out only while its bit is clear,
   never below the first data page, and only allocated pages are freed *)
Fixpoint fresh_trace (bm : N -> bool) (tr : list event) : Prop :=
  match tr with
  | [] => True
  | EvAlloc p :: t => bm p = false /\ first_data_page_id <= p /\ p < bitmap_bits /\ fresh_trace (bm_set bm p true) t
  | EvFree p :: t => bm p = true /\ fresh_trace (bm_set bm p false) t
  | EvEnsure p :: t => fresh_trace (bm_set bm p true) t
  | EvErr :: t => fresh_trace bm t
  end.

(* state invariant: nothing is allocated at or above the high-water mark, which is above the reserved pages *)
Definition wf_pager (s : pager) : Prop :=
  first_data_page_id <= m_next_page (pg_meta s) /\ forall q, m_next_page (pg_meta s) <= q -> pg_bm s q = false.
