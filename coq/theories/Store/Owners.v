(* Store/Owners.v — MODEL of arbitrary histories of pager users for C18: structures other than the node
   table allocate pages, write pages they were given and free them (structure-local discipline), the node
   table appends records as idmap.rs does (first page by allocate_page, later pages by ensure_allocated
   without an ownership check).  Each step yields the tagged page events the hook would record and whether
   it was a spill (a node record written into a page another structure holds).  Proofs: Owners_proofs.v. *)
From NDB Require Export Store.Pager Store.IdMap.
Open Scope N_scope.

Inductive sop :=
| SAlloc (t : tag)             (* structure t obtains a page from allocate_page *)
| SWrite (t : tag) (p : N)     (* structure t writes page p (it only does so for pages it holds) *)
| SFree (t : tag) (p : N)      (* structure t frees page p (only pages it holds) *)
| SNode.                       (* the node table appends one record *)

Record sstate := { ss_pager : pager; ss_start : N; ss_len : N; ss_own : owners }.
Definition sstate_new : sstate := {| ss_pager := pager_new; ss_start := 0; ss_len := 0; ss_own := no_owner |}.

Definition holds (o : owners) (t : tag) (p : N) : bool :=
  match o p with Some t' => tag_eqb t t' | None => false end.
Definition foreign (o : owners) (p : N) : bool :=
  match o p with Some t' => negb (tag_eqb t' TIdmap) | None => false end.

(* events, number of spills (0/1), next state *)
Definition sstep (s : sstate) (c : sop) : list wev * N * sstate :=
  match c with
  | SAlloc t =>
      if tag_eqb t TIdmap then ([], 0, s) else
      match allocate_page (ss_pager s) with
      | Ok (p, pg) => ([WAlloc t p], 0, {| ss_pager := pg; ss_start := ss_start s; ss_len := ss_len s; ss_own := own_set (ss_own s) p (Some t) |})
      | _ => ([], 0, s)
      end
  | SWrite t p =>
      if negb (tag_eqb t TIdmap) && holds (ss_own s) t p then ([WWrite t p], 0, s) else ([], 0, s)
  | SFree t p =>
      if negb (tag_eqb t TIdmap) && holds (ss_own s) t p then
        match free_page (ss_pager s) p with
        | Ok pg => ([WFree t p], 0, {| ss_pager := pg; ss_start := ss_start s; ss_len := ss_len s; ss_own := own_set (ss_own s) p None |})
        | _ => ([], 0, s)
        end
      else ([], 0, s)
  | SNode =>
      let first := if ss_start s =? 0 then
                     match allocate_page (ss_pager s) with
                     | Ok (p, pg) => Ok (p, pg, [WAlloc TIdmap p], own_set (ss_own s) p (Some TIdmap))
                     | _ => Err end
                   else Ok (ss_start s, ss_pager s, [], ss_own s) in
      match first with
      | Ok (start, pg, evs, o) =>
          let q := fst (i2e_location start (ss_len s)) in
          match ensure_allocated pg q with
          | Ok pg' =>
              match o q with
              | None => (evs ++ [WAlloc TIdmap q; WWrite TIdmap q], 0,
                         {| ss_pager := pg'; ss_start := start; ss_len := ss_len s + 1; ss_own := own_set o q (Some TIdmap) |})
              | Some t' =>
                  (evs ++ [WWrite TIdmap q], (if tag_eqb t' TIdmap then 0 else 1),
                   {| ss_pager := pg'; ss_start := start; ss_len := ss_len s + 1; ss_own := o |})
              end
          | _ => (evs, 0, {| ss_pager := pg; ss_start := start; ss_len := ss_len s; ss_own := o |})
          end
      | _ => ([], 0, s)
      end
  end.

Fixpoint srun (s : sstate) (cs : list sop) : list wev * N * sstate :=
  match cs with
  | [] => ([], 0, s)
  | c :: t => let '(w, n, s1) := sstep s c in let '(ws, m, s2) := srun s1 t in (w ++ ws, n + m, s2)
  end.

Definition strace (s : sstate) (cs : list sop) : list wev := fst (fst (srun s cs)).
Definition spills (s : sstate) (cs : list sop) : N := snd (fst (srun s cs)).

(* the first page the node table was given, as the harness reads it off a trace *)
Fixpoint start_of (tr : list wev) : N :=
  match tr with
  | [] => 0
  | WAlloc TIdmap p :: _ => p
  | _ :: t => start_of t
  end.
