(* Store/Vacuum_proofs.v — proofs about Store/Vacuum.v *)
From NDB Require Import Store.Pager Store.Vacuum.
From Coq Require Import Lia ZifyBool ZifyN ZifyNat.
Open Scope N_scope.

(* the layout vacuum.rs expects is the layout csr.rs writes and loads (constants regenerated from both files) *)
Lemma csr_layout_agrees : csr_pages_vacuum = csr_pages_load.
Proof. reflexivity. Qed.

Lemma csr_header_agrees : csr_hdr_encode = csr_hdr_decode.
Proof. reflexivity. Qed.

Lemma idmap_pages_agree : forall r, idmap_pages_vacuum r = idmap_pages_load r.
Proof. reflexivity. Qed.

Lemma mem_In : forall x l, mem x l = true <-> In x l.
Proof.
  induction l as [|y t IH]; cbn [mem In]; [split; [discriminate|tauto]|].
  rewrite Bool.orb_true_iff, IH, N.eqb_eq. split; intros [H|H]; auto.
Qed.

Lemma lookup_restrict : forall vis h id, mem id vis = true -> lookup id (restrict h vis) = lookup id h.
Proof.
  intros vis h id Hm. induction h as [|[i p] t IH]; [reflexivity|].
  cbn [restrict filter lookup]. fold (restrict t vis).
  destruct (i =? id) eqn:E.
  - apply N.eqb_eq in E. subst i. rewrite Hm. cbn [lookup]. rewrite N.eqb_refl. reflexivity.
  - destruct (mem i vis); cbn [lookup]; rewrite ?E; exact IH.
Qed.

Lemma read_page_restrict : forall vis h id, In id vis -> read_page (restrict h vis) id = read_page h id.
Proof.
  intros vis h id Hin. unfold read_page. destruct (valid_data_page id); [|reflexivity].
  apply lookup_restrict. apply mem_In. exact Hin.
Qed.

(* a reader whose reads (on the original heap) all fall into the kept set sees the same thing afterwards *)
Theorem vacuum_frame : forall A (rd : reader A) h r vis h',
  vacuum h r = Ok (vis, h') ->
  (forall id, In id (touched h rd) -> In id vis) ->
  run_reader h' rd = run_reader h rd /\ touched h' rd = touched h rd.
Proof.
  intros A rd h r vis h' Hv.
  assert (Hh : h' = restrict h vis).
  { unfold vacuum in Hv. destruct (mark h r) as [v| |]; try discriminate. destruct (copy_ok h v); try discriminate.
    inversion Hv. reflexivity. }
  subst h'. clear Hv.
  induction rd as [a | id k IH]; intros Ht; cbn [run_reader touched]; [split; reflexivity|].
  assert (Hid : In id vis) by (apply Ht; cbn [touched]; left; reflexivity).
  rewrite (read_page_restrict vis h id Hid).
  destruct (IH (read_page h id)) as [H1 H2].
  { intros x Hx. apply Ht. cbn [touched]. right. exact Hx. }
  split; [exact H1 | f_equal; exact H2].
Qed.

(* ---- the certificate is sound ---- *)
Lemma kind_eqb_eq : forall a b, kind_eqb a b = true <-> a = b.
Proof.
  intros [|x| |] [|y| |]; cbn [kind_eqb]; split; intro H; try discriminate; try reflexivity.
  - apply Bool.eqb_prop in H. subst; reflexivity.
  - inversion H. apply Bool.eqb_reflx.
Qed.

Lemma memk_In : forall x l, memk x l = true <-> In x l.
Proof.
  intros [k id] l. unfold memk. rewrite existsb_exists. split.
  - intros [[k' id'] [Hin H]]. cbn [fst snd] in H. apply Bool.andb_true_iff in H. destruct H as [H1 H2].
    apply kind_eqb_eq in H1. apply N.eqb_eq in H2. subst. exact Hin.
  - intros Hin. exists (k, id). split; [exact Hin|]. cbn [fst snd]. apply Bool.andb_true_iff. split.
    + apply kind_eqb_eq. reflexivity.
    + apply N.eqb_refl.
Qed.

Lemma closed_items_sound : forall h r items, closed_items h r items = true ->
  forall k id, reach h r k id -> In (k, id) items.
Proof.
  intros h r items Hc. unfold closed_items in Hc. apply Bool.andb_true_iff in Hc. destruct Hc as [Hr Hs].
  rewrite forallb_forall in Hr. rewrite forallb_forall in Hs.
  intros k id Hreach. induction Hreach as [k id Hin | k id k' id' _ IH Hin].
  - apply memk_In. apply Hr. exact Hin.
  - specialize (Hs (k, id) IH). cbn [fst snd] in Hs. rewrite forallb_forall in Hs.
    apply memk_In. apply Hs. exact Hin.
Qed.

Theorem cert_sound : forall h r vis, cert h r vis = true ->
  forall k id, reach h r k id -> In id vis.
Proof.
  intros h r vis Hc k id Hreach. unfold cert in Hc. apply Bool.andb_true_iff in Hc. destruct Hc as [Hcl Hsub].
  pose proof (closed_items_sound _ _ _ Hcl k id Hreach) as Hin.
  rewrite forallb_forall in Hsub. specialize (Hsub (k, id) Hin). cbn [snd] in Hsub.
  apply mem_In. exact Hsub.
Qed.

(* vacuum preserves what any rooted reader computes, once the kept set covers the read closure *)
Theorem vacuum_preserves_rooted : forall A (rd : reader A) h r vis h',
  vacuum h r = Ok (vis, h') ->
  (forall k id, reach h r k id -> In id vis) ->
  rooted h r rd ->
  run_reader h' rd = run_reader h rd.
Proof.
  intros A rd h r vis h' Hv Hcov Hroot.
  apply (vacuum_frame A rd h r vis h' Hv).
  intros id Hin. destruct (Hroot id Hin) as [k Hk]. exact (Hcov k id Hk).
Qed.

(* ---- non-vacuity: a small database with a property tree, blobs, a segment with reverse arrays ---- *)
Definition ex_csr_meta : bytes :=
  csr_magic_written ++ le 8 1 ++ le 4 0 ++ le 4 1 ++ le 4 0 ++ le 4 1 ++ le 8 3 ++ le 8 2 ++ le 8 3 ++ le 8 2
  ++ le 4 1 ++ le 4 1 ++ le 4 1 ++ le 4 1 ++ le 8 10 ++ le 8 11 ++ le 8 12 ++ le 8 13.
Definition ex_raw : praw := {| p_bt := None; p_blob_next := 0; p_blob_len := 0; p_csr := [] |}.
Definition ex_heap : heap := [
  (2, ex_raw);                                                                           (* node table *)
  (3, {| p_bt := None; p_blob_next := 0; p_blob_len := 0; p_csr := [] |});               (* catalog *)
  (4, {| p_bt := Some (BtLeaf 0 [6]); p_blob_next := 0; p_blob_len := 0; p_csr := [] |}); (* hnsw vec tree *)
  (5, {| p_bt := Some (BtInternal 0 7 [8]); p_blob_next := 0; p_blob_len := 0; p_csr := [] |}); (* property tree root *)
  (6, {| p_bt := None; p_blob_next := 0; p_blob_len := 16; p_csr := [] |});
  (7, {| p_bt := Some (BtLeaf 8 [9]); p_blob_next := 0; p_blob_len := 0; p_csr := [] |});
  (8, {| p_bt := Some (BtLeaf 0 []); p_blob_next := 0; p_blob_len := 0; p_csr := [] |});
  (9, {| p_bt := None; p_blob_next := 15; p_blob_len := 8182; p_csr := [] |});
  (10, ex_raw); (11, ex_raw); (12, ex_raw); (13, ex_raw);
  (14, {| p_bt := None; p_blob_next := 0; p_blob_len := 0; p_csr := ex_csr_meta |});
  (15, {| p_bt := None; p_blob_next := 0; p_blob_len := 3; p_csr := [] |});
  (16, ex_raw)                                                                           (* orphan *)
].
Definition ex_roots : roots := {| r_i2e_start := 2; r_i2e_len := 3; r_catalog := 3; r_cat_entries := Some [(true, 4)];
  r_props := 5; r_stats := 0; r_segments := [14] |}.

Example ex_vacuum_keeps :
  match vacuum ex_heap ex_roots with
  | Ok (vis, h') => cert ex_heap ex_roots vis && negb (mem 16 vis) && mem 12 vis && mem 13 vis && (length h' =? 14)%nat
  | _ => false
  end = true.
Proof. vm_compute. reflexivity. Qed.

(* a rooted reader: load the segment as csr.rs does (meta page, then the four page lists) *)
Definition ex_load_segment : reader (option (list bool)) :=
  Read 14 (fun m => match m with
    | None => Ret None
    | Some pg => match csr_pages_load (p_csr pg) with
                 | Ok ids => (fix go (l : list N) (acc : list bool) : reader (option (list bool)) :=
                                match l with [] => Ret (Some acc)
                                | x :: t => Read x (fun p => go t (acc ++ [match p with Some _ => true | None => false end])) end) ids []
                 | _ => Ret None end end).
Example ex_load_segment_reads : touched ex_heap ex_load_segment = [14; 10; 11; 12; 13]
  /\ run_reader ex_heap ex_load_segment = Some [true; true; true; true].
Proof. vm_compute. split; reflexivity. Qed.
