(* Store/Readers.v — MODEL of the engine's read paths as page-reading programs (C28):
   node-table load (idmap.rs IdMap::load), catalog page, segment load (csr.rs decode_segment),
   blob chain read (blob_store.rs read_direct), B-tree descent to a leaf and sibling scan
   (btree.rs cursor_lower_bound / advance) with the key comparisons abstracted as an arbitrary choice
   function, and sessions made of such queries.  Results are logs of the numbers a query observed.
   Proofs (rootedness): Readers_proofs.v. *)
From NDB Require Export Store.Pager Store.Vacuum.
Open Scope N_scope.

Definition log := list N.
Definition rd := reader log.

(* BlobStore::read_direct: follow next pointers until 0; a bad page aborts the query *)
Fixpoint rd_blob (fuel : nat) (id : N) (l : log) (k : log -> rd) : rd :=
  match fuel with
  | O => k l
  | S f =>
    if id =? 0 then k l else
    Read id (fun pg => match pg with
      | None => k (l ++ [0])
      | Some p => if max_blob_data <? p_blob_len p then k (l ++ [0])
                  else rd_blob f (p_blob_next p) (l ++ [id; p_blob_len p]) k
      end)
  end.

(* cursor_lower_bound: descend from the root; `choose` stands for the key comparisons *)
Fixpoint rd_descend (fuel : nat) (choose : praw -> nat) (id : N) (k : option (N * praw) -> rd) : rd :=
  match fuel with
  | O => k None
  | S f =>
    if id =? 0 then k None else
    Read id (fun pg => match pg with
      | None => k None
      | Some p =>
        match p_bt p with
        | None => k None
        | Some (BtLeaf _ _) => k (Some (id, p))
        | Some (BtInternal _ lft ch) => rd_descend f choose (nth (choose p) (lft :: ch) lft) k
        end
      end)
  end.

(* cursor advance: collect the payloads of the leaf and of up to `adv` right siblings *)
Fixpoint rd_scan (adv : nat) (p : praw) (acc : list N) (k : list N -> rd) : rd :=
  match p_bt p with
  | Some (BtLeaf rsib pls) =>
    match adv with
    | O => k (acc ++ pls)
    | S a => if rsib =? 0 then k (acc ++ pls)
             else Read rsib (fun pg => match pg with
                    | None => k (acc ++ pls)
                    | Some p' => rd_scan a p' (acc ++ pls) k end)
    end
  | _ => k acc
  end.

(* a lookup in one tree: descend, scan, and for trees whose payloads are blob ids read the blob of one of
   the payloads found (`pick` chooses which; it can only choose among what the scan returned) *)
Definition rd_tree (fuel : nat) (collect : bool) (root : N) (choose : praw -> nat) (adv : nat) (pick : list N -> N)
  (l : log) (k : log -> rd) : rd :=
  rd_descend fuel choose root (fun leaf => match leaf with
    | None => k (l ++ [0])
    | Some (_, p) => rd_scan adv p [] (fun pls =>
        let x := pick pls in
        if collect && mem x pls then rd_blob fuel x (l ++ pls) k else k (l ++ pls))
    end).

(* CsrSegment::load: meta page, then every page of the four lists *)
Fixpoint rd_pages (ids : list N) (l : log) (k : log -> rd) : rd :=
  match ids with
  | [] => k l
  | x :: t => if x =? 0 then k (l ++ [0])
              else Read x (fun pg => match pg with None => k (l ++ [0]) | Some _ => rd_pages t (l ++ [x]) k end)
  end.
Definition rd_segment (m : N) (l : log) (k : log -> rd) : rd :=
  if m =? 0 then k l else
  Read m (fun pg => match pg with
    | None => k (l ++ [0])
    | Some p => match csr_pages_load (p_csr p) with
                | Ok ids => rd_pages ids (l ++ [m]) k
                | _ => k (l ++ [0]) end
    end).

(* IdMap::load: record n is read from page i2e_location start n, for n = 0 .. len-1 *)
Fixpoint rd_records (start : N) (n : nat) (cnt : nat) (l : log) (k : log -> rd) : rd :=
  match cnt with
  | O => k l
  | S c => Read (start + N.of_nat n / records_per_page)
                (fun pg => match pg with None => k (l ++ [0]) | Some _ => rd_records start (S n) c (l ++ [N.of_nat n]) k end)
  end.
Definition rd_idmap (r : roots) (l : log) (k : log -> rd) : rd :=
  if r_i2e_start r =? 0 then k l else rd_records (r_i2e_start r) 0 (N.to_nat (r_i2e_len r)) l k.

(* ---- sessions ---- *)
Inductive query :=
| QOpen                                        (* Pager::open: meta + bitmap page *)
| QIdmap                                       (* IdMap::load *)
| QCatalog                                     (* IndexCatalog::open_existing *)
| QSegment (m : N)                             (* CsrSegment::load of a manifest segment *)
| QStats                                       (* statistics blob *)
| QTree (collect : bool) (root : N) (choose : praw -> nat) (adv : nat) (pick : list N -> N).
                                               (* property store / index / HNSW tree lookup *)

Definition rd_query (fuel : nat) (r : roots) (q : query) (l : log) (k : log -> rd) : rd :=
  match q with
  | QOpen => Read 0 (fun _ => Read 1 (fun _ => k l))
  | QIdmap => rd_idmap r l k
  | QCatalog => if r_catalog r =? 0 then k l else Read (r_catalog r) (fun _ => k l)
  | QSegment m => rd_segment m l k
  | QStats => rd_blob fuel (r_stats r) l k
  | QTree c root choose adv pick => rd_tree fuel c root choose adv pick l k
  end.

Fixpoint rd_session (fuel : nat) (r : roots) (qs : list query) (l : log) : rd :=
  match qs with
  | [] => Ret l
  | q :: t => rd_query fuel r q l (fun l' => rd_session fuel r t l')
  end.

(* the queries the engine can issue against a database with roots r *)
Definition valid_query (r : roots) (q : query) : Prop :=
  match q with
  | QSegment m => In m (r_segments r)
  | QTree c root _ _ _ => root = 0 \/ In (KBt c, root) (root_items r)
  | _ => True
  end.
