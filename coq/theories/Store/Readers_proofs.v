(* Store/Readers_proofs.v — the modelled read paths are rooted: every page they touch is in the read
   closure `reach`; hence (with Vacuum_complete) vacuum preserves what they compute. *)
From NDB Require Import Store.Pager Store.Vacuum Store.Vacuum_proofs Store.Vacuum_complete Store.Readers.
From Coq Require Import Lia ZifyBool ZifyN ZifyNat.
Ltac Zify.zify_post_hook ::= Z.div_mod_to_equations.
Open Scope N_scope.

Section Rooted.
Variable h : heap.
Variable r : roots.

Definition okt (l : list N) : Prop := forall x, In x l -> exists k, reach h r k x.

Lemma okt_read : forall id (kk : option praw -> rd),
  (exists k, reach h r k id) -> okt (touched h (kk (read_page h id))) -> okt (touched h (Read id kk)).
Proof.
  intros id kk Hid Hk x Hx. cbn [touched] in Hx. destruct Hx as [<-|Hx]; [exact Hid|exact (Hk x Hx)].
Qed.

Lemma nz1 : forall x, x <> 0 -> In x (nz [x]).
Proof. intros x Hx. apply nz_In. split; [left; reflexivity|exact Hx]. Qed.

Lemma rd_blob_ok : forall fuel id l k,
  (id <> 0 -> reach h r KBlob id) -> (forall l', okt (touched h (k l'))) ->
  okt (touched h (rd_blob fuel id l k)).
Proof.
  induction fuel as [|f IH]; intros id l k Hid Hk; cbn [rd_blob]; [apply Hk|].
  destruct (id =? 0) eqn:Z; [apply Hk|].
  assert (Hn : id <> 0) by (intro E; subst; discriminate).
  apply okt_read; [exists KBlob; exact (Hid Hn)|].
  destruct (read_page h id) as [p|] eqn:R; [|apply Hk].
  destruct (max_blob_data <? p_blob_len p); [apply Hk|].
  apply IH; [|exact Hk]. intros Hnext.
  apply (reach_step h r KBlob id); [exact (Hid Hn)|].
  unfold succs. rewrite R. apply map_pair_in. apply nz1. exact Hnext.
Qed.

Lemma rd_descend_ok : forall fuel choose c id k,
  (id <> 0 -> reach h r (KBt c) id) ->
  (forall leaf p, reach h r (KBt c) leaf -> read_page h leaf = Some p -> okt (touched h (k (Some (leaf, p))))) ->
  okt (touched h (k None)) ->
  okt (touched h (rd_descend fuel choose id k)).
Proof.
  induction fuel as [|f IH]; intros choose c id k Hid Hleaf Hnone; cbn [rd_descend]; [exact Hnone|].
  destruct (id =? 0) eqn:Z; [exact Hnone|].
  assert (Hn : id <> 0) by (intro E; subst; discriminate).
  apply okt_read; [exists (KBt c); exact (Hid Hn)|].
  destruct (read_page h id) as [p|] eqn:R; [|exact Hnone].
  destruct (p_bt p) as [[rsib pls|rsib lft ch]|] eqn:B; [| |exact Hnone].
  - apply Hleaf; [exact (Hid Hn)|exact R].
  - apply (IH choose c); [|exact Hleaf|exact Hnone].
    intros _. apply (reach_step h r (KBt c) id); [exact (Hid Hn)|].
    unfold succs. rewrite R, B. apply map_pair_in. apply in_or_app. right.
    set (i := choose p). destruct (Nat.lt_ge_cases i (length (lft :: ch))) as [L|L].
    + apply nth_In. exact L.
    + rewrite nth_overflow by exact L. left. reflexivity.
Qed.

Definition blobs_ok (c : bool) (pls : list N) : Prop :=
  c = true -> forall x, In x pls -> x <> 0 -> reach h r KBlob x.

Lemma rd_scan_ok : forall adv c id p acc k,
  reach h r (KBt c) id -> read_page h id = Some p -> blobs_ok c acc ->
  (forall pls, blobs_ok c pls -> okt (touched h (k pls))) ->
  okt (touched h (rd_scan adv p acc k)).
Proof.
  induction adv as [|a IH]; intros c id p acc k Hid R Hacc Hk.
  - cbn [rd_scan]. destruct (p_bt p) as [[rsib pls|rsib lft ch]|] eqn:B; try (apply Hk; exact Hacc).
    apply Hk. intros Hc x Hx Hx0. apply in_app_or in Hx. destruct Hx as [Hx|Hx]; [exact (Hacc Hc x Hx Hx0)|].
    apply (reach_step h r (KBt c) id); [exact Hid|]. unfold succs. rewrite R, B. apply in_or_app. right.
    rewrite Hc. apply map_pair_in. apply nz_In. split; assumption.
  - cbn [rd_scan]. destruct (p_bt p) as [[rsib pls|rsib lft ch]|] eqn:B; try (apply Hk; exact Hacc).
    assert (Hacc' : blobs_ok c (acc ++ pls)).
    { intros Hc x Hx Hx0. apply in_app_or in Hx. destruct Hx as [Hx|Hx]; [exact (Hacc Hc x Hx Hx0)|].
      apply (reach_step h r (KBt c) id); [exact Hid|]. unfold succs. rewrite R, B. apply in_or_app. right.
      rewrite Hc. apply map_pair_in. apply nz_In. split; assumption. }
    destruct (rsib =? 0) eqn:Z; [apply Hk; exact Hacc'|].
    assert (Hn : rsib <> 0) by (intro E; subst; discriminate).
    assert (Hr : reach h r (KBt c) rsib).
    { apply (reach_step h r (KBt c) id); [exact Hid|]. unfold succs. rewrite R, B. apply in_or_app. left.
      apply map_pair_in. apply nz1. exact Hn. }
    apply okt_read; [exists (KBt c); exact Hr|].
    destruct (read_page h rsib) as [p'|] eqn:R'; [|apply Hk; exact Hacc'].
    apply (IH c rsib); assumption.
Qed.

Lemma rd_tree_ok : forall fuel c root choose adv pick l k,
  (root <> 0 -> reach h r (KBt c) root) -> (forall l', okt (touched h (k l'))) ->
  okt (touched h (rd_tree fuel c root choose adv pick l k)).
Proof.
  intros fuel c root choose adv pick l k Hroot Hk. unfold rd_tree.
  apply (rd_descend_ok fuel choose c); [exact Hroot| |apply Hk].
  intros leaf p Hleaf R. apply (rd_scan_ok adv c leaf); [exact Hleaf|exact R|intros _ x []|].
  intros pls Hpls. destruct c; cbn [andb]; [|apply Hk].
  destruct (mem (pick pls) pls) eqn:M; [|apply Hk].
  apply rd_blob_ok; [|exact Hk]. intros Hn. apply mem_In in M. exact (Hpls eq_refl _ M Hn).
Qed.

Lemma rd_pages_ok : forall ids l k,
  (forall x, In x ids -> x <> 0 -> reach h r KRaw x) -> (forall l', okt (touched h (k l'))) ->
  okt (touched h (rd_pages ids l k)).
Proof.
  induction ids as [|x t IH]; intros l k Hids Hk; cbn [rd_pages]; [apply Hk|].
  destruct (x =? 0) eqn:Z; [apply Hk|].
  assert (Hn : x <> 0) by (intro E; subst; discriminate).
  apply okt_read; [exists KRaw; apply Hids; [left; reflexivity|exact Hn]|].
  destruct (read_page h x); [|apply Hk]. apply IH; [|exact Hk]. intros y Hy. apply Hids. right. exact Hy.
Qed.

Lemma root_seg : forall m, In m (r_segments r) -> m <> 0 -> In (KCsr, m) (root_items r).
Proof.
  intros m Hin Hn. unfold root_items. do 5 (apply in_or_app; right). apply map_pair_in. apply nz_In. split; assumption.
Qed.

Lemma rd_segment_ok : forall m l k, In m (r_segments r) -> (forall l', okt (touched h (k l'))) ->
  okt (touched h (rd_segment m l k)).
Proof.
  intros m l k Hin Hk. unfold rd_segment. destruct (m =? 0) eqn:Z; [apply Hk|].
  assert (Hn : m <> 0) by (intro E; subst; discriminate).
  assert (Hm : reach h r KCsr m) by (apply reach_root; exact (root_seg m Hin Hn)).
  apply okt_read; [exists KCsr; exact Hm|].
  destruct (read_page h m) as [p|] eqn:R; [|apply Hk].
  destruct (csr_pages_load (p_csr p)) as [ids| |] eqn:C; try apply Hk.
  apply rd_pages_ok; [|exact Hk]. intros x Hx Hx0.
  apply (reach_step h r KCsr m); [exact Hm|]. unfold succs. rewrite R, C. apply map_pair_in. apply nz_In. split; assumption.
Qed.

Lemma range_In : forall n s x, In x (range s n) <-> s <= x /\ x < s + N.of_nat n.
Proof.
  induction n as [|n IH]; intros s x; cbn [range In]; [lia|].
  rewrite IH. lia.
Qed.

Lemma idmap_page_root : forall n, r_i2e_start r <> 0 -> N.of_nat n < r_i2e_len r ->
  In (KRaw, r_i2e_start r + N.of_nat n / records_per_page) (root_items r).
Proof.
  intros n Hs Hn. unfold root_items. apply in_or_app. right. apply in_or_app. left. apply map_pair_in.
  unfold idmap_pages_load.
  destruct (r_i2e_start r =? 0) eqn:Z; [apply N.eqb_eq in Z; contradiction|].
  destruct (r_i2e_len r =? 0) eqn:Z2; [apply N.eqb_eq in Z2; lia|]. cbn [orb].
  apply range_In. rewrite N2Nat.id. unfold div_ceil. change records_per_page with 512. lia.
Qed.

Lemma rd_records_ok : forall cnt n l k, r_i2e_start r <> 0 ->
  N.of_nat (n + cnt) <= r_i2e_len r -> (forall l', okt (touched h (k l'))) ->
  okt (touched h (rd_records (r_i2e_start r) n cnt l k)).
Proof.
  induction cnt as [|c IH]; intros n l k Hs Hb Hk; cbn [rd_records]; [apply Hk|].
  apply okt_read.
  - exists KRaw. apply reach_root. apply idmap_page_root; [exact Hs|lia].
  - destruct (read_page h _); [|apply Hk]. apply IH; [exact Hs|lia|exact Hk].
Qed.

Lemma rd_query_ok : forall fuel q l k, valid_query r q -> (forall l', okt (touched h (k l'))) ->
  okt (touched h (rd_query fuel r q l k)).
Proof.
  intros fuel q l k V Hk. destruct q as [| | |m| |c root choose adv pick]; cbn [rd_query].
  - apply okt_read; [exists KRaw; apply reach_root; unfold root_items; cbn [app In]; auto|].
    apply okt_read; [exists KRaw; apply reach_root; unfold root_items; cbn [app In]; auto|]. apply Hk.
  - unfold rd_idmap. destruct (r_i2e_start r =? 0) eqn:Z; [apply Hk|]. apply N.eqb_neq in Z.
    apply rd_records_ok; [exact Z|rewrite Nat.add_0_l, N2Nat.id; lia|exact Hk].
  - destruct (r_catalog r =? 0) eqn:Z; [apply Hk|].
    apply okt_read; [|apply Hk]. exists KRaw. apply reach_root. unfold root_items.
    apply in_or_app. right. apply in_or_app. right. apply in_or_app. left. rewrite Z. left. reflexivity.
  - apply rd_segment_ok; [exact V|exact Hk].
  - apply rd_blob_ok; [|exact Hk]. intros Hn. apply reach_root. unfold root_items.
    do 4 (apply in_or_app; right). apply in_or_app. left.
    destruct (r_stats r =? 0) eqn:Z; [apply N.eqb_eq in Z; contradiction|]. left. reflexivity.
  - apply rd_tree_ok; [|exact Hk]. intros Hn. destruct V as [V|V]; [contradiction|]. apply reach_root. exact V.
Qed.

Theorem session_rooted : forall fuel qs l, Forall (valid_query r) qs -> rooted h r (rd_session fuel r qs l).
Proof.
  intros fuel qs. induction qs as [|q t IH]; intros l V; unfold rooted; cbn [rd_session].
  - intros id [].
  - inversion V; subst. apply rd_query_ok; [assumption|]. intros l'. exact (IH l' H2).
Qed.
End Rooted.

(* every session of modelled read paths computes the same log on the vacuumed file (well-typed heaps) *)
Theorem vacuum_preserves_sessions : forall ty h r vis h' fuel qs l,
  well_typed ty h r -> vacuum h r = Ok (vis, h') -> Forall (valid_query r) qs ->
  run_reader h' (rd_session fuel r qs l) = run_reader h (rd_session fuel r qs l).
Proof.
  intros ty h r vis h' fuel qs l W V Q.
  exact (vacuum_preserves_typed ty log (rd_session fuel r qs l) h r vis h' W V (session_rooted h r fuel qs l Q)).
Qed.

(* non-vacuity: a session on the example database reads the segment (incl. reverse arrays), descends the
   property tree, scans two leaves and reads a two-page blob *)
Example ex_session :
  let qs := [QOpen; QIdmap; QCatalog; QSegment 14; QTree true 5 (fun _ => 0%nat) 1 (fun pls => hd 0 pls); QTree true 4 (fun _ => 0%nat) 0 (fun pls => hd 0 pls)] in
  touched ex_heap (rd_session 10 ex_roots qs []) = [0; 1; 2; 2; 2; 3; 14; 10; 11; 12; 13; 5; 7; 8; 9; 15; 4; 6]
  /\ match vacuum ex_heap ex_roots with
     | Ok (_, h') => run_reader h' (rd_session 10 ex_roots qs []) = run_reader ex_heap (rd_session 10 ex_roots qs [])
     | _ => False end.
Proof. vm_compute. split; reflexivity. Qed.
