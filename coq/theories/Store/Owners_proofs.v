(* Store/Owners_proofs.v — history-level ownership theorem for C18: invariant relating the bitmap to the holder map *)
From NDB Require Import Store.Pager Store.IdMap Store.IdMap_proofs.
From NDB Require Import Store.Owners.
From Coq Require Import Lia ZifyBool ZifyN ZifyNat.
Open Scope N_scope.

Record sinv (s : sstate) : Prop := {
  si_wf : wf_pager (ss_pager s);
  si_own : forall p, ss_own s p <> None -> pg_bm (ss_pager s) p = true;
  si_start : ss_start s <> 0 -> ss_own s (ss_start s) = Some TIdmap
}.

Lemma sinv_new : sinv sstate_new.
Proof.
  constructor; cbn [sstate_new ss_pager ss_own ss_start].
  - exact wf_pager_new.
  - intros p H. exfalso. apply H. reflexivity.
  - intro H. exfalso. apply H. reflexivity.
Qed.

Lemma monitor_app_ok : forall a o start i b, check_trace o a = true ->
  monitor o start i (a ++ b) = monitor (owners_after o a) start (i + N.of_nat (length a)) b.
Proof.
  induction a as [|e t IH]; intros o start i b H; cbn [app length owners_after].
  - f_equal. lia.
  - cbn [check_trace] in H. apply Bool.andb_true_iff in H. destruct H as [H1 H2].
    cbn [monitor]. rewrite H1. rewrite (IH _ _ _ _ H2). f_equal. lia.
Qed.

Lemma owners_after_app : forall a b o, owners_after o (a ++ b) = owners_after (owners_after o a) b.
Proof. induction a as [|e t IH]; intros; cbn [app owners_after]; auto. Qed.

Lemma own_set_same : forall o p v, own_set o p v p = v.
Proof. intros. unfold own_set. rewrite N.eqb_refl. reflexivity. Qed.
Lemma own_set_other : forall o p v q, q <> p -> own_set o p v q = o q.
Proof. intros. unfold own_set. destruct (q =? p) eqn:E; [apply N.eqb_eq in E; contradiction|reflexivity]. Qed.

Lemma tag_eqb_refl : forall t, tag_eqb t t = true.
Proof. destruct t; reflexivity. Qed.

Lemma holds_spec : forall o t p, holds o t p = true -> o p = Some t.
Proof. intros o t p H. unfold holds in H. destruct (o p) as [t'|]; [|discriminate]. apply tag_eqb_eq in H. subst. reflexivity. Qed.

(* result of one step, as the monitor sees it *)
Definition step_shape (s s1 : sstate) (w : list wev) (n : N) (start : N) : Prop :=
  (n = 0 /\ check_trace (ss_own s) w = true /\ owners_after (ss_own s) w = ss_own s1) \/
  (n = 1 /\ exists evs q, w = evs ++ [WWrite TIdmap q] /\ check_trace (ss_own s) evs = true /\
            owners_after (ss_own s) evs = ss_own s1 /\ ev_ok (ss_own s1) (WWrite TIdmap q) = false /\
            is_spill (ss_own s1) start (WWrite TIdmap q) = true).

Lemma own_none_of_free : forall s p, sinv s -> pg_bm (ss_pager s) p = false -> ss_own s p = None.
Proof.
  intros s p I A1. destruct (ss_own s p) eqn:E; [|reflexivity].
  assert (X : ss_own s p <> None) by (rewrite E; discriminate).
  rewrite (si_own _ I p X) in A1. discriminate.
Qed.

(* the first-page phase of a node append *)
Definition node_first (s : sstate) : res (N * pager * list wev * owners) :=
  if ss_start s =? 0 then
    match allocate_page (ss_pager s) with
    | Ok (p, pg) => Ok (p, pg, [WAlloc TIdmap p], own_set (ss_own s) p (Some TIdmap))
    | _ => Err end
  else Ok (ss_start s, ss_pager s, [], ss_own s).

Lemma node_first_spec : forall s start' pg evs o, sinv s -> node_first s = Ok (start', pg, evs, o) ->
  wf_pager pg /\ (forall p, o p <> None -> pg_bm pg p = true) /\ o start' = Some TIdmap /\ start' <> 0 /\
  check_trace (ss_own s) evs = true /\ owners_after (ss_own s) evs = o /\
  (ss_start s <> 0 -> start' = ss_start s /\ evs = []) /\
  (ss_start s = 0 -> evs = [WAlloc TIdmap start']).
Proof.
  intros s start' pg evs o I Hf. unfold node_first in Hf. destruct (ss_start s =? 0) eqn:Z.
  - apply N.eqb_eq in Z.
    destruct (allocate_page (ss_pager s)) as [[p pg0]| |] eqn:A; try discriminate.
    inversion Hf; subst start' pg evs o; clear Hf.
    destruct (allocate_spec _ _ _ (si_wf _ I) A) as [A1 [A2 [A3 [A4 A5]]]].
    pose proof (own_none_of_free _ _ I A1) as On.
    split; [exact A5|]. split.
    { intros q Hq. rewrite A4. unfold bm_set. destruct (q =? p) eqn:E; [reflexivity|].
      apply N.eqb_neq in E. rewrite own_set_other in Hq by exact E. exact (si_own _ I q Hq). }
    split; [apply own_set_same|]. split; [change first_data_page_id with 2 in A2; lia|].
    split; [cbn [check_trace ev_ok]; rewrite On; reflexivity|]. split; [reflexivity|].
    split; [intro X; contradiction|intros _; reflexivity].
  - apply N.eqb_neq in Z. inversion Hf; subst start' pg evs o; clear Hf.
    split; [exact (si_wf _ I)|]. split; [exact (si_own _ I)|]. split; [exact (si_start _ I Z)|].
    split; [exact Z|]. split; [reflexivity|]. split; [reflexivity|]. split; [intros _; split; reflexivity|intro X; contradiction].
Qed.

Lemma sstep_node_unfold : forall s, sstep s SNode =
  match node_first s with
  | Ok (start, pg, evs, o) =>
      let q := fst (i2e_location start (ss_len s)) in
      match ensure_allocated pg q with
      | Ok pg' =>
          match o q with
          | None => (evs ++ [WAlloc TIdmap q; WWrite TIdmap q], 0,
                     {| ss_pager := pg'; ss_start := start; ss_len := ss_len s + 1; ss_own := own_set o q (Some TIdmap) |})
          | Some t' =>
              (evs ++ [WWrite TIdmap q], (if tag_eqb t' TIdmap then 0 else 1),
               {| ss_pager := pg'; ss_start := start; ss_len := ss_len s + 1; ss_own := o |})
          end
      | _ => (evs, 0, {| ss_pager := pg; ss_start := start; ss_len := ss_len s; ss_own := o |})
      end
  | _ => ([], 0, s)
  end.
Proof. intros s. unfold sstep, node_first. destruct (ss_start s =? 0); [destruct (allocate_page (ss_pager s)) as [[p pg]| |]|]; reflexivity. Qed.

Lemma sstep_shape : forall s c w n s1 start,
  sinv s -> sstep s c = (w, n, s1) -> (ss_start s1 <> 0 -> start = ss_start s1) ->
  sinv s1 /\ step_shape s s1 w n start.
Proof.
  intros s c w n s1 start I H Hs. destruct c as [t|t p|t p|].
  - (* alloc *)
    cbn [sstep] in H. destruct (tag_eqb t TIdmap) eqn:Et.
    { inversion H; subst. split; [exact I|]. left. repeat split. }
    destruct (allocate_page (ss_pager s)) as [[p pg]| |] eqn:A.
    2,3: inversion H; subst; split; [exact I|]; left; repeat split.
    inversion H; subst w n s1; clear H.
    destruct (allocate_spec _ _ _ (si_wf _ I) A) as [A1 [A2 [A3 [A4 A5]]]].
    pose proof (own_none_of_free _ _ I A1) as On.
    split.
    + constructor; cbn [ss_pager ss_own ss_start].
      * exact A5.
      * intros q Hq. rewrite A4. unfold bm_set. destruct (q =? p) eqn:E; [reflexivity|].
        apply N.eqb_neq in E. rewrite own_set_other in Hq by exact E. exact (si_own _ I q Hq).
      * intros Hn. destruct (N.eq_dec (ss_start s) p) as [E|E].
        -- pose proof (si_start _ I Hn) as X. rewrite E in X. rewrite On in X. discriminate.
        -- rewrite own_set_other by exact E. exact (si_start _ I Hn).
    + left. split; [reflexivity|]. cbn [check_trace ev_ok ev_apply owners_after ss_own]. rewrite On. split; reflexivity.
  - (* write *)
    cbn [sstep] in H.
    destruct (negb (tag_eqb t TIdmap) && holds (ss_own s) t p) eqn:G; inversion H; subst; (split; [exact I|]); left.
    + apply Bool.andb_true_iff in G. destruct G as [_ G]. apply holds_spec in G.
      split; [reflexivity|]. cbn [check_trace ev_ok ev_apply owners_after]. rewrite G, tag_eqb_refl. split; reflexivity.
    + repeat split.
  - (* free *)
    cbn [sstep] in H.
    destruct (negb (tag_eqb t TIdmap) && holds (ss_own s) t p) eqn:G.
    2: { inversion H; subst. split; [exact I|]. left. repeat split. }
    apply Bool.andb_true_iff in G. destruct G as [Gt G]. apply holds_spec in G.
    destruct (free_page (ss_pager s) p) as [pg| |] eqn:F.
    2,3: inversion H; subst; split; [exact I|]; left; repeat split.
    inversion H; subst w n s1; clear H.
    destruct (free_spec _ _ _ (si_wf _ I) F) as [F1 [F2 F3]].
    split.
    + constructor; cbn [ss_pager ss_own ss_start].
      * exact F3.
      * intros q Hq. rewrite F2. unfold bm_set. destruct (q =? p) eqn:E.
        -- apply N.eqb_eq in E. subst q. rewrite own_set_same in Hq. contradiction.
        -- apply N.eqb_neq in E. rewrite own_set_other in Hq by exact E. exact (si_own _ I q Hq).
      * intros Hn. destruct (N.eq_dec (ss_start s) p) as [E|E].
        -- pose proof (si_start _ I Hn) as X. rewrite E in X. rewrite G in X. inversion X; subst. discriminate.
        -- rewrite own_set_other by exact E. exact (si_start _ I Hn).
    + left. split; [reflexivity|]. cbn [check_trace ev_ok ev_apply owners_after ss_own]. rewrite G, tag_eqb_refl. split; reflexivity.
  - (* node *)
    rewrite sstep_node_unfold in H.
    destruct (node_first s) as [[[[start' pg] evs] o]| |] eqn:Ef.
    2,3: inversion H; subst; split; [exact I|]; left; repeat split.
    destruct (node_first_spec _ _ _ _ _ I Ef) as [W [Ow [Os [Sn [Ce [Oa _]]]]]].
    cbv zeta in H.
    set (q := fst (i2e_location start' (ss_len s))) in *.
    destruct (ensure_allocated pg q) as [pg'| |] eqn:En.
    2,3: inversion H; subst w n s1; clear H; split;
         [constructor; cbn [ss_pager ss_own ss_start]; [exact W|exact Ow|intros _; exact Os]
         |left; split; [reflexivity|split; [exact Ce|exact Oa]]].
    destruct (ensure_spec _ _ _ W En) as [E1 [E2 [E3 E4]]].
    destruct (o q) as [t'|] eqn:Oq.
    + inversion H; subst w n s1; clear H. cbn [ss_start] in Hs. specialize (Hs Sn). subst start.
      split.
      * constructor; cbn [ss_pager ss_own ss_start].
        -- exact E4.
        -- intros p Hp. rewrite E3. unfold bm_set. destruct (p =? q); [reflexivity|]. exact (Ow p Hp).
        -- intros _. exact Os.
      * destruct (tag_eqb t' TIdmap) eqn:Et.
        -- left. split; [reflexivity|]. rewrite check_trace_app, Ce, Oa. cbn [ss_own andb check_trace ev_ok].
           rewrite Oq. apply tag_eqb_eq in Et. subst t'. cbn [tag_eqb andb]. split; [reflexivity|].
           rewrite owners_after_app. rewrite Oa. reflexivity.
        -- right. split; [reflexivity|]. exists evs, q. cbn [ss_own].
           split; [reflexivity|]. split; [exact Ce|]. split; [exact Oa|]. split.
           ++ cbn [ev_ok]. rewrite Oq. destruct t'; try discriminate; reflexivity.
           ++ cbn [is_spill]. rewrite Oq. apply Bool.andb_true_iff. split.
              ** assert (Hq : q <> start'). { intro X. assert (Y : o q = o start') by (f_equal; exact X). rewrite Oq, Os in Y. inversion Y as [Z]. rewrite Z in Et. discriminate. }
                 unfold q, i2e_location in *. cbn [fst] in *. remember (ss_len s / i2e_records_per_page) as x. clear - Hq. lia.
              ** destruct t'; try discriminate; reflexivity.
    + inversion H; subst w n s1; clear H.
      split.
      * constructor; cbn [ss_pager ss_own ss_start].
        -- exact E4.
        -- intros p Hp. rewrite E3. unfold bm_set. destruct (p =? q) eqn:E; [reflexivity|].
           apply N.eqb_neq in E. rewrite own_set_other in Hp by exact E. exact (Ow p Hp).
        -- intros _. destruct (N.eq_dec start' q) as [E|E]; [rewrite E; apply own_set_same|rewrite own_set_other by exact E; exact Os].
      * left. split; [reflexivity|]. rewrite check_trace_app, Ce, Oa. cbn [ss_own andb check_trace ev_ok ev_apply].
        rewrite Oq. rewrite own_set_same. cbn [tag_eqb]. split; [reflexivity|].
        rewrite owners_after_app, Oa. reflexivity.
Qed.

Lemma srun_cons : forall s c t w n s1, sstep s c = (w, n, s1) ->
  strace s (c :: t) = w ++ strace s1 t /\ spills s (c :: t) = n + spills s1 t.
Proof.
  intros s c t w n s1 H. unfold strace, spills. cbn [srun]. rewrite H.
  destruct (srun s1 t) as [[ws m] s2]. split; reflexivity.
Qed.

Lemma sstep_start : forall s c w n s1, sinv s -> sstep s c = (w, n, s1) ->
  (ss_start s <> 0 -> ss_start s1 = ss_start s) /\
  (ss_start s = 0 -> (ss_start s1 = 0 /\ forall r, start_of (w ++ r) = start_of r) \/
                     (ss_start s1 <> 0 /\ forall r, start_of (w ++ r) = ss_start s1)).
Proof.
  intros s c w n s1 I H. destruct c as [t|t p|t p|].
  - cbn [sstep] in H. destruct (tag_eqb t TIdmap) eqn:Et.
    { inversion H; subst. split; [reflexivity|]. intro Z. left. split; [exact Z|reflexivity]. }
    destruct (allocate_page (ss_pager s)) as [[p pg]| |]; inversion H; subst; cbn [ss_start].
    + split; [reflexivity|]. intro Z. left. split; [exact Z|]. intros r. destruct t; try discriminate; reflexivity.
    + split; [reflexivity|]. intro Z. left. split; [exact Z|reflexivity].
    + split; [reflexivity|]. intro Z. left. split; [exact Z|reflexivity].
  - cbn [sstep] in H. destruct (negb (tag_eqb t TIdmap) && holds (ss_own s) t p); inversion H; subst.
    + split; [reflexivity|]. intro Z. left. split; [exact Z|reflexivity].
    + split; [reflexivity|]. intro Z. left. split; [exact Z|reflexivity].
  - cbn [sstep] in H. destruct (negb (tag_eqb t TIdmap) && holds (ss_own s) t p).
    2: { inversion H; subst. split; [reflexivity|]. intro Z. left. split; [exact Z|reflexivity]. }
    destruct (free_page (ss_pager s) p); inversion H; subst; cbn [ss_start].
    all: split; [reflexivity|]; intro Z; left; split; [exact Z|reflexivity].
  - rewrite sstep_node_unfold in H.
    destruct (node_first s) as [[[[start' pg] evs] o]| |] eqn:Ef.
    2,3: inversion H; subst; split; [reflexivity|]; intro Z; left; split; [exact Z|reflexivity].
    destruct (node_first_spec _ _ _ _ _ I Ef) as [_ [_ [_ [Sn [_ [_ [K1 K2]]]]]]].
    cbv zeta in H.
    assert (Hs1 : ss_start s1 = start' /\ exists tl, w = evs ++ tl).
    { destruct (ensure_allocated pg _) as [pg'| |]; [destruct (o _)|..]; inversion H; subst; cbn [ss_start];
        (split; [reflexivity|]); eauto using app_nil_r. all: exists []; symmetry; apply app_nil_r. }
    destruct Hs1 as [E1 [tl E2]]. split.
    + intros Hn. rewrite E1. exact (proj1 (K1 Hn)).
    + intros Z. right. rewrite E1. split; [exact Sn|]. intros r. rewrite E2, (K2 Z). reflexivity.
Qed.

Theorem srun_monitor : forall cs s start i, sinv s ->
  (ss_start s <> 0 -> start = ss_start s) ->
  (ss_start s = 0 -> start = start_of (strace s cs)) ->
  monitor (ss_own s) start i (strace s cs) = (spills s cs, None).
Proof.
  induction cs as [|c t IH]; intros s start i I H1 H2; [reflexivity|].
  destruct (sstep s c) as [[w n] s1] eqn:St.
  destruct (srun_cons s c t w n s1 St) as [Et Es]. rewrite Et, Es.
  destruct (sstep_start _ _ _ _ _ I St) as [K1 K2].
  assert (Hs1 : ss_start s1 <> 0 -> start = ss_start s1).
  { intros Hn. destruct (N.eq_dec (ss_start s) 0) as [Z|Z].
    - destruct (K2 Z) as [[Z1 _]|[_ Hw]]; [contradiction|]. rewrite (H2 Z), Et. apply Hw.
    - rewrite (K1 Z). exact (H1 Z). }
  assert (Hs0 : ss_start s1 = 0 -> start = start_of (strace s1 t)).
  { intros Z1. destruct (N.eq_dec (ss_start s) 0) as [Z|Z].
    - destruct (K2 Z) as [[_ Hw]|[Hn _]]; [|contradiction]. rewrite (H2 Z), Et. apply Hw.
    - rewrite (K1 Z) in Z1. contradiction. }
  destruct (sstep_shape _ _ _ _ _ start I St Hs1) as [I1 [[En [Ck Oa]]|[En [evs [q [Ew [Ck [Oa [Ev Sp]]]]]]]]].
  - subst n. rewrite (monitor_app_ok _ _ _ _ _ Ck), Oa. rewrite (IH s1 start _ I1 Hs1 Hs0). reflexivity.
  - subst n w. rewrite <- app_assoc. rewrite (monitor_app_ok _ _ _ _ _ Ck), Oa.
    cbn [app monitor]. rewrite Ev, Sp. rewrite (IH s1 start _ I1 Hs1 Hs0). f_equal. lia.
Qed.

(* for every history: the tolerant monitor reports no violation other than spills, and exactly as many
   spills as node appends that hit a page held by another structure *)
Theorem history_monitor_exact : forall cs,
  monitor no_owner (start_of (strace sstate_new cs)) 0 (strace sstate_new cs) = (spills sstate_new cs, None).
Proof.
  intros cs. apply (srun_monitor cs sstate_new); [exact sinv_new| |reflexivity].
  intro H. exfalso. apply H. reflexivity.
Qed.

(* outside K-C18-spill no structure ever writes (or frees) a page held by another, and no page has two holders *)
Theorem history_conditional : forall cs, spills sstate_new cs = 0 ->
  check_trace no_owner (strace sstate_new cs) = true.
Proof.
  intros cs H. apply (monitor_clean _ _ (start_of (strace sstate_new cs)) 0).
  rewrite history_monitor_exact, H. reflexivity.
Qed.

Example history_example :
  let cs := [SNode; SAlloc TCsr; SWrite TCsr 3; SAlloc TBlob; SFree TBlob 4; SAlloc TBtree; SWrite TBtree 9; SNode] in
  strace sstate_new cs = [WAlloc TIdmap 2; WWrite TIdmap 2; WAlloc TCsr 3; WWrite TCsr 3; WAlloc TBlob 4; WFree TBlob 4; WAlloc TBtree 4; WWrite TIdmap 2]
  /\ spills sstate_new cs = 0
  /\ spills sstate_new (SNode :: SAlloc TCsr :: repeat SNode 512) = 1.
Proof. vm_compute. repeat split; reflexivity. Qed.
