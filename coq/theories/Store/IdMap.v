(* Store/IdMap.v — MODEL of the persistent part of nervusdb-storage/src/idmap.rs: where node record n
   lives (i2e_location) and how the page is obtained (write_i2e_record: ensure_allocated, no ownership
   check; only the first page is obtained with allocate_page), plus the tagged page events a history of
   pager users produces.  Proofs: IdMap_proofs.v. *)
From NDB Require Export Store.Pager.
Open Scope N_scope.

Definition i2e_records_per_page : N := page_size / i2e_record_size.

(* i2e_location start n = (page id, byte offset in the page) *)
Definition i2e_location (start n : N) : N * N :=
  (start + n / i2e_records_per_page, (n mod i2e_records_per_page) * i2e_record_size).

(* ---- page-ownership monitor ---- *)
Inductive tag := TIdmap | TBtree | TBlob | TCsr | TCatalog | TOther.
Definition tag_eqb (a b : tag) : bool :=
  match a, b with
  | TIdmap, TIdmap | TBtree, TBtree | TBlob, TBlob | TCsr, TCsr | TCatalog, TCatalog | TOther, TOther => true
  | _, _ => false
  end.

(* events observed on the real pager: a bitmap bit set / cleared, a page written, each under a structure tag *)
Inductive wev := WAlloc (t : tag) (p : N) | WFree (t : tag) (p : N) | WWrite (t : tag) (p : N).

Definition owners := N -> option tag.
Definition own_set (o : owners) (p : N) (v : option tag) : owners := fun q => if q =? p then v else o q.
Definition no_owner : owners := fun _ => None.

Definition ev_ok (o : owners) (e : wev) : bool :=
  match e with
  | WAlloc _ p => match o p with None => true | Some _ => false end
  | WFree t p => match o p with Some t' => tag_eqb t t' | None => false end
  | WWrite t p => match o p with Some t' => tag_eqb t t' | None => false end
  end.
Definition ev_apply (o : owners) (e : wev) : owners :=
  match e with
  | WAlloc t p => own_set o p (Some t)
  | WFree _ p => own_set o p None
  | WWrite _ _ => o
  end.

(* every allocation takes an unowned page; every write and free goes to a page owned by the same structure *)
Fixpoint check_trace (o : owners) (tr : list wev) : bool :=
  match tr with
  | [] => true
  | e :: t => ev_ok o e && check_trace (ev_apply o e) t
  end.

(* owner map after a prefix *)
Fixpoint owners_after (o : owners) (tr : list wev) : owners :=
  match tr with [] => o | e :: t => owners_after (ev_apply o e) t end.

(* K-C18-spill: a node-table write into a page after the table's first page that another structure owns *)
Definition is_spill (o : owners) (start : N) (e : wev) : bool :=
  match e with
  | WWrite TIdmap p => (start <? p) && match o p with Some t => negb (tag_eqb t TIdmap) | None => false end
  | _ => false
  end.

(* tolerant monitor: counts spills, reports the index of the first violation of any other kind *)
Fixpoint monitor (o : owners) (start : N) (i : N) (tr : list wev) : N * option N :=
  match tr with
  | [] => (0, None)
  | e :: t =>
    if ev_ok o e then monitor (ev_apply o e) start (N.succ i) t
    else if is_spill o start e then let '(n, v) := monitor o start (N.succ i) t in (N.succ n, v)
    else (0, Some i)
  end.

(* ---- histories of pager users (model side) ---- *)
Inductive pop :=
| PAlloc            (* another structure allocates a page *)
| PFree (p : N)     (* another structure frees page p *)
| PNode.            (* the node table appends one record *)

Record mstate := { ms_pager : pager; ms_start : N; ms_len : N }.
Definition mstate_new : mstate := {| ms_pager := pager_new; ms_start := 0; ms_len := 0 |}.

Inductive pev := PvAlloc (p : N) | PvFree (p : N) | PvNode (p : N) | PvErr.

(* one step: the observable result and the tagged page events it causes *)
Definition pstep (s : mstate) (c : pop) : pev * list wev * mstate :=
  match c with
  | PAlloc => match allocate_page (ms_pager s) with
              | Ok (p, pg) => (PvAlloc p, [WAlloc TOther p], {| ms_pager := pg; ms_start := ms_start s; ms_len := ms_len s |})
              | _ => (PvErr, [], s) end
  | PFree p => match free_page (ms_pager s) p with
               | Ok pg => (PvFree p, [WFree TOther p], {| ms_pager := pg; ms_start := ms_start s; ms_len := ms_len s |})
               | _ => (PvErr, [], s) end
  | PNode =>
      (* apply_create_node: first page by allocate_page, then write_i2e_record *)
      let first := if ms_start s =? 0 then
                     match allocate_page (ms_pager s) with
                     | Ok (p, pg) => Ok (p, pg, [WAlloc TIdmap p])
                     | _ => Err end
                   else Ok (ms_start s, ms_pager s, []) in
      match first with
      | Ok (start, pg, evs) =>
          let p := fst (i2e_location start (ms_len s)) in
          match ensure_allocated pg p with
          | Ok pg' => (PvNode p, evs ++ (if pg_bm pg p then [] else [WAlloc TIdmap p]) ++ [WWrite TIdmap p],
                       {| ms_pager := pg'; ms_start := start; ms_len := ms_len s + 1 |})
          | _ => (PvErr, evs, {| ms_pager := pg; ms_start := start; ms_len := ms_len s |})
          end
      | _ => (PvErr, [], s)
      end
  end.

Fixpoint prun (s : mstate) (cs : list pop) : list pev * list wev * mstate :=
  match cs with
  | [] => ([], [], s)
  | c :: t => let '(e, w, s1) := pstep s c in let '(es, ws, s2) := prun s1 t in (e :: es, w ++ ws, s2)
  end.

Definition ptrace (cs : list pop) : list wev := snd (fst (prun mstate_new cs)).
