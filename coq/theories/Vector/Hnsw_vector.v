(* Vector/Hnsw_vector.v — PROOFS about GraphEngine::search_vector (index search with all
   candidates, deleted nodes left out, first k). *)
From Coq Require Import Lia ZifyBool ZifyN ZifyNat Sorted.
From NDB Require Import Vector.PageTree Vector.Hnsw Vector.Hnsw_proofs.
Open Scope nat_scope.

Lemma search_all_search : forall pr ix q ix' r,
  search_all pr ix q = Ok (ix', r) -> search pr ix q (length r) = Ok (ix', r).
Proof.
  intros pr ix q ix' r H. unfold search_all in H. unfold search. destruct (i_ep ix) as [entry|].
  - destruct (get_vector (i_env ix) entry) as [[e1 v0]| |]; cbn [bind] in *; try discriminate.
    destruct (greedy_down (fuel_of ix) e1 q (layers_down 1 (i_maxl ix)) entry (dist2 q v0)) as [[[e2 cur] cd]| |];
      cbn [bind] in *; try discriminate.
    destruct (search_layer (fuel_of ix) e2 q [cur] (p_efs pr) 0) as [[e3 found]| |]; cbn [bind] in *; try discriminate.
    inversion H; subst. rewrite map_length, firstn_all. reflexivity.
  - inversion H; subst. reflexivity.
Qed.

Lemma nodup_map_filter : forall {A B} (f : A -> B) p (l : list A), NoDup (map f l) -> NoDup (map f (filter p l)).
Proof.
  induction l as [|h t IH]; intro H; cbn; [constructor|]. inversion H; subst.
  destruct (p h); cbn; auto. constructor; auto. intro Hin. apply H2.
  apply in_map_iff in Hin. destruct Hin as [y [Ey Hy]]. apply filter_In in Hy. rewrite <- Ey. apply in_map. tauto.
Qed.
Lemma nodup_map_firstn' : forall {A B} (f : A -> B) n (l : list A), NoDup (map f l) -> NoDup (map f (firstn n l)).
Proof.
  induction n as [|n IHn]; intros l Hl; cbn; [constructor|]. destruct l as [|h t]; cbn; [constructor|].
  inversion Hl; subst. constructor; auto. intro Hin. apply H1.
  apply in_map_iff in Hin. destruct Hin as [y [Ey Hy]]. apply in_firstn in Hy. rewrite <- Ey. apply in_map. exact Hy.
Qed.
Lemma sorted_filter : forall {A} (R : A -> A -> Prop) p l, StronglySorted R l -> StronglySorted R (filter p l).
Proof.
  induction l as [|h t IH]; intro S; cbn; [constructor|]. inversion S; subst.
  destruct (p h); auto. constructor; auto. rewrite Forall_forall in *. intros y Hy. apply filter_In in Hy. apply H2. tauto.
Qed.

Definition deleted (ops : list op) : list N :=
  flat_map (fun o => match o with ODelete id => [id] | _ => [] end) ops.

(* Soundness of the engine-level search for every reachable state, every set of deleted
   nodes, every query and k: at most k results, distinct nodes, non-decreasing distance, each
   node has a vector that was set, its squared distance is exact for such a vector, and no
   returned node is deleted. *)
Theorem search_vector_sound : forall pr ops ix del q k ix' r,
  run pr empty_index ops = Ok ix ->
  search_vector pr ix del q k = Ok (ix', r) ->
  length r <= k /\ NoDup (map fst r) /\ sorted_by_dist r /\
  (forall id d, In (id, d) r -> (exists v, inserted ops id v /\ d = dist2 q v) /\ ~ In id del).
Proof.
  intros pr ops ix del q k ix' r Hr H. unfold search_vector in H.
  destruct (k =? 0) eqn:K.
  - inversion H; subst. cbn. split; [lia|]. split; [constructor|]. split; [constructor|]. intros id d [].
  - destruct (search_all pr ix q) as [[ix1 r0]| |] eqn:E; cbn [bind] in H; try discriminate.
    inversion H; subst; clear H. apply search_all_search in E.
    destruct (search_sound _ _ _ _ _ _ _ Hr E) as [_ [Hnd [Hs Hv]]].
    split; [rewrite firstn_length; lia|]. split; [|split].
    + apply nodup_map_firstn'. apply nodup_map_filter. exact Hnd.
    + unfold sorted_by_dist in *. apply sorted_firstn. apply sorted_filter. exact Hs.
    + intros id d Hin. apply in_firstn in Hin. unfold live_of in Hin. apply filter_In in Hin.
      destruct Hin as [Hin Hp]. split; [apply Hv; exact Hin|]. cbn in Hp.
      apply memN_false. destruct (memN id del); [discriminate|reflexivity].
Qed.

(* in particular, with the nodes a history deleted: no deleted node is returned *)
Theorem search_vector_live : forall pr ops ix q k ix' r,
  run pr empty_index ops = Ok ix ->
  search_vector pr ix (deleted ops) q k = Ok (ix', r) ->
  forall id d, In (id, d) r -> ~ In (ODelete id) ops.
Proof.
  intros pr ops ix q k ix' r Hr H id d Hin Hd.
  destruct (search_vector_sound _ _ _ _ _ _ _ _ Hr H) as [_ [_ [_ Hv]]].
  destruct (Hv id d Hin) as [_ Hn]. apply Hn. unfold deleted. apply in_flat_map. exists (ODelete id). split; [exact Hd|left; reflexivity].
Qed.

(* without deleted nodes the engine-level search is the index search *)
Lemma search_vector_nodel : forall pr ix q k ix' r,
  k <> 0 -> search_vector pr ix [] q k = Ok (ix', r) -> exists ix'', search pr ix q k = Ok (ix'', r).
Proof.
  intros pr ix q k ix' r Hk H. unfold search_vector in H. destruct (k =? 0) eqn:K; [apply Nat.eqb_eq in K; contradiction|].
  unfold search_all in H. unfold search. destruct (i_ep ix) as [entry|].
  - destruct (get_vector (i_env ix) entry) as [[e1 v0]| |]; cbn [bind] in *; try discriminate.
    destruct (greedy_down (fuel_of ix) e1 q (layers_down 1 (i_maxl ix)) entry (dist2 q v0)) as [[[e2 cur] cd]| |];
      cbn [bind] in *; try discriminate.
    destruct (search_layer (fuel_of ix) e2 q [cur] (p_efs pr) 0) as [[e3 found]| |]; cbn [bind] in *; try discriminate.
    inversion H; subst. eexists. f_equal. f_equal. unfold live_of.
    assert (F : forall l : list (N * N), filter (fun x => negb (memN (fst x) [])) l = l).
    { induction l as [|h t IH]; [reflexivity|]. cbn. cbn in IH. rewrite IH. reflexivity. }
    rewrite F. rewrite firstn_map. reflexivity.
  - cbn [bind] in H. inversion H; subst. cbn. eexists. destruct k; reflexivity.
Qed.

(* non-vacuity / the repaired witness: the deleted node is not returned any more *)
Example deleted_not_returned :
  match run default_params empty_index del_ops with
  | Ok ix => match search_vector default_params ix (deleted del_ops) [0; 0]%Z 1 with
             | Ok (_, r) => Some (map fst r) | _ => None end
  | _ => None
  end = Some [1%N].
Proof. vm_compute. reflexivity. Qed.
