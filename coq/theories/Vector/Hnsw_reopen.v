(* Vector/Hnsw_reopen.v — PROOFS: a search does not depend on the vector cache as long as the
   cache agrees with the vector tree; hence reopening a state that passes the executable
   `reopen_check` does not change any search result. *)
From Coq Require Import Lia ZifyBool ZifyN ZifyNat.
From NDB Require Import Vector.PageTree Vector.Hnsw Vector.Hnsw_proofs.
Open Scope nat_scope.

Definition agree (e1 e2 : env) : Prop :=
  gt e1 = gt e2 /\ forall id, value_of e1 id = value_of e2 id.

Lemma agree_refl : forall e, agree e e.
Proof. intro e. split; auto. Qed.

Lemma get_vector_value : forall e id e' v,
  get_vector e id = Ok (e', v) ->
  value_of e id = Ok v /\ gt e' = gt e /\ (forall j, value_of e' j = value_of e j).
Proof.
  intros e id e' v H. unfold get_vector in H. unfold value_of at 1.
  destruct (assoc id (cache e)) as [v0|] eqn:A.
  - inversion H; subst. auto.
  - destruct (lookup (vt e) (vkey id)) as [[v0|]|] eqn:Lk; cbn in H; try discriminate.
    inversion H; subst; clear H. split; [reflexivity|]. split; [reflexivity|].
    intro j. unfold value_of. cbn [cache vt assoc].
    destruct (id =? j)%N eqn:E.
    + apply N.eqb_eq in E. subst j. rewrite A, Lk. reflexivity.
    + reflexivity.
Qed.

Lemma value_get_vector : forall e id v, value_of e id = Ok v -> exists e', get_vector e id = Ok (e', v).
Proof.
  intros e id v H. unfold value_of in H. unfold get_vector.
  destruct (assoc id (cache e)) as [v0|].
  - inversion H; subst. eexists; reflexivity.
  - destruct (lookup (vt e) (vkey id)) as [[v0|]|]; try discriminate.
    inversion H; subst. cbn. eexists; reflexivity.
Qed.

Lemma gv_agree : forall e1 e2 id e1' v,
  agree e1 e2 -> get_vector e1 id = Ok (e1', v) ->
  exists e2', get_vector e2 id = Ok (e2', v) /\ agree e1' e2'.
Proof.
  intros e1 e2 id e1' v [Ag Av] H. apply get_vector_value in H. destruct H as [Hv [Hg Hj]].
  rewrite Av in Hv. destruct (value_get_vector _ _ _ Hv) as [e2' H2]. exists e2'. split; auto.
  apply get_vector_value in H2. destruct H2 as [_ [Hg2 Hj2]]. split; [congruence|].
  intro j. rewrite Hj, Hj2. apply Av.
Qed.

Lemma gn_agree : forall e1 e2 l i, agree e1 e2 -> get_neighbors e1 l i = get_neighbors e2 l i.
Proof. intros e1 e2 l i [Ag _]. unfold get_neighbors. rewrite Ag. reflexivity. Qed.

Definition with_env (s : sl) (e : env) : sl :=
  {| s_env := e; visited := visited s; cand := cand s; nn := nn s |}.

Lemma sl_init_agree : forall q eps s1 e2 s1',
  agree (s_env s1) e2 -> sl_init q eps s1 = Ok s1' ->
  exists e2', sl_init q eps (with_env s1 e2) = Ok (with_env s1' e2') /\ agree (s_env s1') e2'.
Proof.
  induction eps as [|ep t IH]; intros s1 e2 s1' A H; cbn [sl_init] in *.
  - inversion H; subst. exists e2. auto.
  - cbn [with_env s_env visited cand nn]. destruct (memN ep (visited s1)); [apply IH; auto|].
    destruct (get_vector (s_env s1) ep) as [[e1a v]| |] eqn:G; cbn [bind] in H; try discriminate.
    destruct (gv_agree _ _ _ _ _ A G) as [e2a [G2 A2]]. cbn [s_env]. rewrite G2. cbn [bind].
    refine (IH _ e2a _ _ H). exact A2.
Qed.

Lemma sl_visit_agree : forall q ef nbrs s1 e2 s1',
  agree (s_env s1) e2 -> sl_visit q ef nbrs s1 = Ok s1' ->
  exists e2', sl_visit q ef nbrs (with_env s1 e2) = Ok (with_env s1' e2') /\ agree (s_env s1') e2'.
Proof.
  induction nbrs as [|n t IH]; intros s1 e2 s1' A H; cbn [sl_visit] in *.
  - inversion H; subst. exists e2. auto.
  - cbn [with_env s_env visited cand nn]. destruct (memN n (visited s1)); [apply IH; auto|].
    destruct (get_vector (s_env s1) n) as [[e1a v]| |] eqn:G; cbn [bind] in H; try discriminate.
    destruct (gv_agree _ _ _ _ _ A G) as [e2a [G2 A2]]. cbn [s_env nn cand]. rewrite G2. cbn [bind].
    match type of H with (if ?c then _ else _) = _ => destruct c end.
    + refine (IH _ e2a _ _ H). exact A2.
    + refine (IH _ e2a _ _ H). exact A2.
Qed.

Lemma sl_loop_agree : forall fuel q ef layer s1 e2 s1',
  agree (s_env s1) e2 -> sl_loop fuel q ef layer s1 = Ok s1' ->
  exists e2', sl_loop fuel q ef layer (with_env s1 e2) = Ok (with_env s1' e2') /\ agree (s_env s1') e2'.
Proof.
  induction fuel as [|f IH]; intros q ef layer s1 e2 s1' A H; cbn [sl_loop] in *; [discriminate|].
  cbn [with_env s_env visited cand nn]. destruct (cand s1) as [|[dc c] rest].
  - inversion H; subst. exists e2. auto.
  - match type of H with (if ?c then _ else _) = _ => destruct c end.
    + inversion H; subst. exists e2. auto.
    + cbn [s_env visited]. rewrite <- (gn_agree _ _ layer c A).
      destruct (get_neighbors (s_env s1) layer c) as [nbrs| |]; cbn [bind] in *; try discriminate.
      match type of H with bind ?r _ = _ => destruct r as [sa| |] eqn:Ev; cbn [bind] in H; try discriminate end.
      destruct (sl_visit_agree q ef nbrs {| s_env := s_env s1; visited := visited s1; cand := rest; nn := nn s1 |} e2 sa A Ev)
        as [e2a [Ev2 A2]].
      unfold with_env in Ev2 at 1. cbn [s_env visited cand nn] in Ev2. rewrite Ev2. cbn [bind].
      apply IH; auto.
Qed.

Lemma search_layer_agree : forall fuel e1 e2 q eps ef layer e1' found,
  agree e1 e2 -> search_layer fuel e1 q eps ef layer = Ok (e1', found) ->
  exists e2', search_layer fuel e2 q eps ef layer = Ok (e2', found) /\ agree e1' e2'.
Proof.
  intros fuel e1 e2 q eps ef layer e1' found A H. unfold search_layer in *.
  match type of H with bind ?r _ = _ => destruct r as [s0| |] eqn:E0; cbn [bind] in H; try discriminate end.
  match type of H with bind ?r _ = _ => destruct r as [s1| |] eqn:E1; cbn [bind] in H; try discriminate end.
  inversion H; subst; clear H.
  destruct (sl_init_agree q eps {| s_env := e1; visited := []; cand := []; nn := [] |} e2 s0 A E0) as [e2a [E0' A0]].
  unfold with_env in E0' at 1. cbn [visited cand nn] in E0'. rewrite E0'. cbn [bind].
  destruct (sl_loop_agree fuel q ef layer s0 e2a s1 A0 E1) as [e2b [E1' A1]].
  rewrite E1'. cbn [bind with_env s_env nn]. exists e2b. auto.
Qed.

Lemma greedy_scan_agree : forall q nbrs e1 e2 cur cd ch e1' cur' cd' ch',
  agree e1 e2 -> greedy_scan e1 q nbrs cur cd ch = Ok (e1', cur', cd', ch') ->
  exists e2', greedy_scan e2 q nbrs cur cd ch = Ok (e2', cur', cd', ch') /\ agree e1' e2'.
Proof.
  induction nbrs as [|n t IH]; intros e1 e2 cur cd ch e1' cur' cd' ch' A H; cbn [greedy_scan] in *.
  - inversion H; subst. exists e2. auto.
  - destruct (get_vector e1 n) as [[e1a v]| |] eqn:G; cbn [bind] in H; try discriminate.
    destruct (gv_agree _ _ _ _ _ A G) as [e2a [G2 A2]]. rewrite G2. cbn [bind].
    destruct (dist2 q v <? cd)%N; eapply IH; eauto.
Qed.

Lemma greedy_layer_agree : forall fuel q layer e1 e2 cur cd e1' cur' cd',
  agree e1 e2 -> greedy_layer fuel e1 q layer cur cd = Ok (e1', cur', cd') ->
  exists e2', greedy_layer fuel e2 q layer cur cd = Ok (e2', cur', cd') /\ agree e1' e2'.
Proof.
  induction fuel as [|f IH]; intros q layer e1 e2 cur cd e1' cur' cd' A H; cbn [greedy_layer] in *; [discriminate|].
  rewrite <- (gn_agree _ _ layer cur A).
  destruct (get_neighbors e1 layer cur) as [nbrs| |]; cbn [bind] in *; try discriminate.
  match type of H with bind ?r _ = _ => destruct r as [[[[ea ca] da] ch]| |] eqn:Es; cbn [bind] in H; try discriminate end.
  destruct (greedy_scan_agree _ _ _ _ _ _ _ _ _ _ _ A Es) as [e2a [Es2 A2]]. rewrite Es2. cbn [bind].
  destruct ch.
  - eapply IH; eauto.
  - inversion H; subst. exists e2a. auto.
Qed.

Lemma greedy_down_agree : forall fuel q layers e1 e2 cur cd e1' cur' cd',
  agree e1 e2 -> greedy_down fuel e1 q layers cur cd = Ok (e1', cur', cd') ->
  exists e2', greedy_down fuel e2 q layers cur cd = Ok (e2', cur', cd') /\ agree e1' e2'.
Proof.
  induction layers as [|l t IH]; intros e1 e2 cur cd e1' cur' cd' A H; cbn [greedy_down] in *.
  - inversion H; subst. exists e2. auto.
  - match type of H with bind ?r _ = _ => destruct r as [[[ea ca] da]| |] eqn:El; cbn [bind] in H; try discriminate end.
    destruct (greedy_layer_agree _ _ _ _ _ _ _ _ _ _ A El) as [e2a [El2 A2]]. rewrite El2. cbn [bind].
    eapply IH; eauto.
Qed.

(* two index states that differ only in their environments, which agree: same answers *)
Theorem search_agree : forall pr ix1 ix2 q k ix1' r,
  agree (i_env ix1) (i_env ix2) -> i_ep ix1 = i_ep ix2 -> i_maxl ix1 = i_maxl ix2 -> i_n ix1 = i_n ix2 ->
  search pr ix1 q k = Ok (ix1', r) ->
  exists ix2', search pr ix2 q k = Ok (ix2', r).
Proof.
  intros pr ix1 ix2 q k ix1' r A Hep Hml Hn H. unfold search in *. unfold fuel_of in *.
  rewrite <- Hep, <- Hml, <- Hn. destruct (i_ep ix1) as [entry|].
  - destruct (get_vector (i_env ix1) entry) as [[ea v0]| |] eqn:G; cbn [bind] in H; try discriminate.
    destruct (gv_agree _ _ _ _ _ A G) as [e2a [G2 A2]]. rewrite G2. cbn [bind].
    match type of H with bind ?x _ = _ => destruct x as [[[eb cur] cd]| |] eqn:Ed; cbn [bind] in H; try discriminate end.
    destruct (greedy_down_agree _ _ _ _ _ _ _ _ _ _ A2 Ed) as [e2b [Ed2 A3]]. rewrite Ed2. cbn [bind].
    match type of H with bind ?x _ = _ => destruct x as [[ec found]| |] eqn:Es; cbn [bind] in H; try discriminate end.
    destruct (search_layer_agree _ _ _ _ _ _ _ _ _ A3 Es) as [e2c [Es2 A4]]. rewrite Es2. cbn [bind].
    inversion H; subst. eexists; reflexivity.
  - inversion H; subst. eexists; reflexivity.
Qed.

Lemma vec_eqb_eq : forall a b, vec_eqb a b = true -> a = b.
Proof.
  induction a as [|x a IH]; intros [|y b] H; cbn in H; try discriminate; auto.
  apply andb_true_iff in H. destruct H as [E H]. apply Z.eqb_eq in E. subst. f_equal. auto.
Qed.

Lemma assoc_some_in : forall {A} k (l : list (N * A)) a, assoc k l = Some a -> exists b, In b l /\ fst b = k.
Proof.
  induction l as [|[k' a'] t IH]; intros a H; cbn in H; [discriminate|].
  destruct (k' =? k)%N eqn:E.
  - apply N.eqb_eq in E. exists (k', a'). split; [left; auto|auto].
  - destruct (IH _ H) as [b [Hb Eb]]. exists b. split; [right; auto|auto].
Qed.

(* Results are unchanged by reopening, for every state that passes reopen_check *)
Theorem reopen_same_checked : forall pr ix q k ix' r,
  reopen_check ix = true ->
  search pr ix q k = Ok (ix', r) ->
  exists ix2 ix2', reopen ix = Ok ix2 /\ search pr ix2 q k = Ok (ix2', r).
Proof.
  intros pr ix q k ix' r C H. unfold reopen_check in C. apply andb_true_iff in C. destruct C as [Cm Cc].
  set (e := i_env ix) in *.
  set (e0 := {| vt := vt e; gt := gt e; cache := [] |}).
  assert (Hm : get_meta e0 = get_meta e) by reflexivity.
  destruct (get_meta e) as [[ep ml]| |] eqn:Gm; try discriminate.
  apply andb_true_iff in Cm. destruct Cm as [Cep Cml]. apply Nat.eqb_eq in Cml.
  assert (Eep : ep = i_ep ix).
  { unfold opt_N_eqb in Cep. destruct ep as [x|], (i_ep ix) as [y|]; try discriminate; auto.
    apply N.eqb_eq in Cep. subst; auto. }
  exists {| i_env := e0; i_ep := ep; i_maxl := ml; i_n := i_n ix |}.
  assert (R : reopen ix = Ok {| i_env := e0; i_ep := ep; i_maxl := ml; i_n := i_n ix |}).
  { unfold reopen. fold e. fold e0. rewrite Hm. reflexivity. }
  assert (A : agree e e0).
  { split; [reflexivity|]. intro id. unfold value_of. cbn [cache vt e0 assoc].
    destruct (assoc id (cache e)) as [v|] eqn:As; [|reflexivity].
    destruct (assoc_some_in _ _ _ As) as [b [Hb Eb]].
    rewrite forallb_forall in Cc. specialize (Cc b Hb). rewrite Eb, As in Cc.
    destruct (lookup (vt e) (vkey id)) as [[v'|]|]; try discriminate.
    apply vec_eqb_eq in Cc. subst. reflexivity. }
  destruct (search_agree pr ix {| i_env := e0; i_ep := ep; i_maxl := ml; i_n := i_n ix |} q k ix' r) as [ix2' S2]; auto.
  exists ix2'. auto.
Qed.

(* non-vacuity: a reachable state with a re-inserted vector passes the check *)
Example reopen_check_nonvacuous :
  match run ex_params empty_index (firstn 6 ex_ops) with
  | Ok ix => reopen_check ix
  | _ => false
  end = true.
Proof. vm_compute. reflexivity. Qed.
