(* Vector/Hnsw_small.v — PROOFS: reachable states of clean histories (no id inserted twice, no
   reopen) whose graph tree still is a single leaf keep layer 0 connected and untruncated while
   the index holds at most 2m+1 vectors; hence the search is exact (C31_small_exact_full). *)
From Coq Require Import Lia ZifyBool ZifyN ZifyNat.
From NDB Require Import Gen.Consts Vector.PageTree Vector.Hnsw Vector.Hnsw_proofs Vector.Hnsw_exact Vector.Hnsw_reopen.
Open Scope nat_scope.
Open Scope nat_scope.

(* ------------------------------------------------------------ a B-tree that is one leaf *)
Section SingleLeaf.
Context {P : Type}.
Variable klen : N -> N.

Fixpoint find_ge (es : list (N * P)) (k : N) : option (N * P) :=
  match es with
  | [] => None
  | e :: t => if (fst e <? k)%N then find_ge t k else Some e
  end.
Definition get_first (es : list (N * P)) (k : N) : option P :=
  match find_ge es k with
  | Some e => if (fst e =? k)%N then Some (snd e) else None
  | None => None
  end.
Fixpoint ins_first (es : list (N * P)) (k : N) (v : P) : list (N * P) :=
  match es with
  | [] => [(k, v)]
  | e :: t => if (fst e <? k)%N then e :: ins_first t k v else (k, v) :: es
  end.

Lemma nth_lower_bound : forall (es : list (N * P)) k, nth_error es (lower_bound es k) = find_ge es k.
Proof.
  induction es as [|e t IH]; intro k; cbn; auto.
  destruct (fst e <? k)%N; cbn; auto.
Qed.

Lemma lower_bound_le : forall (es : list (N * P)) k, lower_bound es k <= length es.
Proof. induction es as [|e t IH]; intro k; cbn; [lia|]. destruct (fst e <? k)%N; [specialize (IH k)|]; lia. Qed.

Lemma insert_at_lower_bound : forall (es : list (N * P)) k v,
  insert_at (lower_bound es k) (k, v) es = ins_first es k v.
Proof.
  induction es as [|e t IH]; intros k v; cbn; auto.
  destruct (fst e <? k)%N; cbn; auto. unfold insert_at in IH. rewrite IH. reflexivity.
Qed.

Lemma get_ins : forall (es : list (N * P)) k v k',
  get_first (ins_first es k v) k' = if (k' =? k)%N then Some v else get_first es k'.
Proof.
  unfold get_first. induction es as [|e t IH]; intros k v k'; cbn.
  - destruct (k <? k')%N eqn:A, (k' =? k)%N eqn:B; cbn; auto; try lia.
    + rewrite N.eqb_sym, B. reflexivity.
    + rewrite N.eqb_sym, B. reflexivity.
  - destruct (fst e <? k)%N eqn:A; cbn.
    + destruct (fst e <? k')%N eqn:B; [apply IH|].
      destruct (k' =? k)%N eqn:C; auto. lia.
    + destruct (k <? k')%N eqn:B; cbn.
      * destruct (k' =? k)%N eqn:C; auto. lia.
      * destruct (k =? k')%N eqn:C.
        -- rewrite N.eqb_sym, C. reflexivity.
        -- rewrite N.eqb_sym, C. destruct (fst e <? k')%N eqn:D; [lia|].
           destruct (fst e =? k')%N eqn:E; auto. lia.
Qed.

Definition SL (t : tree P) (es : list (N * P)) : Prop := pages t = [Leaf es None] /\ root t = 0.

Lemma lookup_SL : forall t es k, SL t es -> lookup t k = Some (get_first es k).
Proof.
  intros [ps rt] es k [Hp Hr]. cbn in Hp, Hr. subst. unfold lookup, tree_fuel. cbn [pages root length descend nth_error].
  cbn [chase]. unfold get_first. rewrite <- nth_lower_bound.
  destruct es as [|e0 es0]; [reflexivity|].
  destruct (lower_bound (e0 :: es0) k <? length (e0 :: es0)) eqn:L.
  - destruct (nth_error (e0 :: es0) (lower_bound (e0 :: es0) k)) as [e|]; [|reflexivity].
    destruct (fst e =? k)%N; reflexivity.
  - apply Nat.ltb_ge in L. assert (H : nth_error (e0 :: es0) (lower_bound (e0 :: es0) k) = None) by (apply nth_error_None; exact L).
    rewrite H. reflexivity.
Qed.

Lemma length_set_nth : forall {X} (l : list X) i x, length (set_nth l i x) = length l.
Proof. induction l as [|h t IH]; intros i x; destruct i; cbn; auto. Qed.

Lemma iip_len : forall path (ps : list (page P)) rt l sep r ps' rt',
  insert_into_parent klen ps rt path l sep r = Some (ps', rt') -> length ps <= length ps'.
Proof.
  induction path as [|[pid pos] rest IH]; intros ps rt l sep r ps' rt' H; cbn in H.
  - inversion H; subst. rewrite app_length. lia.
  - destruct (nth_error ps pid) as [[? ?|lm cells]|]; try discriminate.
    destruct (internal_fits klen cells sep).
    + inversion H; subst. rewrite length_set_nth. lia.
    + apply IH in H. rewrite app_length, length_set_nth in H. lia.
Qed.

Lemma insert_len : forall (t : tree P) k v t',
  PageTree.insert klen t k v = Some t' -> length (pages t) <= length (pages t').
Proof.
  intros t k v t' H. unfold PageTree.insert in H.
  destruct (descend (tree_fuel t) (pages t) (root t) k []) as [[[[cur es] r] path]|]; [|discriminate].
  destruct (leaf_fits klen es k).
  - inversion H; subst. cbn. rewrite length_set_nth. lia.
  - match type of H with match ?X with _ => _ end = _ => destruct X as [[ps' rt']|] eqn:I end; [|discriminate].
    inversion H; subst. cbn. apply iip_len in I. rewrite app_length, length_set_nth in I. lia.
Qed.

Lemma insert_SL : forall t es k v t',
  SL t es -> PageTree.insert klen t k v = Some t' -> length (pages t') = 1 -> SL t' (ins_first es k v).
Proof.
  intros [ps rt] es k v t' [Hp Hr] H L. cbn in Hp, Hr. subst. unfold PageTree.insert, tree_fuel in H.
  cbn [pages root length descend nth_error] in H.
  destruct (leaf_fits klen es k).
  - inversion H; subst. split; cbn; auto. rewrite insert_at_lower_bound. reflexivity.
  - exfalso. cbn [insert_into_parent set_nth app length] in H. inversion H; subst. cbn in L. lia.
Qed.
End SingleLeaf.

(* ------------------------------------------------------------ the graph store while it is one leaf *)
Definition SLg (e : env) : Prop := exists es, SL (gt e) es.
Definition gp (e : env) : nat := length (pages (gt e)).
Definition U (i : N) : Prop := (i < 4294967296)%N.      (* ids are u32 *)

Lemma gkey_inj : forall l i l' i', U i -> U i' -> gkey l i = gkey l' i' -> l = l' /\ i = i'.
Proof. unfold gkey, U. intros. nia. Qed.
Lemma gkey_nz : forall l i, gkey l i <> meta_key.
Proof. unfold gkey, meta_key. intros. lia. Qed.

Definition glook (e : env) (k : N) : option gval :=
  match lookup (gt e) k with Some o => o | None => None end.

Lemma nbrs_of_glook : forall e l i,
  nbrs_of e l i = match glook e (gkey l i) with Some (GN x) => x | _ => [] end.
Proof.
  intros. unfold nbrs_of, get_neighbors, glook.
  destruct (lookup (gt e) (gkey l i)) as [[[x|ep ml]|]|]; reflexivity.
Qed.

Lemma gn_SL : forall e l i, SLg e -> get_neighbors e l i = Ok (nbrs_of e l i).
Proof.
  intros e l i [es H]. unfold nbrs_of, get_neighbors. rewrite (lookup_SL _ _ (gkey l i) H). cbn.
  destruct (get_first es (gkey l i)) as [[x|ep ml]|]; reflexivity.
Qed.

Lemma set_graph_gp : forall e k g e', set_graph e k g = Ok e' -> gp e <= gp e'.
Proof.
  intros e k g e' H. unfold set_graph in H.
  destruct (PageTree.insert gklen (gt e) k g) as [t|] eqn:I; cbn in H; [|discriminate].
  inversion H; subst. unfold gp. cbn. eapply insert_len; eauto.
Qed.

Lemma set_graph_SL : forall e k g e',
  SLg e -> set_graph e k g = Ok e' -> gp e' = 1 ->
  SLg e' /\ vt e' = vt e /\ cache e' = cache e /\
  (forall k', glook e' k' = if (k' =? k)%N then Some g else glook e k').
Proof.
  intros e k g e' [es H0] H L. unfold set_graph in H.
  destruct (PageTree.insert gklen (gt e) k g) as [t|] eqn:I; cbn in H; [|discriminate].
  inversion H; subst; clear H. unfold gp in L. cbn in L.
  pose proof (insert_SL gklen _ _ _ _ _ H0 I L) as H1.
  split; [exists (ins_first es k g); exact H1|]. split; [reflexivity|]. split; [reflexivity|].
  intro k'. unfold glook. cbn [gt]. rewrite (lookup_SL _ _ k' H1), (lookup_SL _ _ k' H0). cbn. apply (get_ins gklen).
Qed.

Lemma set_nb_facts : forall e l i ns e',
  SLg e -> U i -> set_neighbors e l i ns = Ok e' -> gp e' = 1 ->
  SLg e' /\ vt e' = vt e /\ cache e' = cache e /\ nbrs_of e' l i = ns /\
  (forall l' i', U i' -> (l' <> l \/ i' <> i) -> nbrs_of e' l' i' = nbrs_of e l' i').
Proof.
  intros e l i ns e' S0 Ui H L. unfold set_neighbors in H.
  destruct (set_graph_SL _ _ _ _ S0 H L) as [S1 [Hv [Hc Hk]]].
  split; [exact S1|]. split; [exact Hv|]. split; [exact Hc|]. split.
  - rewrite nbrs_of_glook, Hk, N.eqb_refl. reflexivity.
  - intros l' i' Ui' Hne. rewrite !nbrs_of_glook, Hk.
    destruct (gkey l' i' =? gkey l i)%N eqn:E; [|reflexivity].
    apply N.eqb_eq in E. apply gkey_inj in E; auto. destruct E; subst. destruct Hne; congruence.
Qed.

Lemma set_meta_facts : forall e ep ml e',
  SLg e -> set_meta e ep ml = Ok e' -> gp e' = 1 ->
  SLg e' /\ vt e' = vt e /\ cache e' = cache e /\ (forall l i, nbrs_of e' l i = nbrs_of e l i) /\
  glook e' meta_key = Some (GM ep ml).
Proof.
  intros e ep ml e' S0 H L. unfold set_meta in H.
  destruct (set_graph_SL _ _ _ _ S0 H L) as [S1 [Hv [Hc Hk]]].
  split; [exact S1|]. split; [exact Hv|]. split; [exact Hc|].
  split; [|rewrite Hk, N.eqb_refl; reflexivity].
  intros l i. rewrite !nbrs_of_glook, Hk.
  destruct (gkey l i =? meta_key)%N eqn:E; [|reflexivity]. apply N.eqb_eq in E. exfalso. eapply gkey_nz; eauto.
Qed.

(* ------------------------------------------------------------ a search stays inside a closed set *)
Section Closed.
Variable e : env.
Variable q : vec.
Variable S : list N.
Variable V : N -> vec.
Variable G : N -> list N.
Variable ef layer : nat.
Hypothesis HV : forall i, In i S -> assoc i (cache e) = Some (V i).
Hypothesis HG : forall i, In i S -> get_neighbors e layer i = Ok (G i).
Hypothesis Hcl : forall i j, In i S -> In j (G i) -> In j S.
Hypothesis Hef : 1 <= ef.

Definition clinv (s : sl) : Prop :=
  s_env s = e /\ incl (visited s) S /\
  (forall x, In x (cand s) \/ In x (nn s) -> In (snd x) S) /\
  (visited s = [] \/ nn s <> []).

Lemma ins_desc_nonempty : forall x l, ins_desc x l <> [].
Proof. intros x [|h t]; cbn; [discriminate|]. destruct (di_ltb x h); discriminate. Qed.
Lemma ins_desc_len : forall x l, length (ins_desc x l) = Datatypes.S (length l).
Proof. induction l as [|h t IH]; cbn; auto. destruct (di_ltb x h); cbn; auto. Qed.

Lemma sl_init_closed : forall eps s s', clinv s -> incl eps S -> sl_init q eps s = Ok s' ->
  clinv s' /\ (eps <> [] -> visited s' <> []) /\ (visited s <> [] -> visited s' <> []).
Proof.
  induction eps as [|ep t IH]; intros s s' I Hin H; cbn [sl_init] in H.
  - inversion H; subst. split; [exact I|]. split; [congruence|auto].
  - assert (Hep : In ep S) by (apply Hin; left; auto).
    assert (Ht : incl t S) by (intros x Hx; apply Hin; right; auto).
    destruct (memN ep (visited s)) eqn:M.
    + destruct (IH _ _ I Ht H) as [I' [_ B]]. split; [exact I'|]. split; [|exact B].
      intros _. apply B. apply memN_true in M. intro E. rewrite E in M. destruct M.
    + destruct I as [He [Hv [Hx Hn]]]. rewrite He, (gv e S V HV ep Hep) in H. cbn [bind] in H.
      eapply IH in H; [| |exact Ht].
      * destruct H as [I' [_ B]]. cbn in B. split; [exact I'|]. split; intros _; apply B; discriminate.
      * split; [reflexivity|]. cbn [s_env visited cand nn]. split; [intros x [<-|Hx']; auto|]. split.
        -- intros x [Hx'|Hx']; [apply in_ins_asc in Hx'|apply in_ins_desc in Hx']; destruct Hx' as [->|Hx']; cbn [snd]; auto.
        -- right. apply ins_desc_nonempty.
Qed.

Lemma nn2_nonempty : forall x (l : list di),
  (if ef <? length (ins_desc x l) then tl (ins_desc x l) else ins_desc x l) <> [].
Proof.
  intros x l. destruct (ef <? length (ins_desc x l)) eqn:E.
  - apply Nat.ltb_lt in E. destruct (ins_desc x l) as [|a [|b t]]; cbn in *; try lia. discriminate.
  - apply ins_desc_nonempty.
Qed.

Lemma sl_visit_closed : forall nbrs s s', clinv s -> incl nbrs S -> nn s <> [] -> sl_visit q ef nbrs s = Ok s' ->
  clinv s' /\ nn s' <> [].
Proof.
  induction nbrs as [|n t IH]; intros s s' I Hin Hne H; cbn [sl_visit] in H.
  - inversion H; subst. auto.
  - assert (Hn : In n S) by (apply Hin; left; auto).
    assert (Ht : incl t S) by (intros x Hx; apply Hin; right; auto).
    destruct (memN n (visited s)); [eauto|].
    pose proof I as [He [Hv [Hx Hnn]]]. rewrite He, (gv e S V HV n Hn) in H. cbn [bind] in H.
    match type of H with (if ?c then _ else _) = _ => destruct c end.
    + eapply IH in H; [exact H| |exact Ht|cbn [nn]; apply nn2_nonempty].
      split; [reflexivity|]. cbn [s_env visited cand nn]. split; [intros x [<-|Hx']; auto|]. split.
      * intros x [Hx'|Hx'].
        -- apply in_ins_asc in Hx'. destruct Hx' as [->|Hx']; cbn [snd]; auto.
        -- destruct (ef <? length (ins_desc (dist2 q (V n), n) (nn s))); [apply in_tl in Hx'|];
             apply in_ins_desc in Hx'; destruct Hx' as [->|Hx']; cbn [snd]; auto.
      * right. apply nn2_nonempty.
    + eapply IH in H; [exact H| |exact Ht|cbn [nn]; exact Hne].
      split; [reflexivity|]. cbn [s_env visited cand nn]. split; [intros x [<-|Hx']; auto|]. split; auto.
Qed.

Lemma sl_loop_closed : forall fuel s s', clinv s -> nn s <> [] -> sl_loop fuel q ef layer s = Ok s' ->
  clinv s' /\ nn s' <> [].
Proof.
  induction fuel as [|f IH]; intros s s' I Hne H; cbn [sl_loop] in H; [discriminate|].
  destruct (cand s) as [|[dc c] rest] eqn:Ec.
  - inversion H; subst. auto.
  - match type of H with (if ?c then _ else _) = _ => destruct c end.
    + inversion H; subst. auto.
    + pose proof I as [He [Hv [Hx Hnn]]].
      assert (Hc : In c S) by (apply (Hx (dc, c)); left; rewrite Ec; left; auto).
      rewrite He, (HG c Hc) in H. cbn [bind] in H.
      match type of H with bind ?r _ = _ => destruct r as [s1| |] eqn:E1; cbn [bind] in H; try discriminate end.
      eapply sl_visit_closed in E1.
      * destruct E1 as [I1 N1]. eapply IH; eauto.
      * split; [reflexivity|]. cbn [s_env visited cand nn]. split; [exact Hv|]. split; [|exact Hnn].
        intros x [Hx'|Hx']; apply Hx; [left; rewrite Ec; right; auto|right; auto].
      * intros j Hj. eapply Hcl; eauto.
      * cbn [nn]. exact Hne.
Qed.

Lemma search_layer_closed : forall fuel eps e' found,
  incl eps S -> eps <> [] ->
  search_layer fuel e q eps ef layer = Ok (e', found) ->
  e' = e /\ (forall x, In x found -> In (snd x) S) /\ found <> [].
Proof.
  intros fuel eps e' found Hin Hne H. unfold search_layer in H.
  match type of H with bind ?r _ = _ => destruct r as [s0| |] eqn:E0; cbn [bind] in H; try discriminate end.
  match type of H with bind ?r _ = _ => destruct r as [s1| |] eqn:E1; cbn [bind] in H; try discriminate end.
  inversion H; subst; clear H.
  eapply sl_init_closed in E0; [| |exact Hin].
  2:{ split; [reflexivity|]. cbn [s_env visited cand nn]. split; [intros x []|]. split; [intros x [[]|[]]|left; reflexivity]. }
  destruct E0 as [I0 [B _]]. specialize (B Hne).
  assert (N0 : nn s0 <> []). { destruct I0 as [_ [_ [_ [Hv|Hn]]]]; [contradiction|exact Hn]. }
  eapply sl_loop_closed in E1; eauto. destruct E1 as [[He [Hv [Hx _]]] N1].
  split; [exact He|]. split.
  - intros x Hx'. apply in_rev in Hx'. apply Hx. right; auto.
  - intro E. apply N1. destruct (nn s1); [reflexivity|]. cbn in E. apply app_eq_nil in E. destruct E; discriminate.
Qed.
End Closed.

(* ------------------------------------------------------------ reads never touch the graph tree;
   the number of pages of the graph tree never decreases *)
Lemma get_vector_gt : forall e id e' v, get_vector e id = Ok (e', v) -> gt e' = gt e.
Proof.
  intros e id e' v H. unfold get_vector in H. destruct (assoc id (cache e)).
  - inversion H; subst; auto.
  - destruct (lookup (vt e) (vkey id)) as [[v0|]|]; cbn in H; try discriminate. inversion H; subst; auto.
Qed.

Lemma sl_init_gt : forall q eps s s', sl_init q eps s = Ok s' -> gt (s_env s') = gt (s_env s).
Proof.
  induction eps as [|ep t IH]; intros s s' H; cbn [sl_init] in H; [inversion H; auto|].
  destruct (memN ep (visited s)); [auto|].
  destruct (get_vector (s_env s) ep) as [[e1 v]| |] eqn:G; cbn [bind] in H; try discriminate.
  apply IH in H. cbn in H. rewrite H. eapply get_vector_gt; eauto.
Qed.
Lemma sl_visit_gt : forall q ef nbrs s s', sl_visit q ef nbrs s = Ok s' -> gt (s_env s') = gt (s_env s).
Proof.
  induction nbrs as [|n t IH]; intros s s' H; cbn [sl_visit] in H; [inversion H; auto|].
  destruct (memN n (visited s)); [auto|].
  destruct (get_vector (s_env s) n) as [[e1 v]| |] eqn:G; cbn [bind] in H; try discriminate.
  apply get_vector_gt in G.
  match type of H with (if ?c then _ else _) = _ => destruct c end; apply IH in H; cbn in H; congruence.
Qed.
Lemma sl_loop_gt : forall fuel q ef layer s s', sl_loop fuel q ef layer s = Ok s' -> gt (s_env s') = gt (s_env s).
Proof.
  induction fuel as [|f IH]; intros q ef layer s s' H; cbn [sl_loop] in H; [discriminate|].
  destruct (cand s) as [|[dc c] rest]; [inversion H; auto|].
  match type of H with (if ?c then _ else _) = _ => destruct c end; [inversion H; auto|].
  destruct (get_neighbors (s_env s) layer c) as [nbrs| |]; cbn [bind] in H; try discriminate.
  match type of H with bind ?r _ = _ => destruct r as [s1| |] eqn:E1; cbn [bind] in H; try discriminate end.
  apply sl_visit_gt in E1. apply IH in H. cbn in E1. congruence.
Qed.
Lemma search_layer_gt : forall fuel e q eps ef layer e' found,
  search_layer fuel e q eps ef layer = Ok (e', found) -> gt e' = gt e.
Proof.
  intros fuel e q eps ef layer e' found H. unfold search_layer in H.
  match type of H with bind ?r _ = _ => destruct r as [s0| |] eqn:E0; cbn [bind] in H; try discriminate end.
  match type of H with bind ?r _ = _ => destruct r as [s1| |] eqn:E1; cbn [bind] in H; try discriminate end.
  inversion H; subst. apply sl_init_gt in E0. apply sl_loop_gt in E1. cbn in E0. congruence.
Qed.
Lemma greedy_scan_gt : forall q nbrs e cur cd ch e' cur' cd' ch',
  greedy_scan e q nbrs cur cd ch = Ok (e', cur', cd', ch') -> gt e' = gt e.
Proof.
  induction nbrs as [|n t IH]; intros e cur cd ch e' cur' cd' ch' H; cbn [greedy_scan] in H; [inversion H; auto|].
  destruct (get_vector e n) as [[e1 v]| |] eqn:G; cbn [bind] in H; try discriminate. apply get_vector_gt in G.
  destruct (dist2 q v <? cd)%N; apply IH in H; congruence.
Qed.
Lemma greedy_layer_gt : forall fuel e q layer cur cd e' cur' cd',
  greedy_layer fuel e q layer cur cd = Ok (e', cur', cd') -> gt e' = gt e.
Proof.
  induction fuel as [|f IH]; intros e q layer cur cd e' cur' cd' H; cbn [greedy_layer] in H; [discriminate|].
  destruct (get_neighbors e layer cur) as [nbrs| |]; cbn [bind] in H; try discriminate.
  match type of H with bind ?r _ = _ => destruct r as [[[[e1 c1] d1] ch]| |] eqn:E1; cbn [bind] in H; try discriminate end.
  apply greedy_scan_gt in E1. destruct ch; [apply IH in H; congruence|inversion H; subst; auto].
Qed.
Lemma greedy_down_gt : forall fuel q layers e cur cd e' cur' cd',
  greedy_down fuel e q layers cur cd = Ok (e', cur', cd') -> gt e' = gt e.
Proof.
  induction layers as [|l t IH]; intros e cur cd e' cur' cd' H; cbn [greedy_down] in H; [inversion H; auto|].
  match type of H with bind ?r _ = _ => destruct r as [[[e1 c1] d1]| |] eqn:E1; cbn [bind] in H; try discriminate end.
  apply greedy_layer_gt in E1. apply IH in H. congruence.
Qed.

Lemma gp_gt : forall e e', gt e' = gt e -> gp e' = gp e.
Proof. intros e e' H. unfold gp. rewrite H. reflexivity. Qed.

Lemma backlinks_gp : forall pr layer id nbrs e e', backlinks pr e layer id nbrs = Ok e' -> gp e <= gp e'.
Proof.
  induction nbrs as [|n t IH]; intros e e' H; cbn [backlinks] in H; [inversion H; auto|].
  destruct (get_neighbors e layer n) as [l| |]; cbn [bind] in H; try discriminate.
  destruct (memN id l); [auto|].
  match type of H with bind ?r _ = _ => destruct r as [e1| |] eqn:E1; cbn [bind] in H; try discriminate end.
  apply set_graph_gp in E1. apply IH in H. lia.
Qed.
Lemma connect_gp : forall pr fuel id v layers e eps e', connect pr fuel e id v layers eps = Ok e' -> gp e <= gp e'.
Proof.
  induction layers as [|l t IH]; intros e eps e' H; cbn [connect] in H; [inversion H; auto|].
  match type of H with bind ?r _ = _ => destruct r as [[e1 found]| |] eqn:E1; cbn [bind] in H; try discriminate end.
  match type of H with bind ?r _ = _ => destruct r as [e2| |] eqn:E2; cbn [bind] in H; try discriminate end.
  match type of H with bind ?r _ = _ => destruct r as [e3| |] eqn:E3; cbn [bind] in H; try discriminate end.
  apply search_layer_gt in E1. apply gp_gt in E1. apply set_graph_gp in E2. apply backlinks_gp in E3. apply IH in H. lia.
Qed.
Lemma init_layers_gp : forall id layers e e', init_layers e id layers = Ok e' -> gp e <= gp e'.
Proof.
  induction layers as [|l t IH]; intros e e' H; cbn [init_layers] in H; [inversion H; auto|].
  match type of H with bind ?r _ = _ => destruct r as [e1| |] eqn:E1; cbn [bind] in H; try discriminate end.
  apply set_graph_gp in E1. apply IH in H. lia.
Qed.
Lemma insert_vector_gt : forall e id v e', insert_vector e id v = Ok e' -> gt e' = gt e.
Proof.
  intros e id v e' H. unfold insert_vector in H.
  destruct (PageTree.insert vklen (vt e) (vkey id) v); cbn in H; [|discriminate]. inversion H; subst; auto.
Qed.
Lemma insert_gp : forall pr ix id v level ix', Hnsw.insert pr ix id v level = Ok ix' -> gp (i_env ix) <= gp (i_env ix').
Proof.
  intros pr ix id v level ix' H. unfold Hnsw.insert in H.
  match type of H with bind ?r _ = _ => destruct r as [e0| |] eqn:E0; cbn [bind] in H; try discriminate end.
  apply insert_vector_gt in E0. apply gp_gt in E0.
  destruct (i_ep ix) as [entry|].
  - match type of H with bind ?r _ = _ => destruct r as [[e1 v0]| |] eqn:E1; cbn [bind] in H; try discriminate end.
    match type of H with bind ?r _ = _ => destruct r as [[[e2 cur] cd]| |] eqn:E2; cbn [bind] in H; try discriminate end.
    match type of H with bind ?r _ = _ => destruct r as [e3| |] eqn:E3; cbn [bind] in H; try discriminate end.
    apply get_vector_gt in E1. apply gp_gt in E1. apply greedy_down_gt in E2. apply gp_gt in E2. apply connect_gp in E3.
    destruct (i_maxl ix <? level);
      (match type of H with bind ?r _ = _ => destruct r as [e4| |] eqn:E4; cbn [bind] in H; try discriminate end);
      apply set_graph_gp in E4; inversion H; subst; cbn; lia.
  - match type of H with bind ?r _ = _ => destruct r as [e1| |] eqn:E1; cbn [bind] in H; try discriminate end.
    match type of H with bind ?r _ = _ => destruct r as [e2| |] eqn:E2; cbn [bind] in H; try discriminate end.
    apply init_layers_gp in E1. apply set_graph_gp in E2. inversion H; subst; cbn; lia.
Qed.

(* ------------------------------------------------------------ what backlinks and connect write *)
Definition trunc (pr : params) (l1 : list N) : list N :=
  if N.to_nat hnsw_trunc_factor * p_m pr <? length l1 then firstn (p_m pr) l1 else l1.

Lemma SLg_gp : forall e, SLg e -> gp e = 1.
Proof. intros e [es [Hp _]]. unfold gp. rewrite Hp. reflexivity. Qed.

Lemma backlinks_facts : forall pr layer id nbrs e e',
  SLg e -> NoDup nbrs -> (forall n, In n nbrs -> U n) ->
  (forall n, In n nbrs -> ~ In id (nbrs_of e layer n)) ->
  backlinks pr e layer id nbrs = Ok e' -> gp e' = 1 ->
  SLg e' /\ vt e' = vt e /\ cache e' = cache e /\
  (forall n, In n nbrs -> nbrs_of e' layer n = trunc pr (nbrs_of e layer n ++ [id])) /\
  (forall l' i', U i' -> (l' <> layer \/ ~ In i' nbrs) -> nbrs_of e' l' i' = nbrs_of e l' i').
Proof.
  induction nbrs as [|n t IH]; intros e e' S0 Hd Hu Hid H L; cbn [backlinks] in H.
  - inversion H; subst. repeat split; auto. intros n [].
  - inversion Hd as [|? ? Hnt Hdt]; subst.
    rewrite (gn_SL e layer n S0) in H. cbn [bind] in H.
    assert (M : memN id (nbrs_of e layer n) = false).
    { destruct (memN id (nbrs_of e layer n)) eqn:M; auto. apply memN_true in M. exfalso. eapply Hid; eauto. left; auto. }
    rewrite M in H.
    match type of H with bind ?r _ = _ => destruct r as [e1| |] eqn:E1; cbn [bind] in H; try discriminate end.
    assert (L1 : gp e1 = 1).
    { pose proof (set_graph_gp _ _ _ _ E1). pose proof (backlinks_gp _ _ _ _ _ _ H). pose proof (SLg_gp _ S0). lia. }
    destruct (set_nb_facts _ _ _ _ _ S0 (Hu n (or_introl eq_refl)) E1 L1) as [S1 [Hv1 [Hc1 [Hn1 Ho1]]]].
    assert (Hid1 : forall n', In n' t -> ~ In id (nbrs_of e1 layer n')).
    { intros n' Hn'. rewrite Ho1; [apply Hid; right; auto|apply Hu; right; auto|].
      right. intro; subst. contradiction. }
    destruct (IH e1 e' S1 Hdt (fun x Hx => Hu x (or_intror Hx)) Hid1 H L) as [S2 [Hv2 [Hc2 [Hn2 Ho2]]]].
    split; [exact S2|]. split; [congruence|]. split; [congruence|]. split.
    + intros n' [<-|Hn'].
      * rewrite Ho2; [|apply Hu; left; auto|right; exact Hnt]. rewrite Hn1. reflexivity.
      * rewrite (Hn2 n' Hn'). rewrite Ho1; [reflexivity|apply Hu; right; auto|]. right. intro; subst. contradiction.
    + intros l' i' Ui' Hne. rewrite Ho2; auto.
      * apply Ho1; auto. destruct Hne as [Hne|Hne]; [left; auto|]. right. intro; subst. apply Hne. left; auto.
      * destruct Hne as [Hne|Hne]; [left; auto|]. right. intro Hin. apply Hne. right; auto.
Qed.

Lemma nodup_map_firstn : forall n (l : list di), NoDup (map snd l) -> NoDup (map snd (firstn n l)).
Proof.
  induction n as [|n IHn]; intros l Hl; cbn; [constructor|]. destruct l as [|h t]; cbn; [constructor|].
  inversion Hl; subst. constructor; auto. intro Hin. apply H1.
  apply in_map_iff in Hin. destruct Hin as [y [Ey Hy]]. apply in_firstn in Hy.
  rewrite <- Ey. apply in_map. exact Hy.
Qed.

Section Connect.
Variable pr : params.
Variable fuel : nat.
Variable id : N.
Variable v : vec.
Variable S : list N.                  (* the ids already in the index *)
Variable V : N -> vec.
Variable old : nat -> N -> list N.    (* the neighbour lists before this insert *)
Hypothesis Hm : 1 <= p_m pr.
Hypothesis Hefc : 1 <= p_efc pr.
Hypothesis HUid : U id.
Hypothesis HidS : ~ In id S.
Hypothesis HUS : forall i, In i S -> U i.
Hypothesis Hold_closed : forall l i j, In i S -> In j (old l i) -> In j S.

Definition Mid (e : env) (rem : list nat) : Prop :=
  SLg e /\ (forall i, In i S -> assoc i (cache e) = Some (V i)) /\
  (forall l, In l rem -> forall i, U i -> nbrs_of e l i = old l i).

Definition Facts (l : nat) (e' : env) : Prop :=
  exists nbrs, nbrs <> [] /\ incl nbrs S /\ NoDup nbrs /\ nbrs_of e' l id = nbrs /\
    (forall n, In n nbrs -> nbrs_of e' l n = trunc pr (old l n ++ [id])) /\
    (forall i, U i -> i <> id -> ~ In i nbrs -> nbrs_of e' l i = old l i).

Lemma connect_facts : forall layers e eps e',
  NoDup layers -> Mid e layers -> incl eps S -> eps <> [] ->
  connect pr fuel e id v layers eps = Ok e' -> gp e' = 1 ->
  SLg e' /\ cache e' = cache e /\ vt e' = vt e /\
  (forall l, ~ In l layers -> forall i, U i -> nbrs_of e' l i = nbrs_of e l i) /\
  (forall l, In l layers -> Facts l e').
Proof.
  induction layers as [|l rest IH]; intros e eps e' Hd M Heps Hne H L; cbn [connect] in H.
  - inversion H; subst. destruct M as [S0 _]. repeat split; auto. intros l [].
  - inversion Hd as [|? ? Hlr Hdr]; subst. destruct M as [S0 [HC Hun]].
    match type of H with bind ?r _ = _ => destruct r as [[e1 found]| |] eqn:E1; cbn [bind] in H; try discriminate end.
    assert (HG : forall i, In i S -> get_neighbors e l i = Ok (old l i)).
    { intros i Hi. rewrite (gn_SL e l i S0). rewrite Hun; auto. left; auto. }
    pose proof (search_layer_inv (fun _ _ => True) _ _ _ _ _ _ _ _
                  (conj (fun _ _ _ => I) (fun _ _ _ => I)) E1) as [_ [_ [Hnd _]]].
    destruct (search_layer_closed e v S V (old l) (p_efc pr) l HC HG (Hold_closed l) Hefc _ _ _ _ Heps Hne E1)
      as [-> [Hfs Hfne]].
    set (nbrs := select_neighbors found (p_m pr)) in *.
    assert (Nne : nbrs <> []).
    { unfold nbrs, select_neighbors. destruct found as [|f0 ft]; [contradiction|].
      destruct (Nat.max (p_m pr) 1) eqn:Em; [lia|]. cbn. discriminate. }
    assert (Nin : incl nbrs S).
    { intros x Hx. unfold nbrs, select_neighbors in Hx. apply in_map_iff in Hx. destruct Hx as [y [<- Hy]].
      apply in_firstn in Hy. apply Hfs. exact Hy. }
    assert (Nnd : NoDup nbrs) by (apply nodup_map_firstn; exact Hnd).
    assert (Nid : ~ In id nbrs) by (intro Hx; apply HidS; apply Nin; exact Hx).
    match type of H with bind ?r _ = _ => destruct r as [e2| |] eqn:E2; cbn [bind] in H; try discriminate end.
    match type of H with bind ?r _ = _ => destruct r as [e3| |] eqn:E3; cbn [bind] in H; try discriminate end.
    assert (L3 : gp e3 = 1).
    { pose proof (connect_gp _ _ _ _ _ _ _ _ H). pose proof (set_graph_gp _ _ _ _ E2).
      pose proof (backlinks_gp _ _ _ _ _ _ E3). pose proof (SLg_gp _ S0). lia. }
    assert (L2 : gp e2 = 1).
    { pose proof (set_graph_gp _ _ _ _ E2). pose proof (backlinks_gp _ _ _ _ _ _ E3). pose proof (SLg_gp _ S0). lia. }
    destruct (set_nb_facts _ _ _ _ _ S0 HUid E2 L2) as [S2 [Hv2 [Hc2 [Hn2 Ho2]]]].
    assert (Hid2 : forall n, In n nbrs -> ~ In id (nbrs_of e2 l n)).
    { intros n Hn Hx. rewrite Ho2 in Hx; [|apply HUS; auto|right; intro; subst; contradiction].
      rewrite Hun in Hx; [|left; auto|apply HUS; auto]. apply HidS. eapply Hold_closed; eauto. }
    destruct (backlinks_facts pr l id nbrs e2 e3 S2 Nnd (fun n Hn => HUS n (Nin n Hn)) Hid2 E3 L3)
      as [S3 [Hv3 [Hc3 [Hn3 Ho3]]]].
    assert (M3 : Mid e3 rest).
    { split; [exact S3|]. split.
      - intros i Hi. rewrite Hc3, Hc2. auto.
      - intros l' Hl' i Ui. assert (l' <> l) by (intro; subst; contradiction).
        rewrite Ho3; auto. rewrite Ho2; auto. apply Hun; auto. right; auto. }
    assert (Heps' : incl (map snd found) S).
    { intros x Hx. apply in_map_iff in Hx. destruct Hx as [y [<- Hy]]. auto. }
    assert (Hne' : map snd found <> []) by (destruct found; [contradiction|discriminate]).
    destruct (IH e3 _ e' Hdr M3 Heps' Hne' H L) as [S4 [Hc4 [Hv4 [Hun4 Hf4]]]].
    split; [exact S4|]. split; [congruence|]. split; [congruence|]. split.
    + intros l' Hl' i Ui. assert (Hll : l' <> l) by (intro; subst; apply Hl'; left; auto).
      rewrite (Hun4 l' (fun h => Hl' (or_intror h)) i Ui). rewrite (Ho3 l' i Ui (or_introl Hll)).
      apply Ho2; auto.
    + intros l' [<-|Hl']; [|apply Hf4; auto].
      exists nbrs. split; [exact Nne|]. split; [exact Nin|]. split; [exact Nnd|]. split; [|split].
      * rewrite (Hun4 l Hlr id HUid). rewrite (Ho3 l id HUid (or_intror Nid)). exact Hn2.
      * intros n Hn. assert (Un : U n) by (apply HUS; auto). assert (Hnid : n <> id) by (intro; subst; contradiction).
        rewrite (Hun4 l Hlr n Un). rewrite (Hn3 n Hn). rewrite (Ho2 l n Un (or_intror Hnid)).
        rewrite (Hun l (or_introl eq_refl) n Un). reflexivity.
      * intros i Ui Hi Hni.
        rewrite (Hun4 l Hlr i Ui), (Ho3 l i Ui (or_intror Hni)), (Ho2 l i Ui (or_intror Hi)).
        apply Hun; [left; auto|exact Ui].
Qed.
End Connect.

(* ------------------------------------------------------------ the invariant of small clean histories *)
Definition conn (S : list N) (nb : N -> list N) : Prop :=
  forall ep, In ep S -> forall T : N -> Prop, T ep ->
    (forall i j, In i S -> T i -> In j (nb i) -> T j) -> forall i, In i S -> T i.

Definition Good (S : list N) (V : N -> vec) (ix : index) : Prop :=
  let e := i_env ix in
  SLg e /\ NoDup S /\ (forall i, In i S -> U i) /\
  (forall i, In i S -> assoc i (cache e) = Some (V i)) /\
  (forall l i j, In i S -> In j (nbrs_of e l i) -> In j S) /\
  (forall l i, U i -> ~ In i S -> nbrs_of e l i = []) /\
  (forall i, In i S -> NoDup (nbrs_of e 0 i) /\ ~ In i (nbrs_of e 0 i)) /\
  conn S (nbrs_of e 0) /\
  match i_ep ix with Some entry => In entry S | None => S = [] end.

Lemma nbrs_of_gt : forall e e' l i, gt e' = gt e -> nbrs_of e' l i = nbrs_of e l i.
Proof. intros. unfold nbrs_of, get_neighbors. rewrite H. reflexivity. Qed.
Lemma SLg_gt : forall e e', gt e' = gt e -> SLg e -> SLg e'.
Proof. intros e e' H [es S0]. exists es. rewrite H. exact S0. Qed.

Lemma in_trunc : forall pr l j, In j (trunc pr l) -> In j l.
Proof. intros pr l j H. unfold trunc in H. destruct (_ <? _); auto. eapply in_firstn; eauto. Qed.

Lemma trunc_small : forall pr l, length l <= 2 * p_m pr -> trunc pr l = l.
Proof.
  intros pr l H. unfold trunc. change (N.to_nat hnsw_trunc_factor) with 2.
  destruct (2 * p_m pr <? length l) eqn:E; auto. apply Nat.ltb_lt in E. lia.
Qed.

Lemma init_layers_facts : forall id layers e e',
  SLg e -> U id -> init_layers e id layers = Ok e' -> gp e' = 1 ->
  SLg e' /\ cache e' = cache e /\ vt e' = vt e /\
  (forall l, In l layers -> nbrs_of e' l id = []) /\
  (forall l i, U i -> i <> id -> nbrs_of e' l i = nbrs_of e l i) /\
  (forall l, ~ In l layers -> nbrs_of e' l id = nbrs_of e l id).
Proof.
  induction layers as [|l t IH]; intros e e' S0 Ui H L; cbn [init_layers] in H.
  - inversion H; subst. repeat split; auto. intros l [].
  - match type of H with bind ?r _ = _ => destruct r as [e1| |] eqn:E1; cbn [bind] in H; try discriminate end.
    assert (L1 : gp e1 = 1).
    { pose proof (set_graph_gp _ _ _ _ E1). pose proof (init_layers_gp _ _ _ _ H). pose proof (SLg_gp _ S0). lia. }
    destruct (set_nb_facts _ _ _ _ _ S0 Ui E1 L1) as [S1 [Hv1 [Hc1 [Hn1 Ho1]]]].
    destruct (IH e1 e' S1 Ui H L) as [S2 [Hc2 [Hv2 [Hz2 [Ho2 Hu2]]]]].
    split; [exact S2|]. split; [congruence|]. split; [congruence|]. split; [|split].
    + intros l' [<-|Hl']; [|apply Hz2; auto].
      destruct (in_dec Nat.eq_dec l t) as [Hi|Hi]; [apply Hz2; auto|]. rewrite (Hu2 l Hi). exact Hn1.
    + intros l' i Ui' Hne. rewrite (Ho2 l' i Ui' Hne). apply Ho1; auto.
    + intros l' Hl'. rewrite Hu2; [|intro; apply Hl'; right; auto]. apply Ho1; auto. left. intro; subst. apply Hl'. left; auto.
Qed.

Lemma NoDup_layers_down : forall lo hi, NoDup (layers_down lo hi).
Proof. intros. unfold layers_down. apply NoDup_rev. apply seq_NoDup. Qed.
Lemma in_layers_down : forall lo hi l, In l (layers_down lo hi) <-> lo <= l <= hi.
Proof. intros. unfold layers_down. rewrite <- in_rev, in_seq. lia. Qed.

Lemma nodup_len_lt : forall (l S : list N) n, NoDup l -> incl l S -> In n S -> ~ In n l -> length l < length S.
Proof.
  intros l S n Hd Hi Hn Hnl.
  assert (H : length (n :: l) <= length S).
  { apply NoDup_incl_length; [constructor; auto|]. intros x [<-|Hx]; auto. }
  cbn in H. lia.
Qed.

Lemma NoDup_snoc' : forall (l : list N) x, NoDup l -> ~ In x l -> NoDup (l ++ [x]).
Proof.
  induction l as [|h t IH]; intros x Hd Hn; cbn.
  - constructor; [intros []|constructor].
  - inversion Hd; subst. constructor.
    + rewrite in_app_iff. intros [H|[H|[]]]; auto. subst. apply Hn. left; auto.
    + apply IH; auto. intro H. apply Hn. right; auto.
Qed.

Theorem insert_good : forall pr S V V' ix id v level ix',
  Good S V ix -> U id -> ~ In id S -> length S <= 2 * p_m pr -> 1 <= p_m pr -> 1 <= p_efc pr ->
  V' id = v -> (forall i, In i S -> V' i = V i) ->
  Hnsw.insert pr ix id v level = Ok ix' -> gp (i_env ix') = 1 ->
  Good (id :: S) V' ix' /\
  cache (i_env ix') = (id, v) :: cache (i_env ix) /\
  PageTree.insert vklen (vt (i_env ix)) (vkey id) v = Some (vt (i_env ix')) /\
  glook (i_env ix') meta_key = Some (GM (i_ep ix') (i_maxl ix')).
Proof.
  intros pr S V V' ix id v level ix' G Uid HidS Hlen Hm Hefc HVid HVS H L.
  destruct G as [S0 [Sd [SU [HC [Hcl [Hfr [H0 [Hcn Hep]]]]]]]]. set (e := i_env ix) in *.
  unfold Hnsw.insert in H.
  match type of H with bind ?r _ = _ => destruct r as [e0| |] eqn:E0; cbn [bind] in H; try discriminate end.
  assert (Hc0 : cache e0 = (id, v) :: cache e).
  { unfold insert_vector in E0. destruct (PageTree.insert _ _ _ _); cbn in E0; [|discriminate].
    inversion E0; subst; reflexivity. }
  assert (Hv0 : PageTree.insert vklen (vt e) (vkey id) v = Some (vt e0)).
  { unfold insert_vector in E0. destruct (PageTree.insert _ _ _ _); cbn in E0; [|discriminate].
    inversion E0; subst; reflexivity. }
  pose proof (insert_vector_gt _ _ _ _ E0) as Hg0.
  assert (S00 : SLg e0) by (eapply SLg_gt; eauto).
  assert (Hnb0 : forall l i, nbrs_of e0 l i = nbrs_of e l i) by (intros; apply nbrs_of_gt; auto).
  assert (HC0 : forall i, In i S -> assoc i (cache e0) = Some (V i)).
  { intros i Hi. rewrite Hc0. cbn [assoc]. destruct (id =? i)%N eqn:E; [apply N.eqb_eq in E; subst; contradiction|auto]. }
  assert (HCid : assoc id (cache e0) = Some v) by (rewrite Hc0; cbn [assoc]; rewrite N.eqb_refl; reflexivity).
  (* cache of the final state, in terms of V' *)
  assert (HCfin : forall ef, cache ef = cache e0 -> forall i, In i (id :: S) -> assoc i (cache ef) = Some (V' i)).
  { intros ef Hcf i [<-|Hi]; rewrite Hcf; [rewrite HCid, HVid; reflexivity|rewrite (HC0 i Hi), (HVS i Hi); reflexivity]. }
  destruct (i_ep ix) as [entry|] eqn:Eep.
  - (* the index is not empty *)
    rewrite (gv e0 S V HC0 entry Hep) in H. cbn [bind] in H.
    match type of H with bind ?r _ = _ => destruct r as [[[e2 cur] cd]| |] eqn:E2; cbn [bind] in H; try discriminate end.
    apply (greedy_down_same e0 v S V (nbrs_of e0) HC0 (fun _ => True)) in E2; auto.
    2:{ intros l i _ Hi. apply gn_SL. exact S00. }
    2:{ intros l i j _ Hi Hj. rewrite Hnb0 in Hj. eapply Hcl; eauto. }
    destruct E2 as [-> Hcur].
    match type of H with bind ?r _ = _ => destruct r as [e3| |] eqn:E3; cbn [bind] in H; try discriminate end.
    set (epml := if i_maxl ix <? level then (Some id, level) else (Some entry, i_maxl ix)) in *.
    destruct epml as [ep' ml'] eqn:Eepml.
    match type of H with bind ?r _ = _ => destruct r as [e4| |] eqn:E4; cbn [bind] in H; try discriminate end.
    inversion H; subst ix'; clear H. cbn [i_env] in L.
    assert (L3 : gp e3 = 1).
    { pose proof (set_graph_gp _ _ _ _ E4). pose proof (connect_gp _ _ _ _ _ _ _ _ E3). pose proof (SLg_gp _ S00). lia. }
    assert (Hold_closed : forall l i j, In i S -> In j (nbrs_of e0 l i) -> In j S).
    { intros l i j Hi Hj. rewrite Hnb0 in Hj. eapply Hcl; eauto. }
    assert (M0 : Mid S V (nbrs_of e0) e0 (layers_down 0 level)).
    { split; [exact S00|]. split; [exact HC0|]. intros; reflexivity. }
    destruct (connect_facts pr _ id v S V (nbrs_of e0) Hm Hefc Uid HidS SU Hold_closed
                (layers_down 0 level) e0 [cur] e3 (NoDup_layers_down 0 level) M0
                (fun x Hx => match Hx with or_introl E => eq_ind cur (fun y => In y S) Hcur x E | or_intror F => match F with end end)
                (fun E => match E in _ = y return match y with [] => False | _ => True end with eq_refl => I end)
                E3 L3) as [S3 [Hc3 [Hv3 [Hun3 Hf3]]]].
    destruct (set_meta_facts _ _ _ _ S3 E4 L) as [S4 [Hv4 [Hc4 [Hnb4 Hmeta]]]].
    (* neighbour lists of the final state, layer by layer *)
    assert (Hhi : forall l, level < l -> forall i, U i -> nbrs_of e4 l i = nbrs_of e l i).
    { intros l Hl i Ui. rewrite Hnb4, Hun3; auto. rewrite in_layers_down. lia. }
    assert (Hlo : forall l, l <= level -> Facts pr id S (nbrs_of e) l e4).
    { intros l Hl. destruct (Hf3 l) as [nb [A [B [C [D [E F]]]]]]; [apply in_layers_down; lia|].
      exists nb. split; [exact A|]. split; [exact B|]. split; [exact C|]. split; [rewrite Hnb4; exact D|]. split.
      - intros n Hn. rewrite Hnb4, (E n Hn), Hnb0. reflexivity.
      - intros i Ui Hi Hni. rewrite Hnb4, (F i Ui Hi Hni), Hnb0. reflexivity. }
    assert (Hsub : forall l i j, In i (id :: S) -> In j (nbrs_of e4 l i) -> In j (id :: S)).
    { intros l i j Hi Hj. destruct (le_lt_dec l level) as [Hl|Hl].
      - destruct (Hlo l Hl) as [nb [A [B [C [D [E F]]]]]].
        destruct Hi as [<-|Hi]; [rewrite D in Hj; right; apply B; exact Hj|].
        destruct (in_dec N.eq_dec i nb) as [Hin|Hin].
        + rewrite (E i Hin) in Hj. apply in_trunc in Hj. apply in_app_iff in Hj.
          destruct Hj as [Hj|[<-|[]]]; [right; eapply Hcl; eauto|left; auto].
        + rewrite (F i (SU i Hi)) in Hj; auto; [right; eapply Hcl; eauto|intro; subst; contradiction].
      - destruct Hi as [<-|Hi].
        + rewrite (Hhi l Hl id Uid), (Hfr l id Uid HidS) in Hj. destruct Hj.
        + rewrite (Hhi l Hl i (SU i Hi)) in Hj. right. eapply Hcl; eauto. }
    destruct (Hlo 0 (Nat.le_0_l level)) as [nb0 [A0 [B0 [C0 [D0 [E0' F0]]]]]].
    assert (Hgrow : forall i, In i S -> incl (nbrs_of e 0 i) (nbrs_of e4 0 i)).
    { intros i Hi j Hj. destruct (in_dec N.eq_dec i nb0) as [Hin|Hin].
      - rewrite (E0' i Hin), trunc_small.
        + apply in_or_app. left; auto.
        + rewrite app_length. cbn. destruct (H0 i Hi) as [Hnd Hns].
          pose proof (nodup_len_lt (nbrs_of e 0 i) S i Hnd (fun x Hx => Hcl 0 i x Hi Hx) Hi Hns). lia.
      - rewrite (F0 i (SU i Hi)); auto. intro; subst; contradiction. }
    cbn [i_env i_ep i_maxl].
    split; [|split; [congruence|split; [rewrite Hv4, Hv3; exact Hv0|exact Hmeta]]].
    unfold Good; cbn [i_env i_ep].
    split; [exact S4|]. split; [constructor; auto|]. split; [intros i [<-|Hi]; auto|].
    split; [apply HCfin; congruence|]. split; [exact Hsub|]. split; [|split; [|split]].
    + (* ids outside have no lists *)
      intros l i Ui Hni. assert (i <> id) by (intro; subst; apply Hni; left; auto).
      assert (HniS : ~ In i S) by (intro; apply Hni; right; auto).
      destruct (le_lt_dec l level) as [Hl|Hl].
      * destruct (Hlo l Hl) as [nb [A [B [C [D [E F]]]]]]. rewrite (F i Ui); auto.
      * rewrite (Hhi l Hl i Ui). auto.
    + (* layer 0: no duplicates, no self loops *)
      intros i [<-|Hi].
      * rewrite D0. split; [exact C0|]. intro Hx. apply HidS. apply B0. exact Hx.
      * destruct (H0 i Hi) as [Hnd Hns]. destruct (in_dec N.eq_dec i nb0) as [Hin|Hin].
        -- rewrite (E0' i Hin), trunc_small.
           ++ split.
              ** apply NoDup_snoc'; auto. intro Hx. apply HidS. eapply Hcl; eauto.
              ** intro Hx. apply in_app_iff in Hx. destruct Hx as [Hx|[Hx|[]]]; [contradiction|subst; contradiction].
           ++ rewrite app_length. cbn.
              pose proof (nodup_len_lt (nbrs_of e 0 i) S i Hnd (fun x Hx => Hcl 0 i x Hi Hx) Hi Hns). lia.
        -- rewrite (F0 i (SU i Hi)); auto. intro; subst; contradiction.
    + (* layer 0 stays connected *)
      assert (Hn0 : exists n, In n nb0) by (destruct nb0 as [|n t]; [contradiction|exists n; left; auto]).
      destruct Hn0 as [n0 Hn0]. assert (Hn0S : In n0 S) by (apply B0; auto).
      assert (Hback : In id (nbrs_of e4 0 n0)).
      { rewrite (E0' n0 Hn0). destruct (H0 n0 Hn0S) as [Hnd Hns]. rewrite trunc_small.
        - apply in_or_app. right. left. auto.
        - rewrite app_length. cbn.
          pose proof (nodup_len_lt (nbrs_of e 0 n0) S n0 Hnd (fun x Hx => Hcl 0 n0 x Hn0S Hx) Hn0S Hns). lia. }
      intros ep Hepin T Tep Tcl.
      assert (Told : forall s0, In s0 S -> T s0 -> forall i, In i S -> T i).
      { intros s0 Hs0 Ts0. apply (Hcn s0 Hs0 T Ts0).
        intros a b Ha Ta Hb. apply (Tcl a b); [right; auto|exact Ta|apply Hgrow; auto]. }
      assert (Tn0 : T n0).
      { destruct Hepin as [<-|HepS].
        - apply (Tcl id n0); [left; auto|exact Tep|rewrite D0; exact Hn0].
        - apply (Told ep HepS Tep n0 Hn0S). }
      intros i [<-|Hi].
      * apply (Tcl n0 id); [right; auto|exact Tn0|exact Hback].
      * apply (Told n0 Hn0S Tn0 i Hi).
    + (* entry point *)
      unfold epml in Eepml. destruct (i_maxl ix <? level); inversion Eepml; subst; [left; auto|right; auto].
  - (* first vector *)
    subst S.
    match type of H with bind ?r _ = _ => destruct r as [e1| |] eqn:E1; cbn [bind] in H; try discriminate end.
    match type of H with bind ?r _ = _ => destruct r as [e2| |] eqn:E2; cbn [bind] in H; try discriminate end.
    inversion H; subst ix'; clear H. cbn [i_env] in L.
    assert (L1 : gp e1 = 1).
    { pose proof (set_graph_gp _ _ _ _ E2). pose proof (init_layers_gp _ _ _ _ E1). pose proof (SLg_gp _ S00). lia. }
    destruct (init_layers_facts _ _ _ _ S00 Uid E1 L1) as [S1 [Hc1 [Hv1 [Hz1 [Ho1 Hu1]]]]].
    destruct (set_meta_facts _ _ _ _ S1 E2 L) as [S2 [Hv2 [Hc2 [Hnb2 Hmeta]]]].
    assert (Hidl : forall l, nbrs_of e2 l id = []).
    { intros l. rewrite Hnb2. destruct (in_dec Nat.eq_dec l (seq 0 (Datatypes.S level))) as [Hi|Hi]; [apply Hz1; auto|].
      rewrite (Hu1 l Hi), Hnb0. apply Hfr; auto. }
    cbn [i_env i_ep i_maxl].
    split; [|split; [congruence|split; [rewrite Hv2, Hv1; exact Hv0|exact Hmeta]]].
    unfold Good; cbn [i_env i_ep].
    split; [exact S2|]. split; [constructor; [intros []|constructor]|]. split; [intros i [<-|[]]; auto|].
    split; [apply HCfin; congruence|]. split; [|split; [|split; [|split]]].
    + intros l i j [<-|[]] Hj. rewrite Hidl in Hj. destruct Hj.
    + intros l i Ui Hni. assert (i <> id) by (intro; subst; apply Hni; left; auto).
      rewrite Hnb2, (Ho1 l i Ui H), Hnb0. apply Hfr; auto.
    + intros i [<-|[]]. rewrite Hidl. split; [constructor|intros []].
    + intros ep [<-|[]] T Tep _ i [<-|[]]. exact Tep.
    + left; auto.
Qed.


(* ------------------------------------------------------------ the same for the vector tree *)
Lemma get_vector_vt : forall e id e' v, get_vector e id = Ok (e', v) -> vt e' = vt e.
Proof.
  intros e id e' v H. unfold get_vector in H. destruct (assoc id (cache e)).
  - inversion H; subst; auto.
  - destruct (lookup (vt e) (vkey id)) as [[v0|]|]; cbn in H; try discriminate. inversion H; subst; auto.
Qed.

Lemma sl_init_vt : forall q eps s s', sl_init q eps s = Ok s' -> vt (s_env s') = vt (s_env s).
Proof.
  induction eps as [|ep t IH]; intros s s' H; cbn [sl_init] in H; [inversion H; auto|].
  destruct (memN ep (visited s)); [auto|].
  destruct (get_vector (s_env s) ep) as [[e1 v]| |] eqn:G; cbn [bind] in H; try discriminate.
  apply IH in H. cbn in H. rewrite H. eapply get_vector_vt; eauto.
Qed.
Lemma sl_visit_vt : forall q ef nbrs s s', sl_visit q ef nbrs s = Ok s' -> vt (s_env s') = vt (s_env s).
Proof.
  induction nbrs as [|n t IH]; intros s s' H; cbn [sl_visit] in H; [inversion H; auto|].
  destruct (memN n (visited s)); [auto|].
  destruct (get_vector (s_env s) n) as [[e1 v]| |] eqn:G; cbn [bind] in H; try discriminate.
  apply get_vector_vt in G.
  match type of H with (if ?c then _ else _) = _ => destruct c end; apply IH in H; cbn in H; congruence.
Qed.
Lemma sl_loop_vt : forall fuel q ef layer s s', sl_loop fuel q ef layer s = Ok s' -> vt (s_env s') = vt (s_env s).
Proof.
  induction fuel as [|f IH]; intros q ef layer s s' H; cbn [sl_loop] in H; [discriminate|].
  destruct (cand s) as [|[dc c] rest]; [inversion H; auto|].
  match type of H with (if ?c then _ else _) = _ => destruct c end; [inversion H; auto|].
  destruct (get_neighbors (s_env s) layer c) as [nbrs| |]; cbn [bind] in H; try discriminate.
  match type of H with bind ?r _ = _ => destruct r as [s1| |] eqn:E1; cbn [bind] in H; try discriminate end.
  apply sl_visit_vt in E1. apply IH in H. cbn in E1. congruence.
Qed.
Lemma search_layer_vt : forall fuel e q eps ef layer e' found,
  search_layer fuel e q eps ef layer = Ok (e', found) -> vt e' = vt e.
Proof.
  intros fuel e q eps ef layer e' found H. unfold search_layer in H.
  match type of H with bind ?r _ = _ => destruct r as [s0| |] eqn:E0; cbn [bind] in H; try discriminate end.
  match type of H with bind ?r _ = _ => destruct r as [s1| |] eqn:E1; cbn [bind] in H; try discriminate end.
  inversion H; subst. apply sl_init_vt in E0. apply sl_loop_vt in E1. cbn in E0. congruence.
Qed.
Lemma greedy_scan_vt : forall q nbrs e cur cd ch e' cur' cd' ch',
  greedy_scan e q nbrs cur cd ch = Ok (e', cur', cd', ch') -> vt e' = vt e.
Proof.
  induction nbrs as [|n t IH]; intros e cur cd ch e' cur' cd' ch' H; cbn [greedy_scan] in H; [inversion H; auto|].
  destruct (get_vector e n) as [[e1 v]| |] eqn:G; cbn [bind] in H; try discriminate. apply get_vector_vt in G.
  destruct (dist2 q v <? cd)%N; apply IH in H; congruence.
Qed.
Lemma greedy_layer_vt : forall fuel e q layer cur cd e' cur' cd',
  greedy_layer fuel e q layer cur cd = Ok (e', cur', cd') -> vt e' = vt e.
Proof.
  induction fuel as [|f IH]; intros e q layer cur cd e' cur' cd' H; cbn [greedy_layer] in H; [discriminate|].
  destruct (get_neighbors e layer cur) as [nbrs| |]; cbn [bind] in H; try discriminate.
  match type of H with bind ?r _ = _ => destruct r as [[[[e1 c1] d1] ch]| |] eqn:E1; cbn [bind] in H; try discriminate end.
  apply greedy_scan_vt in E1. destruct ch; [apply IH in H; congruence|inversion H; subst; auto].
Qed.
Lemma greedy_down_vt : forall fuel q layers e cur cd e' cur' cd',
  greedy_down fuel e q layers cur cd = Ok (e', cur', cd') -> vt e' = vt e.
Proof.
  induction layers as [|l t IH]; intros e cur cd e' cur' cd' H; cbn [greedy_down] in H; [inversion H; auto|].
  match type of H with bind ?r _ = _ => destruct r as [[[e1 c1] d1]| |] eqn:E1; cbn [bind] in H; try discriminate end.
  apply greedy_layer_vt in E1. apply IH in H. congruence.
Qed.


Definition vp (e : env) : nat := length (pages (vt e)).
Lemma set_graph_vt : forall e k g e', set_graph e k g = Ok e' -> vt e' = vt e.
Proof.
  intros e k g e' H. unfold set_graph in H. destruct (PageTree.insert gklen (gt e) k g); cbn in H; [|discriminate].
  inversion H; subst; reflexivity.
Qed.
Lemma backlinks_vt : forall pr layer id nbrs e e', backlinks pr e layer id nbrs = Ok e' -> vt e' = vt e.
Proof.
  induction nbrs as [|n t IH]; intros e e' H; cbn [backlinks] in H; [inversion H; auto|].
  destruct (get_neighbors e layer n) as [l| |]; cbn [bind] in H; try discriminate.
  destruct (memN id l); [auto|].
  match type of H with bind ?r _ = _ => destruct r as [e1| |] eqn:E1; cbn [bind] in H; try discriminate end.
  apply set_graph_vt in E1. apply IH in H. congruence.
Qed.
Lemma connect_vt : forall pr fuel id v layers e eps e', connect pr fuel e id v layers eps = Ok e' -> vt e' = vt e.
Proof.
  induction layers as [|l t IH]; intros e eps e' H; cbn [connect] in H; [inversion H; auto|].
  match type of H with bind ?r _ = _ => destruct r as [[e1 found]| |] eqn:E1; cbn [bind] in H; try discriminate end.
  match type of H with bind ?r _ = _ => destruct r as [e2| |] eqn:E2; cbn [bind] in H; try discriminate end.
  match type of H with bind ?r _ = _ => destruct r as [e3| |] eqn:E3; cbn [bind] in H; try discriminate end.
  apply search_layer_vt in E1. apply set_graph_vt in E2. apply backlinks_vt in E3. apply IH in H. congruence.
Qed.
Lemma init_layers_vt : forall id layers e e', init_layers e id layers = Ok e' -> vt e' = vt e.
Proof.
  induction layers as [|l t IH]; intros e e' H; cbn [init_layers] in H; [inversion H; auto|].
  match type of H with bind ?r _ = _ => destruct r as [e1| |] eqn:E1; cbn [bind] in H; try discriminate end.
  apply set_graph_vt in E1. apply IH in H. congruence.
Qed.
Lemma insert_vp : forall pr ix id v level ix', Hnsw.insert pr ix id v level = Ok ix' -> vp (i_env ix) <= vp (i_env ix').
Proof.
  intros pr ix id v level ix' H. unfold Hnsw.insert in H.
  match type of H with bind ?r _ = _ => destruct r as [e0| |] eqn:E0; cbn [bind] in H; try discriminate end.
  assert (V0 : vp (i_env ix) <= vp e0).
  { unfold insert_vector in E0. destruct (PageTree.insert vklen (vt (i_env ix)) (vkey id) v) as [t|] eqn:I; cbn in E0; [|discriminate].
    inversion E0; subst. unfold vp. cbn. eapply insert_len; eauto. }
  assert (Q : forall e', vt e' = vt e0 -> vp (i_env ix) <= vp e') by (intros e' He; unfold vp in *; rewrite He; exact V0).
  destruct (i_ep ix) as [entry|].
  - match type of H with bind ?r _ = _ => destruct r as [[e1 v0]| |] eqn:E1; cbn [bind] in H; try discriminate end.
    match type of H with bind ?r _ = _ => destruct r as [[[e2 cur] cd]| |] eqn:E2; cbn [bind] in H; try discriminate end.
    match type of H with bind ?r _ = _ => destruct r as [e3| |] eqn:E3; cbn [bind] in H; try discriminate end.
    apply get_vector_vt in E1. apply greedy_down_vt in E2. apply connect_vt in E3.
    destruct (i_maxl ix <? level);
      (match type of H with bind ?r _ = _ => destruct r as [e4| |] eqn:E4; cbn [bind] in H; try discriminate end);
      apply set_graph_vt in E4; inversion H; subst; cbn [i_env]; apply Q; congruence.
  - match type of H with bind ?r _ = _ => destruct r as [e1| |] eqn:E1; cbn [bind] in H; try discriminate end.
    match type of H with bind ?r _ = _ => destruct r as [e2| |] eqn:E2; cbn [bind] in H; try discriminate end.
    apply init_layers_vt in E1. apply set_graph_vt in E2. inversion H; subst; cbn [i_env]; apply Q; congruence.
Qed.
Lemma run_vp : forall pr ops ix ix', ~ In OReopen ops -> run pr ix ops = Ok ix' -> vp (i_env ix) <= vp (i_env ix').
Proof.
  induction ops as [|o t IH]; intros ix ix' Hr H; cbn [run] in H; [inversion H; auto|].
  match type of H with bind ?x _ = _ => destruct x as [ix1| |] eqn:E1; cbn [bind] in H; try discriminate end.
  assert (Hr' : ~ In OReopen t) by (intro; apply Hr; right; auto).
  apply IH in H; auto. destruct o as [id v l|id|]; cbn [step] in E1.
  - apply insert_vp in E1. lia.
  - inversion E1; subst; auto.
  - exfalso. apply Hr. left; auto.
Qed.

(* ------------------------------------------------------------ exactness from the invariant *)
Theorem small_exact_good : forall pr S V ix q k ix' r,
  Good S V ix -> length S <= p_efs pr ->
  search pr ix q k = Ok (ix', r) ->
  r = brute_force (map (fun i => (i, V i)) S) q k.
Proof.
  intros pr S V ix q k ix' r G Hlen H.
  destruct G as [S0 [Sd [SU [HC [Hcl [Hfr [H0 [Hcn Hep]]]]]]]]. set (e := i_env ix) in *.
  assert (HG : forall l i, True -> In i S -> get_neighbors e l i = Ok (nbrs_of e l i)) by (intros; apply gn_SL; auto).
  assert (Hcl' : forall l i j, True -> In i S -> In j (nbrs_of e l i) -> In j S) by (intros; eapply Hcl; eauto).
  unfold search in H. destruct (i_ep ix) as [entry|].
  - fold e in H. rewrite (gv e S V HC entry Hep) in H. cbn [bind] in H.
    match type of H with bind ?x _ = _ => destruct x as [[[e2 cur] cd]| |] eqn:E2; cbn [bind] in H; try discriminate end.
    apply (greedy_down_same e q S V (nbrs_of e) HC (fun _ => True) HG Hcl') in E2; auto.
    destruct E2 as [-> Hcur].
    match type of H with bind ?x _ = _ => destruct x as [[e3 found]| |] eqn:E3; cbn [bind] in H; try discriminate end.
    apply (search_layer_complete e q S V (nbrs_of e) (p_efs pr) HC (fun _ => True) HG Hcl' Sd Hlen 0 I cur Hcur (Hcn cur Hcur)) in E3.
    destruct E3 as [-> ->]. inversion H; subst; clear H.
    unfold brute_force. rewrite map_map. unfold D. cbn [fst snd]. reflexivity.
  - subst S. inversion H; subst. unfold brute_force. cbn. destruct k; reflexivity.
Qed.

(* ------------------------------------------------------------ histories *)
Definition Vof (st : list (N * vec)) (i : N) : vec := match assoc i st with Some v => v | None => [] end.
Definition op_ids (ops : list op) : list N :=
  flat_map (fun o => match o with OInsert id _ _ => [id] | _ => [] end) ops.

Lemma filter_fresh : forall id (st : list (N * vec)),
  ~ In id (map fst st) -> filter (fun b => negb (fst b =? id)%N) st = st.
Proof.
  induction st as [|[a w] t IH]; intro H; cbn; auto. cbn in H.
  destruct (a =? id)%N eqn:E; cbn.
  - apply N.eqb_eq in E. subst. exfalso. apply H. left; auto.
  - rewrite IH; auto.
Qed.

Lemma stored_len : forall ops st,
  NoDup (op_ids ops) -> (forall id, In id (op_ids ops) -> ~ In id (map fst st)) ->
  length (stored ops st) = length st + length (op_ids ops).
Proof.
  induction ops as [|o t IH]; intros st Hd Hf; cbn [stored op_ids flat_map]; [cbn; lia|].
  destruct o as [id v l|id|]; cbn [app] in *.
  - inversion Hd as [|? ? Hn Hd']; subst. rewrite filter_fresh; [|apply Hf; left; auto].
    rewrite IH; auto.
    + cbn. unfold op_ids. lia.
    + intros id' Hid' Hin. cbn in Hin. destruct Hin as [E|Hin]; [subst; contradiction|]. eapply Hf; [right; eauto|exact Hin].
  - apply IH; auto.
  - apply IH; auto.
Qed.

Lemma run_gp : forall pr ops ix ix', ~ In OReopen ops -> run pr ix ops = Ok ix' -> gp (i_env ix) <= gp (i_env ix').
Proof.
  induction ops as [|o t IH]; intros ix ix' Hr H; cbn [run] in H; [inversion H; auto|].
  match type of H with bind ?x _ = _ => destruct x as [ix1| |] eqn:E1; cbn [bind] in H; try discriminate end.
  assert (Hr' : ~ In OReopen t) by (intro; apply Hr; right; auto).
  apply IH in H; auto. destruct o as [id v l|id|]; cbn [step] in E1.
  - apply insert_gp in E1. lia.
  - inversion E1; subst; auto.
  - exfalso. apply Hr. left; auto.
Qed.

Lemma empty_good : Good [] (Vof []) empty_index.
Proof.
  assert (S0 : SLg (i_env empty_index)) by (exists []; split; reflexivity).
  unfold Good. cbn [i_env i_ep empty_index].
  split; [exact S0|]. split; [constructor|]. split; [intros i []|]. split; [intros i []|].
  split; [intros l i j []|]. split; [|split; [intros i []|split; [intros ep []|reflexivity]]].
  intros l i _ _. reflexivity.
Qed.

Lemma run_good : forall pr ops ix st ix',
  1 <= p_m pr -> 1 <= p_efc pr ->
  Good (map fst st) (Vof st) ix ->
  NoDup (op_ids ops) -> (forall id, In id (op_ids ops) -> U id /\ ~ In id (map fst st)) ->
  ~ In OReopen ops ->
  length (stored ops st) <= 2 * p_m pr + 1 ->
  run pr ix ops = Ok ix' -> gp (i_env ix') = 1 ->
  Good (map fst (stored ops st)) (Vof (stored ops st)) ix'.
Proof.
  induction ops as [|o t IH]; intros ix st ix' Hm Hefc G Hd Hf Hr Hlen H L; cbn [run] in H.
  - inversion H; subst. exact G.
  - match type of H with bind ?x _ = _ => destruct x as [ix1| |] eqn:E1; cbn [bind] in H; try discriminate end.
    assert (Hr' : ~ In OReopen t) by (intro; apply Hr; right; auto).
    destruct o as [id v l|id|]; cbn [step] in E1; cbn [stored op_ids flat_map app] in *.
    + inversion Hd as [|? ? Hn Hd']; subst.
      destruct (Hf id (or_introl eq_refl)) as [Uid Hfresh].
      rewrite filter_fresh in *; auto.
      assert (Hf' : forall id', In id' (op_ids t) -> U id' /\ ~ In id' (map fst ((id, v) :: st))).
      { intros id' Hid'. destruct (Hf id' (or_intror Hid')) as [A B]. split; auto.
        intro Hin. cbn in Hin. destruct Hin as [E|Hin]; [subst; contradiction|contradiction]. }
      assert (Hl : length (stored t ((id, v) :: st)) = length ((id, v) :: st) + length (op_ids t)).
      { apply stored_len; auto. intros id' Hid'. apply Hf'. exact Hid'. }
      assert (L1 : gp (i_env ix1) = 1).
      { pose proof (run_gp _ _ _ _ Hr' H). pose proof (insert_gp _ _ _ _ _ _ E1).
        destruct G as [S0 _]. pose proof (SLg_gp _ S0). lia. }
      eapply IH; eauto. cbn [map fst].
      eapply (proj1 (insert_good pr (map fst st) (Vof st) (Vof ((id, v) :: st)) ix id v l ix1 _ _ _ _ _ _ _ _ _ _)).
      Unshelve. all: eauto.
      * rewrite map_length. cbn [length] in Hl. lia.
      * unfold Vof. cbn. rewrite N.eqb_refl. reflexivity.
      * intros i Hi. unfold Vof. cbn. destruct (id =? i)%N eqn:E; auto.
        apply N.eqb_eq in E. subst. contradiction.
    + inversion E1; subst. eapply IH; eauto.
    + exfalso. apply Hr. left; auto.
Qed.

Lemma map_Vof : forall st : list (N * vec), NoDup (map fst st) -> map (fun i => (i, Vof st i)) (map fst st) = st.
Proof.
  induction st as [|[a w] t IH]; intro Hd; cbn; auto. inversion Hd; subst.
  unfold Vof at 1. cbn. rewrite N.eqb_refl. f_equal.
  rewrite <- (IH H2) at 2. apply map_ext_in. intros i Hi. unfold Vof. cbn.
  destruct (a =? i)%N eqn:E; auto. apply N.eqb_eq in E. subst. contradiction.
Qed.

(* The clause of the property that names a number: at most 2m+1 vectors => exact. *)
Theorem small_exact_full : forall pr ops ix q k ix' r,
  run pr empty_index ops = Ok ix ->
  NoDup (op_ids ops) -> (forall id, In id (op_ids ops) -> U id) -> ~ In OReopen ops ->
  length (stored ops []) <= 2 * p_m pr + 1 -> length (stored ops []) <= p_efs pr ->
  1 <= p_m pr -> 1 <= p_efc pr ->
  length (pages (gt (i_env ix))) = 1 ->
  search pr ix q k = Ok (ix', r) ->
  r = brute_force (stored ops []) q k.
Proof.
  intros pr ops ix q k ix' r Hrun Hd HU Hr Hl1 Hl2 Hm Hefc Hp Hs.
  pose proof (run_good pr ops empty_index [] ix Hm Hefc empty_good Hd (fun id Hid => conj (HU id Hid) (fun F => F)) Hr Hl1 Hrun Hp) as G.
  pose proof G as [_ [Sd _]].
  rewrite (small_exact_good pr _ _ ix q k ix' r G) ; auto.
  - rewrite map_Vof; auto.
  - rewrite map_length. exact Hl2.
Qed.

(* non-vacuity: the hypotheses of small_exact_full are met by a history with three layers *)
Example small_exact_full_nonvacuous :
  exists ix, run sx_params empty_index sx_ops = Ok ix /\
    length (pages (gt (i_env ix))) = 1 /\ NoDup (op_ids sx_ops) /\
    length (stored sx_ops []) <= 2 * p_m sx_params + 1 /\ length (stored sx_ops []) <= p_efs sx_params.
Proof.
  destruct (run sx_params empty_index sx_ops) as [ix| |] eqn:E; [|vm_compute in E; discriminate E..].
  exists ix. split; [reflexivity|].
  assert (H : match run sx_params empty_index sx_ops with Ok i => length (pages (gt (i_env i))) | _ => 0 end = 1)
    by (vm_compute; reflexivity).
  rewrite E in H. split; [exact H|]. split.
  - apply nodupN_NoDup. vm_compute. reflexivity.
  - split; vm_compute; lia.
Qed.

(* ------------------------------------------------------------ reopening small clean states *)
Definition Aux (ix : index) : Prop :=
  (exists es, SL (vt (i_env ix)) es /\
     forall id v, assoc id (cache (i_env ix)) = Some v -> get_first es (vkey id) = Some v) /\
  match i_ep ix with
  | Some _ => glook (i_env ix) meta_key = Some (GM (i_ep ix) (i_maxl ix))
  | None => glook (i_env ix) meta_key = None /\ i_maxl ix = 0
  end.

Lemma empty_aux : Aux empty_index.
Proof.
  split.
  - exists []. split; [split; reflexivity|]. intros id v H. cbn in H. discriminate.
  - cbn. split; reflexivity.
Qed.

Lemma run_good_aux : forall pr ops ix st ix',
  1 <= p_m pr -> 1 <= p_efc pr ->
  Good (map fst st) (Vof st) ix -> Aux ix ->
  NoDup (op_ids ops) -> (forall id, In id (op_ids ops) -> U id /\ ~ In id (map fst st)) ->
  ~ In OReopen ops ->
  length (stored ops st) <= 2 * p_m pr + 1 ->
  run pr ix ops = Ok ix' -> gp (i_env ix') = 1 -> vp (i_env ix') = 1 ->
  Good (map fst (stored ops st)) (Vof (stored ops st)) ix' /\ Aux ix'.
Proof.
  induction ops as [|o t IH]; intros ix st ix' Hm Hefc G A Hd Hf Hr Hlen H L LV; cbn [run] in H.
  - inversion H; subst. auto.
  - match type of H with bind ?x _ = _ => destruct x as [ix1| |] eqn:E1; cbn [bind] in H; try discriminate end.
    assert (Hr' : ~ In OReopen t) by (intro; apply Hr; right; auto).
    destruct o as [id v l|id|]; cbn [step] in E1; cbn [stored op_ids flat_map app] in *.
    + inversion Hd as [|? ? Hn Hd']; subst.
      destruct (Hf id (or_introl eq_refl)) as [Uid Hfresh].
      rewrite filter_fresh in *; auto.
      assert (Hf' : forall id', In id' (op_ids t) -> U id' /\ ~ In id' (map fst ((id, v) :: st))).
      { intros id' Hid'. destruct (Hf id' (or_intror Hid')) as [A1 B1]. split; auto.
        intro Hin. cbn in Hin. destruct Hin as [E|Hin]; [subst; contradiction|contradiction]. }
      assert (Hl : length (stored t ((id, v) :: st)) = length ((id, v) :: st) + length (op_ids t)).
      { apply stored_len; auto. intros id' Hid'. apply Hf'. exact Hid'. }
      assert (L1 : gp (i_env ix1) = 1).
      { pose proof (run_gp _ _ _ _ Hr' H). pose proof (insert_gp _ _ _ _ _ _ E1).
        destruct G as [S0 _]. pose proof (SLg_gp _ S0). lia. }
      destruct A as [[es [SLv Hcv]] Hmeta].
      assert (LV1 : vp (i_env ix1) = 1).
      { pose proof (run_vp _ _ _ _ Hr' H). pose proof (insert_vp _ _ _ _ _ _ E1).
        assert (vp (i_env ix) = 1) by (unfold vp; destruct SLv as [Hp _]; rewrite Hp; reflexivity). lia. }
      assert (HG1 : Good (id :: map fst st) (Vof ((id, v) :: st)) ix1 /\
                    cache (i_env ix1) = (id, v) :: cache (i_env ix) /\
                    PageTree.insert vklen (vt (i_env ix)) (vkey id) v = Some (vt (i_env ix1)) /\
                    glook (i_env ix1) meta_key = Some (GM (i_ep ix1) (i_maxl ix1))).
      { eapply (insert_good pr (map fst st) (Vof st) (Vof ((id, v) :: st)) ix id v l ix1); eauto.
        - rewrite map_length. cbn [length] in Hl. lia.
        - unfold Vof. cbn. rewrite N.eqb_refl. reflexivity.
        - intros i Hi. unfold Vof. cbn. destruct (id =? i)%N eqn:E; auto. apply N.eqb_eq in E. subst. contradiction. }
      destruct HG1 as [G1 [Hc1 [Hv1 Hm1]]].
      assert (A1 : Aux ix1).
      { split.
        - exists (ins_first es (vkey id) v). split.
          + eapply insert_SL; eauto.
          + intros id' v' Ha. rewrite Hc1 in Ha. cbn [assoc] in Ha. rewrite (get_ins vklen). unfold vkey in *.
            destruct (id =? id')%N eqn:E.
            * apply N.eqb_eq in E. subst. rewrite N.eqb_refl. exact Ha.
            * rewrite N.eqb_sym, E. apply Hcv. exact Ha.
        - destruct G1 as [_ [_ [_ [_ [_ [_ [_ [_ Hep1]]]]]]]]. destruct (i_ep ix1) eqn:Eep1; [exact Hm1|discriminate]. }
      eapply IH; eauto.
    + inversion E1; subst. eapply IH; eauto.
    + exfalso. apply Hr. left; auto.
Qed.

Lemma lookup_glook : forall e k, SLg e -> lookup (gt e) k = Some (glook e k).
Proof. intros e k [es S0]. unfold glook. rewrite (lookup_SL _ _ k S0). reflexivity. Qed.

Lemma in_assoc_some : forall {A} (l : list (N * A)) b, In b l -> exists a, assoc (fst b) l = Some a.
Proof.
  induction l as [|[k a] t IH]; intros b H; [destruct H|]. cbn [assoc].
  destruct (k =? fst b)%N eqn:E; [eexists; reflexivity|].
  destruct H as [<-|H]; [cbn in E; rewrite N.eqb_refl in E; discriminate|auto].
Qed.
Lemma vec_eqb_refl : forall a, vec_eqb a a = true.
Proof. induction a as [|x a IH]; cbn; auto. rewrite Z.eqb_refl. exact IH. Qed.

Lemma reopen_check_good : forall S V ix, Good S V ix -> Aux ix -> reopen_check ix = true.
Proof.
  intros S V ix G [[es [SLv Hcv]] Hmeta]. destruct G as [S0 _]. unfold reopen_check.
  apply andb_true_iff. split.
  - unfold get_meta. rewrite (lookup_glook _ meta_key S0). cbn [of_opt bind].
    destruct (i_ep ix) as [entry|] eqn:Eep.
    + rewrite Hmeta. cbn. rewrite N.eqb_refl, Nat.eqb_refl. reflexivity.
    + destruct Hmeta as [Hg Hml]. rewrite Hg, Hml. reflexivity.
  - apply forallb_forall. intros b Hb. destruct (in_assoc_some _ _ Hb) as [a Ha]. rewrite Ha.
    rewrite (lookup_SL _ _ (vkey (fst b)) SLv), (Hcv _ _ Ha). apply vec_eqb_refl.
Qed.

(* Results are unchanged by reopening, for every clean history (no node gets a vector twice,
   no earlier reopen) with at most 2m+1 vectors whose two B-trees have not split. *)
Theorem reopen_same_small : forall pr ops ix q k ix' r,
  run pr empty_index ops = Ok ix ->
  NoDup (op_ids ops) -> (forall id, In id (op_ids ops) -> U id) -> ~ In OReopen ops ->
  length (stored ops []) <= 2 * p_m pr + 1 -> 1 <= p_m pr -> 1 <= p_efc pr ->
  length (pages (gt (i_env ix))) = 1 -> length (pages (vt (i_env ix))) = 1 ->
  search pr ix q k = Ok (ix', r) ->
  exists ix2 ix2', reopen ix = Ok ix2 /\ search pr ix2 q k = Ok (ix2', r).
Proof.
  intros pr ops ix q k ix' r Hrun Hd HU Hr Hl1 Hm Hefc Hp Hv Hs.
  destruct (run_good_aux pr ops empty_index [] ix Hm Hefc empty_good empty_aux Hd
              (fun id Hid => conj (HU id Hid) (fun F => F)) Hr Hl1 Hrun Hp Hv) as [G A].
  eapply reopen_same_checked; eauto. eapply reopen_check_good; eauto.
Qed.
