(* Vector/PageTree.v — MODEL of the page-level B-tree (index/btree.rs) as the HNSW
   stores use it: insert (never delete) and point lookup through cursor_lower_bound,
   with *duplicate keys* (every set_neighbors / set_meta / re-inserted vector adds one
   more cell with the same key).  Executable definitions only.

   Pages are numbered by their position in the tree's own page list (allocation
   order inside one tree); the real page numbers are not observable through the
   vector API.  A key is represented by an order-isomorphic image in N together with
   its byte length `klen` (needed for the free-space test that decides when a page
   splits).  Payloads (blob ids in the code) are represented by the blob's content;
   BlobStore::write_direct/read_direct are taken to round-trip.

   Simplifications, each checked only through the correspondence:
   * leaf_lower_bound / internal_child_for_key are binary searches in the code; here
     they are the linear "first index whose key is >= / > target", which is the same
     index on a sorted page (pages stay sorted: every insertion is at such an index);
   * the position at which a split re-inserts the new cell is Rust's
     slice::binary_search_by (core 1.95), modelled literally by `rust_binsearch`,
     because with equal keys its result is not the lower bound. *)
From Coq Require Export List NArith Bool Arith.
From NDB Require Import Gen.Consts.
Export ListNotations.
Open Scope nat_scope.

Section Tree.
Context {P : Type}.
Variable klen : N -> N.            (* byte length of the key with image k (< 128) *)

Inductive page :=
| Leaf (es : list (N * P)) (right : option nat)
| Internal (leftmost : nat) (cells : list (N * nat)).

Record tree := { pages : list page; root : nat }.

Definition empty_tree : tree := {| pages := [Leaf [] None]; root := 0 |}.

(* bytes taken by a cell with key k, slot included *)
Definition cell_bytes (k : N) : N := (klen k + hnsw_bt_cell_overhead)%N.

Definition used {X} (es : list (N * X)) : N :=
  fold_left (fun a e => (a + cell_bytes (fst e))%N) es 0%N.

(* leaf_insert_at / internal_insert_at succeed iff free >= cell_len + 2 *)
Definition leaf_fits (es : list (N * P)) (k : N) : bool :=
  (hnsw_bt_leaf_header + used es + cell_bytes k <=? hnsw_bt_page_size)%N.
Definition internal_fits (cells : list (N * nat)) (k : N) : bool :=
  (hnsw_bt_internal_header + used cells + cell_bytes k <=? hnsw_bt_page_size)%N.

(* first index whose key is >= k *)
Fixpoint lower_bound {X} (es : list (N * X)) (k : N) : nat :=
  match es with
  | [] => 0
  | e :: t => if (fst e <? k)%N then S (lower_bound t k) else 0
  end.
(* first index whose key is > k *)
Fixpoint upper_bound {X} (es : list (N * X)) (k : N) : nat :=
  match es with
  | [] => 0
  | e :: t => if (fst e <=? k)%N then S (upper_bound t k) else 0
  end.

Definition insert_at {X} (n : nat) (x : X) (l : list X) : list X := firstn n l ++ x :: skipn n l.

Fixpoint set_nth {X} (l : list X) (i : nat) (x : X) : list X :=
  match l, i with
  | [], _ => []
  | _ :: t, 0 => x :: t
  | h :: t, S j => h :: set_nth t j x
  end.

(* core::slice::binary_search_by(|e| e.cmp(k)), Ok(p) and Err(p) both mapped to p *)
Fixpoint bs_loop (fuel : nat) (keys : list N) (k : N) (base size : nat) : nat :=
  match fuel with
  | 0 => base
  | S f =>
      if size <=? 1 then base
      else
        let half := size / 2 in
        let mid := base + half in
        let base' := if (k <? nth mid keys 0%N)%N then base else mid in
        bs_loop f keys k base' (size - half)
  end.
Definition rust_binsearch (keys : list N) (k : N) : nat :=
  match keys with
  | [] => 0
  | _ =>
      let base := bs_loop (length keys) keys k 0 (length keys) in
      let e := nth base keys 0%N in
      if (e =? k)%N then base else if (e <? k)%N then S base else base
  end.

(* walk from `cur` to the leaf for key k; the path holds (internal page, child_pos),
   innermost first.  None: dangling page id or out of fuel (not a tree). *)
Fixpoint descend (fuel : nat) (ps : list page) (cur : nat) (k : N) (path : list (nat * nat))
  : option (nat * list (N * P) * option nat * list (nat * nat)) :=
  match fuel with
  | 0 => None
  | S f =>
      match nth_error ps cur with
      | None => None
      | Some (Leaf es r) => Some (cur, es, r, path)
      | Some (Internal lm cells) =>
          let pos := upper_bound cells k in
          let child := match pos with
                       | 0 => lm
                       | S p => match nth_error cells p with Some c => snd c | None => lm end
                       end in
          descend f ps child k ((cur, pos) :: path)
      end
  end.

Fixpoint insert_into_parent (ps : list page) (rt : nat) (path : list (nat * nat))
         (left_id : nat) (sep : N) (right_id : nat) : option (list page * nat) :=
  match path with
  | [] => Some (ps ++ [Internal left_id [(sep, right_id)]], length ps)
  | (pid, pos) :: rest =>
      match nth_error ps pid with
      | Some (Internal lm cells) =>
          if internal_fits cells sep
          then Some (set_nth ps pid (Internal lm (insert_at pos (sep, right_id) cells)), rt)
          else
            let keys := insert_at pos sep (map fst cells) in
            let children := insert_at (S pos) right_id (lm :: map snd cells) in
            let mid := length keys / 2 in
            let promote := nth mid keys 0%N in
            let lkeys := firstn mid keys in
            let rkeys := skipn (S mid) keys in
            let lch := firstn (S mid) children in
            let rch := skipn (S mid) children in
            let new_id := length ps in
            let lp := Internal (hd 0 lch) (combine lkeys (tl lch)) in
            let rp := Internal (hd 0 rch) (combine rkeys (tl rch)) in
            insert_into_parent (set_nth ps pid lp ++ [rp]) rt rest pid promote new_id
      | _ => None
      end
  end.

Definition tree_fuel (t : tree) : nat := S (length (pages t)).

(* BTree::insert *)
Definition insert (t : tree) (k : N) (v : P) : option tree :=
  match descend (tree_fuel t) (pages t) (root t) k [] with
  | None => None
  | Some (cur, es, r, path) =>
      if leaf_fits es k
      then Some {| pages := set_nth (pages t) cur (Leaf (insert_at (lower_bound es k) (k, v) es) r);
                   root := root t |}
      else
        let es' := insert_at (rust_binsearch (map fst es) k) (k, v) es in
        let mid := length es' / 2 in
        let l := firstn mid es' in
        let rr := skipn mid es' in
        let sep := match rr with e :: _ => fst e | [] => 0%N end in
        let right_id := length (pages t) in
        let ps := set_nth (pages t) cur (Leaf l (Some right_id)) ++ [Leaf rr r] in
        match insert_into_parent ps (root t) path cur sep right_id with
        | Some (ps', rt') => Some {| pages := ps'; root := rt' |}
        | None => None
        end
  end.

(* the sibling-chasing loop of cursor_lower_bound; result: the cell under the cursor
   (Some None = cursor not valid); None = out of fuel / dangling sibling *)
Fixpoint chase (fuel : nat) (ps : list page) (es : list (N * P)) (r : option nat) (slot : nat)
  : option (option (N * P)) :=
  match fuel with
  | 0 => None
  | S f =>
      let next := match r with
                  | None => Some None
                  | Some nx => match nth_error ps nx with
                               | Some (Leaf es' r') => chase f ps es' r' 0
                               | _ => None
                               end
                  end in
      match es with
      | [] => next
      | _ => if slot <? length es then Some (nth_error es slot) else next
      end
  end.

(* cursor_lower_bound + is_valid + key()==key test + payload(): the pattern of all
   three HNSW getters.  Some None = "not found". *)
Definition lookup (t : tree) (k : N) : option (option P) :=
  match descend (tree_fuel t) (pages t) (root t) k [] with
  | None => None
  | Some (_, es, r, _) =>
      match chase (tree_fuel t) (pages t) es r (lower_bound es k) with
      | None => None
      | Some None => Some None
      | Some (Some e) => if (fst e =? k)%N then Some (Some (snd e)) else Some None
      end
  end.

(* all cells stored in leaves (ghost view used by the proofs) *)
Definition page_cells (p : page) : list (N * P) :=
  match p with Leaf es _ => es | Internal _ _ => [] end.
Definition all_cells (t : tree) : list (N * P) := flat_map page_cells (pages t).

End Tree.

Arguments page : clear implicits.
Arguments tree : clear implicits.
