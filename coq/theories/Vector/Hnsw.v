(* Vector/Hnsw.v — MODEL of index/hnsw/logic.rs + storage.rs as driven by
   GraphEngine::{insert_vector, search_vector} and by close/reopen.
   Executable definitions only; the proofs are in Hnsw_proofs.v.

   * The level drawn by random_level is an INPUT of `insert`.
   * Vectors are lists of integers; the distance of the model is the exact squared
     Euclidean distance d2 (an N).  The code orders by OrderedFloat(sqrt(d2 as f32));
     for d2 <= 2^16 the f32 square root is strictly increasing, so (sqrt d2, id) and
     (d2, id) order the same way.  (Input restriction of the correspondence.)
   * BinaryHeap<Reverse<(dist,id)>> / BinaryHeap<(dist,id)> hold pairs that are
     pairwise different (an id enters at most once, guarded by `visited`), so a heap
     is determined by its set of elements: modelled as lists sorted by (d2,id),
     ascending for `candidates`, descending for `nearest_neighbors`.
   * The two stores are page-level B-trees with duplicate keys (PageTree.v) and the
     vector cache of PersistentVectorStorage (no eviction: fewer than
     hnsw_vector_cache_cap distinct ids). *)
From NDB Require Export Vector.PageTree.
From NDB Require Import Gen.Consts.
From Coq Require Export ZArith.
Open Scope nat_scope.

(* ---------------------------------------------------------------- results *)
Inductive res (A : Type) :=
| Ok (a : A)
| NotFound            (* Err(WalProtocol("Vector not found")) of get_vector *)
| ModelErr.           (* out of fuel / malformed page structure: never on reachable states *)
Arguments Ok {A} a.
Arguments NotFound {A}.
Arguments ModelErr {A}.

Definition bind {A B} (r : res A) (f : A -> res B) : res B :=
  match r with Ok a => f a | NotFound => NotFound | ModelErr => ModelErr end.
Notation "'let*' x ':=' r 'in' k" := (bind r (fun x => k)) (at level 200, x pattern, r at level 100, k at level 200).

Definition of_opt {A} (o : option A) : res A := match o with Some a => Ok a | None => ModelErr end.

(* ---------------------------------------------------------------- parameters *)
Record params := { p_m : nat; p_efc : nat; p_efs : nat }.
Definition default_params : params :=
  {| p_m := N.to_nat hnsw_default_m; p_efc := N.to_nat hnsw_default_ef_construction;
     p_efs := N.to_nat hnsw_default_ef_search |}.

(* ---------------------------------------------------------------- stores *)
Definition vec := list Z.

Inductive gval :=
| GN (l : list N)                       (* neighbour list *)
| GM (ep : option N) (ml : nat).        (* meta: entry point, max layer *)

(* key images (order-isomorphic to the byte keys of storage.rs):
   vector tree:  [TAG_VECTOR, id_be4]            -> id              (5 bytes)
   graph tree:   [TAG_META]                      -> 0               (1 byte)
                 [TAG_GRAPH, layer, node_be4]    -> 1 + layer*2^32 + node   (6 bytes) *)
Definition vkey (id : N) : N := id.
Definition vklen (_ : N) : N := 5%N.
Definition gkey (layer : nat) (node : N) : N := (1 + N.of_nat layer * 4294967296 + node)%N.
Definition meta_key : N := 0%N.
Definition gklen (k : N) : N := if (k =? 0)%N then 1%N else 6%N.

Record env := {
  vt : tree vec;                 (* __sys_hnsw_vec *)
  gt : tree gval;                (* __sys_hnsw_graph *)
  cache : list (N * vec)         (* VectorCache, newest binding first *)
}.

Fixpoint assoc {A} (k : N) (l : list (N * A)) : option A :=
  match l with
  | [] => None
  | (k', a) :: t => if (k' =? k)%N then Some a else assoc k t
  end.

(* PersistentVectorStorage::insert_vector *)
Definition insert_vector (e : env) (id : N) (v : vec) : res env :=
  let* t := of_opt (insert vklen (vt e) (vkey id) v) in
  Ok {| vt := t; gt := gt e; cache := (id, v) :: cache e |}.

(* PersistentVectorStorage::get_vector (fills the cache on a miss) *)
Definition get_vector (e : env) (id : N) : res (env * vec) :=
  match assoc id (cache e) with
  | Some v => Ok (e, v)
  | None =>
      let* o := of_opt (lookup (vt e) (vkey id)) in
      match o with
      | None => NotFound
      | Some v => Ok ({| vt := vt e; gt := gt e; cache := (id, v) :: cache e |}, v)
      end
  end.

Definition set_graph (e : env) (k : N) (g : gval) : res env :=
  let* t := of_opt (insert gklen (gt e) k g) in
  Ok {| vt := vt e; gt := t; cache := cache e |}.

Definition set_neighbors (e : env) (layer : nat) (node : N) (l : list N) : res env :=
  set_graph e (gkey layer node) (GN l).

Definition get_neighbors (e : env) (layer : nat) (node : N) : res (list N) :=
  let* o := of_opt (lookup (gt e) (gkey layer node)) in
  match o with
  | Some (GN l) => Ok l
  | _ => Ok []
  end.

Definition set_meta (e : env) (ep : option N) (ml : nat) : res env :=
  set_graph e meta_key (GM ep ml).

Definition get_meta (e : env) : res (option N * nat) :=
  let* o := of_opt (lookup (gt e) meta_key) in
  match o with
  | Some (GM ep ml) => Ok (ep, ml)
  | _ => Ok (None, 0)
  end.

(* ---------------------------------------------------------------- distance, heaps *)
Fixpoint dist2z (a b : vec) : Z :=
  match a, b with
  | x :: a', y :: b' => ((x - y) * (x - y) + dist2z a' b')%Z     (* zip: stops at the shorter *)
  | _, _ => 0%Z
  end.
Definition dist2 (a b : vec) : N := Z.to_N (dist2z a b).

Definition di := (N * N)%type.      (* (d2, id) *)
Definition di_ltb (a b : di) : bool :=
  ((fst a <? fst b) || ((fst a =? fst b) && (snd a <? snd b)))%N.

(* insertion into a list ascending by (d2,id) *)
Fixpoint ins_asc (x : di) (l : list di) : list di :=
  match l with
  | [] => [x]
  | y :: t => if di_ltb y x then y :: ins_asc x t else x :: l
  end.
(* insertion into a list descending by (d2,id) *)
Fixpoint ins_desc (x : di) (l : list di) : list di :=
  match l with
  | [] => [x]
  | y :: t => if di_ltb x y then y :: ins_desc x t else x :: l
  end.

Definition memN (x : N) (l : list N) : bool := existsb (N.eqb x) l.

(* ---------------------------------------------------------------- search_layer *)
Record sl := {
  s_env : env;
  visited : list N;
  cand : list di;      (* ascending: head = BinaryHeap<Reverse<..>>::pop *)
  nn : list di         (* descending: head = BinaryHeap::peek (the farthest) *)
}.

(* the first loop: for &ep in entry_points *)
Fixpoint sl_init (q : vec) (eps : list N) (s : sl) : res sl :=
  match eps with
  | [] => Ok s
  | ep :: t =>
      if memN ep (visited s) then sl_init q t s
      else
        let* (e', v) := get_vector (s_env s) ep in
        let d := dist2 q v in
        sl_init q t {| s_env := e'; visited := ep :: visited s;
                       cand := ins_asc (d, ep) (cand s); nn := ins_desc (d, ep) (nn s) |}
  end.

(* for &n in &neighbors *)
Fixpoint sl_visit (q : vec) (ef : nat) (nbrs : list N) (s : sl) : res sl :=
  match nbrs with
  | [] => Ok s
  | n :: t =>
      if memN n (visited s) then sl_visit q ef t s
      else
        let* (e', v) := get_vector (s_env s) n in
        let d := dist2 q v in
        let vis := n :: visited s in
        let far := match nn s with x :: _ => fst x | [] => 0%N end in
        if (length (nn s) <? ef) || (d <? far)%N
        then
          let nn1 := ins_desc (d, n) (nn s) in
          let nn2 := if ef <? length nn1 then tl nn1 else nn1 in
          sl_visit q ef t {| s_env := e'; visited := vis; cand := ins_asc (d, n) (cand s); nn := nn2 |}
        else sl_visit q ef t {| s_env := e'; visited := vis; cand := cand s; nn := nn s |}
  end.

(* while let Some(Reverse((d_c, c))) = candidates.pop() *)
Fixpoint sl_loop (fuel : nat) (q : vec) (ef layer : nat) (s : sl) : res sl :=
  match fuel with
  | 0 => ModelErr
  | S f =>
      match cand s with
      | [] => Ok s
      | (dc, c) :: rest =>
          let far := match nn s with x :: _ => fst x | [] => 0%N end in
          if (far <? dc)%N && (ef <=? length (nn s)) then Ok s
          else
            let* nbrs := get_neighbors (s_env s) layer c in
            let* s' := sl_visit q ef nbrs {| s_env := s_env s; visited := visited s; cand := rest; nn := nn s |} in
            sl_loop f q ef layer s'
      end
  end.

(* result: the elements of nearest_neighbors, ascending by (d2,id) (the returned
   BinaryHeap<Reverse<..>> pops in this order) *)
Definition search_layer (fuel : nat) (e : env) (q : vec) (eps : list N) (ef layer : nat)
  : res (env * list di) :=
  let* s0 := sl_init q eps {| s_env := e; visited := []; cand := []; nn := [] |} in
  let* s := sl_loop fuel q ef layer s0 in
  Ok (s_env s, rev (nn s)).

(* ---------------------------------------------------------------- greedy descent *)
(* for &n in &neighbors { if dist_n < curr_dist { curr = n; changed = true } } *)
Fixpoint greedy_scan (e : env) (q : vec) (nbrs : list N) (cur : N) (cd : N) (changed : bool)
  : res (env * N * N * bool) :=
  match nbrs with
  | [] => Ok (e, cur, cd, changed)
  | n :: t =>
      let* (e', v) := get_vector e n in
      let d := dist2 q v in
      if (d <? cd)%N then greedy_scan e' q t n d true else greedy_scan e' q t cur cd changed
  end.

(* while changed { ... } on one layer *)
Fixpoint greedy_layer (fuel : nat) (e : env) (q : vec) (layer : nat) (cur cd : N) : res (env * N * N) :=
  match fuel with
  | 0 => ModelErr
  | S f =>
      let* nbrs := get_neighbors e layer cur in
      let* (e', cur', cd', changed) := greedy_scan e q nbrs cur cd false in
      if changed then greedy_layer f e' q layer cur' cd' else Ok (e', cur', cd')
  end.

(* for l in (lo..=hi).rev(): `layers` is that sequence, highest first *)
Fixpoint greedy_down (fuel : nat) (e : env) (q : vec) (layers : list nat) (cur cd : N) : res (env * N * N) :=
  match layers with
  | [] => Ok (e, cur, cd)
  | l :: t =>
      let* (e', cur', cd') := greedy_layer fuel e q l cur cd in
      greedy_down fuel e' q t cur' cd'
  end.

(* (lo..=hi).rev() *)
Definition layers_down (lo hi : nat) : list nat := rev (seq lo (S hi - lo)).

(* ---------------------------------------------------------------- the index *)
Record index := {
  i_env : env;
  i_ep : option N;
  i_maxl : nat;
  i_n : nat              (* ghost: number of insert calls so far (only bounds the fuel) *)
}.

Definition empty_index : index :=
  {| i_env := {| vt := empty_tree; gt := empty_tree; cache := [] |}; i_ep := None; i_maxl := 0; i_n := 0 |}.

Definition fuel_of (ix : index) : nat := S (S (i_n ix)).

(* select_neighbors: pop until m taken (at least one pop is kept even for m = 0) *)
Definition select_neighbors (found : list di) (m : nat) : list N :=
  map snd (firstn (Nat.max m 1) found).

(* Add back-links *)
Fixpoint backlinks (pr : params) (e : env) (layer : nat) (id : N) (nbrs : list N) : res env :=
  match nbrs with
  | [] => Ok e
  | n :: t =>
      let* l := get_neighbors e layer n in
      if memN id l then backlinks pr e layer id t
      else
        let l1 := l ++ [id] in
        let l2 := if N.to_nat hnsw_trunc_factor * p_m pr <? length l1 then firstn (p_m pr) l1 else l1 in
        let* e' := set_neighbors e layer n l2 in
        backlinks pr e' layer id t
  end.

(* step 4: for l in (0..=level).rev() *)
Fixpoint connect (pr : params) (fuel : nat) (e : env) (id : N) (v : vec) (layers : list nat) (eps : list N) : res env :=
  match layers with
  | [] => Ok e
  | l :: t =>
      let* (e1, found) := search_layer fuel e v eps (p_efc pr) l in
      let nbrs := select_neighbors found (p_m pr) in
      let* e2 := set_neighbors e1 l id nbrs in
      let* e3 := backlinks pr e2 l id nbrs in
      connect pr fuel e3 id v t (map snd found)
  end.

Fixpoint init_layers (e : env) (id : N) (layers : list nat) : res env :=
  match layers with
  | [] => Ok e
  | l :: t => let* e' := set_neighbors e l id [] in init_layers e' id t
  end.

(* HnswIndex::insert with the drawn level as input *)
Definition insert (pr : params) (ix : index) (id : N) (v : vec) (level : nat) : res index :=
  let n' := S (i_n ix) in
  let fuel := S (S n') in
  let* e0 := insert_vector (i_env ix) id v in
  match i_ep ix with
  | None =>
      let* e1 := init_layers e0 id (seq 0 (S level)) in
      let* e2 := set_meta e1 (Some id) level in
      Ok {| i_env := e2; i_ep := Some id; i_maxl := level; i_n := n' |}
  | Some entry =>
      let* (e1, v0) := get_vector e0 entry in
      let* (e2, cur, _) := greedy_down fuel e1 v (layers_down (S level) (i_maxl ix)) entry (dist2 v v0) in
      let* e3 := connect pr fuel e2 id v (layers_down 0 level) [cur] in
      let '(ep', ml') := if i_maxl ix <? level then (Some id, level) else (i_ep ix, i_maxl ix) in
      let* e4 := set_meta e3 ep' ml' in
      Ok {| i_env := e4; i_ep := ep'; i_maxl := ml'; i_n := n' |}
  end.

(* HnswIndex::search without the cut at k: all candidates of the base-layer search as
   (id, d2) pairs, nearest first.  The environment changes only in its cache. *)
Definition search_all (pr : params) (ix : index) (q : vec) : res (index * list (N * N)) :=
  match i_ep ix with
  | None => Ok (ix, [])
  | Some entry =>
      let fuel := fuel_of ix in
      let* (e1, v0) := get_vector (i_env ix) entry in
      let* (e2, cur, _) := greedy_down fuel e1 q (layers_down 1 (i_maxl ix)) entry (dist2 q v0) in
      let* (e3, found) := search_layer fuel e2 q [cur] (p_efs pr) 0 in
      Ok ({| i_env := e3; i_ep := i_ep ix; i_maxl := i_maxl ix; i_n := i_n ix |},
          map (fun x : di => (snd x, fst x)) found)
  end.

(* HnswIndex::search: (id, d2) pairs.  The environment changes only in its cache. *)
Definition search (pr : params) (ix : index) (q : vec) (k : nat) : res (index * list (N * N)) :=
  match i_ep ix with
  | None => Ok (ix, [])
  | Some entry =>
      let fuel := fuel_of ix in
      let* (e1, v0) := get_vector (i_env ix) entry in
      let* (e2, cur, _) := greedy_down fuel e1 q (layers_down 1 (i_maxl ix)) entry (dist2 q v0) in
      let* (e3, found) := search_layer fuel e2 q [cur] (p_efs pr) 0 in
      Ok ({| i_env := e3; i_ep := i_ep ix; i_maxl := i_maxl ix; i_n := i_n ix |},
          map (fun x : di => (snd x, fst x)) (firstn k found))
  end.

(* GraphEngine::search_vector: nothing for k = 0; otherwise all candidates of the index search
   (HnswIndex::search with k = usize::MAX), the deleted nodes `del` left out, the first k. *)
Definition live_of (del : list N) (r : list (N * N)) : list (N * N) :=
  filter (fun x => negb (memN (fst x) del)) r.
Definition search_vector (pr : params) (ix : index) (del : list N) (q : vec) (k : nat)
  : res (index * list (N * N)) :=
  if k =? 0 then Ok (ix, [])
  else let* (ix', r) := search_all pr ix q in Ok (ix', firstn k (live_of del r)).

(* close + GraphEngine::open: the catalog holds the current roots of both trees
   (persisted by insert_vector), the cache starts empty, entry point and max layer
   come from the meta record *)
Definition reopen (ix : index) : res index :=
  let e := {| vt := vt (i_env ix); gt := gt (i_env ix); cache := [] |} in
  let* (ep, ml) := get_meta e in
  Ok {| i_env := e; i_ep := ep; i_maxl := ml; i_n := i_n ix |}.

(* ---------------------------------------------------------------- histories *)
Inductive op :=
| OInsert (id : N) (v : vec) (level : nat)    (* set_vector(id, v); random_level drew `level` *)
| ODelete (id : N)                            (* the node is deleted (graph side only) *)
| OReopen.

Definition step (pr : params) (ix : index) (o : op) : res index :=
  match o with
  | OInsert id v level => insert pr ix id v level
  | ODelete _ => Ok ix
  | OReopen => reopen ix
  end.

Fixpoint run (pr : params) (ix : index) (ops : list op) : res index :=
  match ops with
  | [] => Ok ix
  | o :: t => let* ix' := step pr ix o in run pr ix' t
  end.

(* ---------------------------------------------------------------- spec side *)
(* the vector last inserted for each id, most recent first, one binding per id *)
Fixpoint stored (ops : list op) (acc : list (N * vec)) : list (N * vec) :=
  match ops with
  | [] => acc
  | OInsert id v _ :: t => stored t ((id, v) :: filter (fun b => negb (fst b =? id)%N) acc)
  | _ :: t => stored t acc
  end.

Fixpoint sort_di (l : list di) : list di :=
  match l with [] => [] | x :: t => ins_asc x (sort_di t) end.

(* the k nearest by (d2, id) among the stored vectors *)
Definition brute_force (st : list (N * vec)) (q : vec) (k : nat) : list (N * N) :=
  map (fun x : di => (snd x, fst x)) (firstn k (sort_di (map (fun b => (dist2 q (snd b), fst b)) st))).

(* ---------------------------------------------------------------- executable check of a state
   (hypothesis of the exactness theorem Hnsw_exact.small_exact_checked; evaluated on the
   reached states by the correspondence): every id of S has its vector in the cache, all
   neighbour lists on layers 0..max stay inside S, the entry point is in S, S fits into
   ef_search, and on layer 0 every id of S is reachable from every id of S. *)
Definition nbrs_of (e : env) (l : nat) (i : N) : list N :=
  match get_neighbors e l i with Ok x => x | _ => [] end.
Definition vec_of (e : env) (i : N) : vec :=
  match assoc i (cache e) with Some v => v | None => [] end.

Definition inclb (a b : list N) : bool := forallb (fun x => memN x b) a.
Fixpoint nodupN (l : list N) : bool :=
  match l with [] => true | x :: t => negb (memN x t) && nodupN t end.

Definition add_new (acc : list N) (j : N) : list N := if memN j acc then acc else acc ++ [j].
(* one breadth-first round on layer 0 *)
Definition expand (e : env) (R : list N) : list N :=
  fold_left add_new (flat_map (nbrs_of e 0) R) R.
Fixpoint reach (e : env) (n : nat) (R : list N) : list N :=
  match n with 0 => R | S k => reach e k (expand e R) end.

Definition small_check (pr : params) (ix : index) (ids : list N) : bool :=
  let e := i_env ix in
  nodupN ids && (length ids <=? p_efs pr) &&
  match i_ep ix with Some entry => memN entry ids | None => false end &&
  forallb (fun i => match assoc i (cache e) with Some _ => true | None => false end) ids &&
  forallb (fun l => forallb (fun i => match get_neighbors e l i with Ok ns => inclb ns ids | _ => false end) ids)
          (seq 0 (S (i_maxl ix))) &&
  forallb (fun s0 => inclb ids (reach e (length ids) [s0])) ids.


(* ---------------------------------------------------------------- executable check before a reopen
   (hypothesis of Hnsw_reopen.reopen_same_checked; evaluated by the correspondence at every
   reopen): the meta record read back equals the in-memory entry point / max layer, and for
   every cached id the vector tree returns the cached vector. *)
Fixpoint vec_eqb (a b : vec) : bool :=
  match a, b with
  | [], [] => true
  | x :: a', y :: b' => (x =? y)%Z && vec_eqb a' b'
  | _, _ => false
  end.

(* the vector get_vector would return for id *)
Definition value_of (e : env) (id : N) : res vec :=
  match assoc id (cache e) with
  | Some v => Ok v
  | None => match lookup (vt e) (vkey id) with
            | None => ModelErr
            | Some None => NotFound
            | Some (Some v) => Ok v
            end
  end.

Definition opt_N_eqb (a b : option N) : bool :=
  match a, b with Some x, Some y => (x =? y)%N | None, None => true | _, _ => false end.

Definition reopen_check (ix : index) : bool :=
  let e := i_env ix in
  match get_meta e with
  | Ok (ep, ml) => opt_N_eqb ep (i_ep ix) && (ml =? i_maxl ix)
  | _ => false
  end &&
  forallb (fun b => match assoc (fst b) (cache e), lookup (vt e) (vkey (fst b)) with
                    | Some v, Some (Some v') => vec_eqb v v'
                    | _, _ => false
                    end) (cache e).
