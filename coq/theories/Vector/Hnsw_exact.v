(* Vector/Hnsw_exact.v — PROOFS: exhaustiveness of search_layer on a connected layer and
   exactness of `search` on small indexes, under an executable check of the state. *)
From Coq Require Import Lia ZifyBool ZifyN ZifyNat Sorted Permutation.
From NDB Require Import Vector.PageTree Vector.Hnsw Vector.Hnsw_proofs.
Open Scope nat_scope.

(* ------------------------------------------------------------ exactness on small indexes (partial) *)
(* strict order on (d2,id) *)
Definition ltd (a b : di) : Prop := di_ltb a b = true.

Lemma ltd_irrefl : forall a, ~ ltd a a.
Proof. intros [a1 a2]; unfold ltd, di_ltb; cbn. lia. Qed.
Lemma ltd_trans : forall a b c, ltd a b -> ltd b c -> ltd a c.
Proof. intros [a1 a2] [b1 b2] [c1 c2]; unfold ltd, di_ltb; cbn. lia. Qed.
Lemma ltd_total : forall a b, di_ltb a b = false -> a = b \/ ltd b a.
Proof.
  intros [a1 a2] [b1 b2]; unfold ltd, di_ltb; cbn. intro H.
  destruct (N.eq_dec a1 b1), (N.eq_dec a2 b2); subst; auto; right; lia.
Qed.

Lemma sorted_rev : forall {A} (R : A -> A -> Prop) l,
  StronglySorted R l -> StronglySorted (fun a b => R b a) (rev l).
Proof.
  intros A R. induction l as [|h t IH]; intros S; cbn; [constructor|].
  inversion S as [|? ? S' F]; subst. specialize (IH S').
  assert (G : forall a b, StronglySorted (fun x y => R y x) a -> Forall (fun y => R b y) a ->
                          StronglySorted (fun x y => R y x) (a ++ [b])).
  { induction a as [|x a IHa]; intros b Sa Fa; cbn.
    - constructor; constructor.
    - inversion Sa; subst. inversion Fa; subst. constructor; auto.
      apply Forall_app. split; auto. }
  apply G; auto. rewrite Forall_forall in *. intros y Hy. apply in_rev in Hy. auto.
Qed.

Lemma ins_desc_strict : forall x l,
  ~ In x l -> StronglySorted (fun a b => ltd b a) l -> StronglySorted (fun a b => ltd b a) (ins_desc x l).
Proof.
  induction l as [|h t IH]; intros Hn S; cbn.
  - constructor; constructor.
  - inversion S as [|? ? S' F]; subst. destruct (di_ltb x h) eqn:E.
    + constructor; [apply IH; auto; intro; apply Hn; right; auto|].
      rewrite Forall_forall in *. intros y Hy. apply in_ins_desc in Hy. destruct Hy as [->|Hy]; auto.
    + apply ltd_total in E. destruct E as [E|E]; [exfalso; apply Hn; left; auto|].
      constructor; auto. constructor; auto.
      rewrite Forall_forall in *. intros y Hy. eapply ltd_trans; [apply F; exact Hy|exact E].
Qed.

Lemma ins_asc_strict : forall x l,
  ~ In x l -> StronglySorted ltd l -> StronglySorted ltd (ins_asc x l).
Proof.
  induction l as [|h t IH]; intros Hn S; cbn.
  - constructor; constructor.
  - inversion S as [|? ? S' F]; subst. destruct (di_ltb h x) eqn:E.
    + constructor; [apply IH; auto; intro; apply Hn; right; auto|].
      rewrite Forall_forall in *. intros y Hy. apply in_ins_asc in Hy. destruct Hy as [->|Hy]; auto.
    + apply ltd_total in E. destruct E as [E|E]; [exfalso; apply Hn; left; auto|].
      constructor; auto. constructor; auto.
      rewrite Forall_forall in *. intros y Hy. eapply ltd_trans; [exact E|apply F; exact Hy].
Qed.

Lemma in_sort_di : forall l x, In x (sort_di l) <-> In x l.
Proof.
  induction l as [|h t IH]; intros x; cbn; [tauto|]. rewrite in_ins_asc, IH. split; intros [H|H]; auto.
Qed.
Lemma sort_di_strict : forall l, NoDup l -> StronglySorted ltd (sort_di l).
Proof.
  induction l as [|h t IH]; intros Hd; cbn; [constructor|]. inversion Hd; subst.
  apply ins_asc_strict; auto. rewrite in_sort_di. auto.
Qed.

Lemma strict_sorted_unique : forall l1 l2 : list di,
  StronglySorted ltd l1 -> StronglySorted ltd l2 -> (forall x, In x l1 <-> In x l2) -> l1 = l2.
Proof.
  induction l1 as [|h1 t1 IH]; intros l2 S1 S2 E.
  - destruct l2 as [|h2 t2]; auto. exfalso. apply (E h2). left; auto.
  - destruct l2 as [|h2 t2]; [exfalso; apply (E h1); left; auto|].
    inversion S1 as [|? ? S1' F1]; subst. inversion S2 as [|? ? S2' F2]; subst.
    rewrite Forall_forall in F1, F2.
    assert (h1 = h2).
    { destruct (proj1 (E h1) (or_introl eq_refl)) as [Hh|Hh]; auto.
      destruct (proj2 (E h2) (or_introl eq_refl)) as [Hk|Hk]; auto.
      exfalso. apply (ltd_irrefl h1). eapply ltd_trans; [apply F1; exact Hk|apply F2; exact Hh]. }
    subst h2. f_equal. apply IH; auto. intros x. split; intro Hx.
    + destruct (proj1 (E x) (or_intror Hx)) as [Hh|Hh]; auto. subst x. exfalso. apply (ltd_irrefl h1). auto.
    + destruct (proj2 (E x) (or_intror Hx)) as [Hh|Hh]; auto. subst x. exfalso. apply (ltd_irrefl h1). auto.
Qed.

Lemma memN_true : forall x l, memN x l = true -> In x l.
Proof.
  intros x l H. unfold memN in H. apply existsb_exists in H. destruct H as [y [Hy E]].
  apply N.eqb_eq in E. subst. exact Hy.
Qed.

Section Complete.
Variable e : env.
Variable q : vec.
Variable S : list N.               (* the ids in the index *)
Variable V : N -> vec.             (* their vectors *)
Variable G : nat -> N -> list N.   (* neighbour lists per layer *)
Variable ef : nat.

Hypothesis HV : forall i, In i S -> assoc i (cache e) = Some (V i).
Variable Lay : nat -> Prop.          (* the layers that are looked at *)
Hypothesis HG : forall l i, Lay l -> In i S -> get_neighbors e l i = Ok (G l i).
Hypothesis Hclosed : forall l i j, Lay l -> In i S -> In j (G l i) -> In j S.
Hypothesis HS : NoDup S.
Hypothesis Hef : length S <= ef.

Definition D (i : N) : di := (dist2 q (V i), i).

Lemma gv : forall i, In i S -> get_vector e i = Ok (e, V i).
Proof. intros i Hi. unfold get_vector. rewrite (HV i Hi). reflexivity. Qed.

Lemma D_inj : forall i j, D i = D j -> i = j.
Proof. intros i j H. unfold D in H. inversion H; auto. Qed.

(* invariant of the search_layer loops *)
Definition cinv (s : sl) : Prop :=
  s_env s = e /\ NoDup (visited s) /\ incl (visited s) S /\
  (forall x, In x (nn s) <-> exists i, In i (visited s) /\ x = D i) /\
  StronglySorted (fun a b => ltd b a) (nn s) /\
  length (nn s) = length (visited s) /\
  (forall x, In x (cand s) -> exists i, In i (visited s) /\ x = D i).

Lemma visited_lt : forall s n, cinv s -> In n S -> ~ In n (visited s) -> length (visited s) < length S.
Proof.
  intros s n [_ [Hd [Hi _]]] Hn Hnv.
  assert (H : length (n :: visited s) <= length S).
  { apply NoDup_incl_length; [constructor; auto|]. intros x [<-|Hx]; auto. }
  cbn in H. lia.
Qed.

Lemma cinv_add : forall s n, cinv s -> In n S -> ~ In n (visited s) ->
  cinv {| s_env := e; visited := n :: visited s; cand := ins_asc (D n) (cand s); nn := ins_desc (D n) (nn s) |}.
Proof.
  intros s n I Hn Hnv. pose proof I as [He [Hd [Hi [Hnn [Hs [Hl Hc]]]]]].
  assert (HnotD : ~ In (D n) (nn s)).
  { intro H. apply Hnn in H. destruct H as [i [Hi' E]]. apply D_inj in E. subst. auto. }
  split; [reflexivity|]. cbn. split; [constructor; auto|]. split; [intros x [<-|Hx]; auto|].
  split; [|split; [|split]].
  - intros x. rewrite in_ins_desc, Hnn. split.
    + intros [->|[i [Hi' E]]]; [exists n; auto|exists i; auto].
    + intros [i [[<-|Hi'] E]]; [left; auto|right; exists i; auto].
  - apply ins_desc_strict; auto.
  - assert (L : forall x l, length (ins_desc x l) = Datatypes.S (length l)).
    { induction l as [|h t IHl]; cbn; auto. destruct (di_ltb x h); cbn; auto. }
    rewrite L, Hl. reflexivity.
  - intros x Hx. apply in_ins_asc in Hx. destruct Hx as [->|Hx]; [exists n; auto|].
    destruct (Hc x Hx) as [i [Hi' E]]. exists i; auto.
Qed.

(* sl_visit: every neighbour ends up visited; what was visited / queued stays so; the newly
   visited ones are queued *)
Lemma sl_visit_complete : forall nbrs s s',
  cinv s -> incl nbrs S -> sl_visit q ef nbrs s = Ok s' ->
  cinv s' /\ incl nbrs (visited s') /\ incl (visited s) (visited s') /\ incl (cand s) (cand s') /\
  (forall i, In i (visited s') -> In i (visited s) \/ In (D i) (cand s')).
Proof.
  induction nbrs as [|n t IH]; intros s s' I Hin H; cbn [sl_visit] in H.
  - inversion H; subst. split; [exact I|]. split; [intros x []|]. split; [apply incl_refl|]. split; [apply incl_refl|].
    intros i Hi; left; exact Hi.
  - assert (Hn : In n S) by (apply Hin; left; auto).
    assert (Ht : incl t S) by (intros x Hx; apply Hin; right; auto).
    destruct (memN n (visited s)) eqn:M.
    + destruct (IH _ _ I Ht H) as [I' [A [B [C E]]]]. split; [exact I'|]. split; [|split; [exact B|split; [exact C|exact E]]].
      intros x [<-|Hx]; auto. apply B. apply memN_true. exact M.
    + apply memN_false in M. pose proof I as [He _]. rewrite He, (gv n Hn) in H. cbn [bind] in H.
      pose proof (visited_lt s n I Hn M) as Hlt.
      assert (Hl : length (nn s) = length (visited s)) by (destruct I as [_ [_ [_ [_ [_ [Hl _]]]]]]; exact Hl).
      assert (C1 : (length (nn s) <? ef) = true) by (apply Nat.ltb_lt; lia).
      rewrite C1 in H. cbn [orb] in H.
      assert (L : forall x l, length (ins_desc x l) = Datatypes.S (length l)).
      { induction l as [|h tl IHl]; cbn; auto. destruct (di_ltb x h); cbn; auto. }
      assert (C2 : (ef <? length (ins_desc (dist2 q (V n), n) (nn s))) = false) by (apply Nat.ltb_ge; rewrite L; lia).
      rewrite C2 in H.
      pose proof (cinv_add s n I Hn M) as I1. unfold D in I1 at 1 2.
      destruct (IH _ _ I1 Ht H) as [I' [A [B [C E]]]]. cbn in B, C.
      split; [exact I'|]. split; [|split; [|split]].
      * intros x [<-|Hx]; auto. apply B. left; auto.
      * intros x Hx. apply B. right; auto.
      * intros x Hx. apply C. apply in_ins_asc. right; auto.
      * intros i Hi. destruct (E i Hi) as [[<-|Hv]|Hc]; auto.
        right. apply C. apply in_ins_asc. left. reflexivity.
Qed.

Lemma greedy_scan_same : forall nbrs cur cd ch e' cur' cd' ch',
  incl nbrs S -> In cur S ->
  greedy_scan e q nbrs cur cd ch = Ok (e', cur', cd', ch') -> e' = e /\ In cur' S.
Proof.
  induction nbrs as [|n t IH]; intros cur cd ch e' cur' cd' ch' Hin Hc H; cbn [greedy_scan] in H.
  - inversion H; subst. auto.
  - assert (Hn : In n S) by (apply Hin; left; auto).
    assert (Ht : incl t S) by (intros x Hx; apply Hin; right; auto).
    rewrite (gv n Hn) in H. cbn [bind] in H.
    destruct (dist2 q (V n) <? cd)%N.
    + eapply IH; [exact Ht|exact Hn|exact H].
    + eapply IH; [exact Ht|exact Hc|exact H].
Qed.

Lemma greedy_layer_same : forall fuel l cur cd e' cur' cd',
  Lay l -> In cur S ->
  greedy_layer fuel e q l cur cd = Ok (e', cur', cd') -> e' = e /\ In cur' S.
Proof.
  induction fuel as [|f IH]; intros l cur cd e' cur' cd' Hl Hc H; cbn [greedy_layer] in H; [discriminate|].
  rewrite (HG l cur Hl Hc) in H. cbn [bind] in H.
  match type of H with bind ?r _ = _ => destruct r as [[[[e1 c1] d1] ch]| |] eqn:E1; cbn [bind] in H; try discriminate end.
  apply greedy_scan_same in E1; auto; [|intros j Hj; eapply Hclosed; eauto].
  destruct E1 as [-> Hc1]. destruct ch.
  - eapply IH; eauto.
  - inversion H; subst. auto.
Qed.

Lemma greedy_down_same : forall fuel layers cur cd e' cur' cd',
  (forall l, In l layers -> Lay l) -> In cur S ->
  greedy_down fuel e q layers cur cd = Ok (e', cur', cd') -> e' = e /\ In cur' S.
Proof.
  induction layers as [|l t IH]; intros cur cd e' cur' cd' Hl Hc H; cbn [greedy_down] in H.
  - inversion H; subst. auto.
  - match type of H with bind ?r _ = _ => destruct r as [[[e1 c1] d1]| |] eqn:E1; cbn [bind] in H; try discriminate end.
    apply greedy_layer_same in E1; auto; [|apply Hl; left; auto]. destruct E1 as [-> Hc1].
    eapply IH; eauto. intros l' Hl'. apply Hl. right; auto.
Qed.

Variable layer : nat.
Hypothesis HL : Lay layer.

Definition frontier (s : sl) : Prop :=
  forall i, In i (visited s) -> In (D i) (cand s) \/ incl (G layer i) (visited s).

Lemma sl_loop_complete : forall fuel s s',
  cinv s -> frontier s -> sl_loop fuel q ef layer s = Ok s' ->
  cinv s' /\ incl (visited s) (visited s') /\
  ((forall i, In i (visited s') -> incl (G layer i) (visited s')) \/ incl S (visited s')).
Proof.
  induction fuel as [|f IH]; intros s s' I F H; cbn [sl_loop] in H; [discriminate|].
  destruct (cand s) as [|[dc c] rest] eqn:Ec.
  - inversion H; subst. split; [exact I|]. split; [apply incl_refl|]. left.
    intros i Hi. destruct (F i Hi) as [Hc|Hc]; auto. rewrite Ec in Hc. destruct Hc.
  - match type of H with (if ?c then _ else _) = _ => destruct c eqn:Eb end.
    + inversion H; subst. split; [exact I|]. split; [apply incl_refl|]. right.
      apply andb_true_iff in Eb. destruct Eb as [_ Eb]. apply Nat.leb_le in Eb.
      destruct I as [_ [Hd [Hi [_ [_ [Hl _]]]]]].
      apply NoDup_length_incl; auto. lia.
    + pose proof I as [He [Hd [Hi [Hnn [Hs [Hl Hc]]]]]].
      destruct (Hc (dc, c)) as [i [Hiv Ei]]; [rewrite Ec; left; auto|].
      assert (c = i) by (unfold D in Ei; inversion Ei; auto). subst i.
      assert (HcS : In c S) by (apply Hi; auto).
      rewrite He, (HG layer c HL HcS) in H. cbn [bind] in H.
      match type of H with bind ?r _ = _ => destruct r as [s1| |] eqn:E1; cbn [bind] in H; try discriminate end.
      assert (Ipop : cinv {| s_env := e; visited := visited s; cand := rest; nn := nn s |}).
      { split; [reflexivity|]. cbn. repeat (split; auto). intros x Hx. apply Hc. rewrite Ec. right; auto. }
      destruct (sl_visit_complete _ _ _ Ipop (fun j Hj => Hclosed layer c j HL HcS Hj) E1) as [I1 [A [B [C E]]]].
      cbn in B, C.
      assert (F1 : frontier s1).
      { intros i Hi1. destruct (E i Hi1) as [Hv|Hq]; auto. cbn in Hv.
        destruct (F i Hv) as [Hq|Hq].
        - rewrite Ec in Hq. destruct Hq as [Hq|Hq].
          + rewrite Ei in Hq. apply D_inj in Hq. subst i. right. exact A.
          + left. apply C. exact Hq.
        - right. intros j Hj. apply B. apply Hq. exact Hj. }
      destruct (IH _ _ I1 F1 H) as [I' [B' R]]. split; [exact I'|]. split; [|exact R].
      intros x Hx. apply B'. apply B. exact Hx.
Qed.

Variable ep : N.
Hypothesis Hep : In ep S.
Hypothesis Hconn : forall T : N -> Prop, T ep ->
  (forall i j, In i S -> T i -> In j (G layer i) -> T j) -> forall i, In i S -> T i.


Theorem search_layer_complete : forall fuel e' found,
  search_layer fuel e q [ep] ef layer = Ok (e', found) ->
  e' = e /\ found = sort_di (map D S).
Proof.
  intros fuel e' found H. unfold search_layer in H. cbn [sl_init] in H.
  cbn [memN existsb visited s_env] in H. rewrite (gv ep Hep) in H. cbn [bind] in H.
  match type of H with bind ?r _ = _ => destruct r as [s1| |] eqn:E1; cbn [bind] in H; try discriminate end.
  inversion H; subst; clear H.
  assert (I00 : cinv {| s_env := e; visited := []; cand := []; nn := [] |}).
  { split; [reflexivity|]. cbn. split; [constructor|]. split; [intros x []|]. split.
    - intros x. split; [intros []|intros [i [[] _]]].
    - split; [constructor|]. split; [reflexivity|]. intros x []. }
  pose proof (cinv_add _ ep I00 Hep (fun h => h)) as I0. cbn in I0.
  assert (F0 : frontier {| s_env := e; visited := [ep]; cand := [D ep]; nn := [D ep] |}).
  { intros i [<-|[]]. left. left. reflexivity. }
  unfold D in I0 at 1 2. unfold D in F0 at 1 2.
  destruct (sl_loop_complete _ _ _ I0 F0 E1) as [I1 [B R]]. cbn in B.
  pose proof I1 as [He [Hd [Hi [Hnn [Hs [Hl Hc]]]]]].
  split; [exact He|].
  assert (Hall : incl S (visited s1)).
  { destruct R as [R|R]; auto. intros i HiS.
    apply (Hconn (fun i => In i (visited s1))); auto.
    - apply B. left; auto.
    - intros a b Ha Hva Hb. apply (R a Hva). exact Hb. }
  apply strict_sorted_unique.
  - apply (sorted_rev (fun a b => ltd b a)). exact Hs.
  - apply sort_di_strict.
    assert (ND : forall l, NoDup l -> NoDup (map D l)).
    { induction l as [|h t IHl]; intro Hn; cbn; [constructor|]. inversion Hn; subst. constructor; auto.
      intro Hin. apply in_map_iff in Hin. destruct Hin as [y [Ey Hy]]. apply D_inj in Ey. subst. auto. }
    apply ND. exact HS.
  - intros x. rewrite <- in_rev, in_sort_di, Hnn, in_map_iff. split.
    + intros [i [Hv E]]. exists i. split; auto.
    + intros [i [E Hv]]. exists i. split; auto.
Qed.
End Complete.

(* ------------------------------------------------------------ the executable check `small_check` (Hnsw.v) is sound *)
Lemma inclb_incl : forall a b, inclb a b = true -> incl a b.
Proof.
  intros a b H x Hx. unfold inclb in H. rewrite forallb_forall in H. apply memN_true. apply H. exact Hx.
Qed.
Lemma nodupN_NoDup : forall l, nodupN l = true -> NoDup l.
Proof.
  induction l as [|x t IH]; intro H; [constructor|]. cbn in H. apply andb_true_iff in H. destruct H as [A B].
  constructor; auto. apply memN_false. destruct (memN x t); [discriminate|reflexivity].
Qed.

Lemma fold_add_new_T : forall (T : N -> Prop) js acc,
  (forall x, In x acc -> T x) -> (forall x, In x js -> T x) ->
  forall x, In x (fold_left add_new js acc) -> T x.
Proof.
  induction js as [|j t IH]; intros acc Ha Hj x Hx; cbn in Hx; auto.
  eapply IH; [| |exact Hx].
  - intros y Hy. unfold add_new in Hy. destruct (memN j acc); auto.
    apply in_app_iff in Hy. destruct Hy as [Hy|[<-|[]]]; auto. apply Hj. left; auto.
  - intros y Hy. apply Hj. right; auto.
Qed.

Lemma reach_T : forall e (S : list N) (T : N -> Prop),
  (forall i j, In i S -> T i -> In j (nbrs_of e 0 i) -> T j /\ In j S) ->
  forall n R, (forall x, In x R -> T x /\ In x S) -> forall x, In x (reach e n R) -> T x /\ In x S.
Proof.
  intros e S T Hc. induction n as [|n IH]; intros R HR x Hx; cbn in Hx; auto.
  eapply IH; [|exact Hx]. intros y Hy. unfold expand in Hy.
  apply (fold_add_new_T (fun z => T z /\ In z S) (flat_map (nbrs_of e 0) R) R); auto.
  intros z Hz. apply in_flat_map in Hz. destruct Hz as [i [Hi Hz]]. destruct (HR i Hi) as [Ti Si].
  apply (Hc i z Si Ti Hz).
Qed.

Theorem small_exact_checked : forall pr ix S q k ix' r,
  small_check pr ix S = true ->
  search pr ix q k = Ok (ix', r) ->
  r = brute_force (map (fun i => (i, vec_of (i_env ix) i)) S) q k.
Proof.
  intros pr ix S q k ix' r C H. unfold small_check in C.
  repeat (apply andb_true_iff in C; destruct C as [C ?]).
  rename H0 into Creach, H1 into Cnb, H2 into Cvec, H3 into Cep, H4 into Clen.
  apply nodupN_NoDup in C. apply Nat.leb_le in Clen.
  rewrite forallb_forall in Cvec, Cnb, Creach.
  set (e := i_env ix) in *.
  assert (HV : forall i, In i S -> assoc i (cache e) = Some (vec_of e i)).
  { intros i Hi. specialize (Cvec i Hi). unfold vec_of. destruct (assoc i (cache e)); [reflexivity|discriminate]. }
  set (Lay := fun l => l <= i_maxl ix).
  assert (HG : forall l i, Lay l -> In i S -> get_neighbors e l i = Ok (nbrs_of e l i)).
  { intros l i Hl Hi. assert (Hs : In l (seq 0 (Datatypes.S (i_maxl ix)))) by (apply in_seq; unfold Lay in Hl; lia).
    specialize (Cnb l Hs). rewrite forallb_forall in Cnb. specialize (Cnb i Hi).
    unfold nbrs_of. destruct (get_neighbors e l i); [reflexivity|discriminate|discriminate]. }
  assert (Hcl : forall l i j, Lay l -> In i S -> In j (nbrs_of e l i) -> In j S).
  { intros l i j Hl Hi Hj. assert (Hs : In l (seq 0 (Datatypes.S (i_maxl ix)))) by (apply in_seq; unfold Lay in Hl; lia).
    specialize (Cnb l Hs). rewrite forallb_forall in Cnb. specialize (Cnb i Hi).
    unfold nbrs_of in Hj. destruct (get_neighbors e l i); try contradiction.
    apply inclb_incl in Cnb. apply Cnb. exact Hj. }
  unfold search in H. destruct (i_ep ix) as [entry|]; [|discriminate].
  apply memN_true in Cep. fold e in H.
  rewrite (gv e S (vec_of e) HV entry Cep) in H. cbn [bind] in H.
  match type of H with bind ?x _ = _ => destruct x as [[[e2 cur] cd]| |] eqn:E2; cbn [bind] in H; try discriminate end.
  apply (greedy_down_same e q S (vec_of e) (nbrs_of e) HV Lay HG Hcl) in E2; [| |exact Cep].
  2:{ intros l Hl. unfold layers_down in Hl. apply in_rev in Hl. apply in_seq in Hl. unfold Lay. lia. }
  destruct E2 as [-> Hcur].
  match type of H with bind ?x _ = _ => destruct x as [[e3 found]| |] eqn:E3; cbn [bind] in H; try discriminate end.
  assert (L0 : Lay 0) by (unfold Lay; lia).
  assert (Hconn : forall T : N -> Prop, T cur ->
            (forall i j, In i S -> T i -> In j (nbrs_of e 0 i) -> T j) -> forall i, In i S -> T i).
  { intros T Tc Tcl i Hi. specialize (Creach cur Hcur). apply inclb_incl in Creach.
    apply (reach_T e S T) with (n := length S) (R := [cur]) (x := i).
    - intros a b Ha Ta Hb. split; [eapply Tcl; eauto|eapply Hcl; eauto].
    - intros x [<-|[]]. auto.
    - apply Creach. exact Hi. }
  apply (search_layer_complete e q S (vec_of e) (nbrs_of e) (p_efs pr) HV Lay HG Hcl C Clen 0 L0 cur Hcur Hconn) in E3.
  destruct E3 as [-> ->]. inversion H; subst; clear H.
  unfold brute_force. rewrite map_map. unfold D. cbn [fst snd]. reflexivity.
Qed.

(* non-vacuity: a reachable state with three layers passes the check, so the theorem applies to it *)
Definition sx_params : params := {| p_m := 2; p_efc := 3; p_efs := 5 |}.
Definition sx_ops : list op :=
  [OInsert 4 [0; 0]%Z 0; OInsert 2 [3; 0]%Z 2; OInsert 7 [1; 1]%Z 0; OInsert 1 [1; 1]%Z 1; OInsert 5 [(-2); 2]%Z 0].
Example small_check_nonvacuous :
  match run sx_params empty_index sx_ops with
  | Ok ix => small_check sx_params ix [4; 2; 7; 1; 5]%N
  | _ => false
  end = true.
Proof. vm_compute. reflexivity. Qed.
