(* Vector/Hnsw_proofs.v — PROOFS about the HNSW model (Vector/Hnsw.v, Vector/PageTree.v).

   Main result: `search_sound` — for every state reachable from the empty index by
   any history of inserts (any levels), deletions and reopens, and for every query
   and k, a search that answers returns at most k pairs, with pairwise different
   ids, in non-decreasing distance order, each id being one whose vector was set and
   each distance the exact squared distance to a vector that was set for that id.
   The proof needs nothing about the shape of the B-trees beyond "a lookup returns a
   cell that is stored in some leaf under exactly the key asked for" and "an insert
   adds one cell", so it also covers stale/duplicate-key reads.
   Witnesses: deleted nodes are returned; a reopen can change the result. *)
From Coq Require Import Lia ZifyBool ZifyN ZifyNat Sorted Permutation.
From NDB Require Import Vector.PageTree Vector.Hnsw.
Open Scope nat_scope.

(* ------------------------------------------------------------ page tree: cells *)
Section TreeFacts.
Context {P : Type}.
Variable klen : N -> N.

Lemma cells_set_nth : forall (ps : list (page P)) i p x,
  In x (flat_map page_cells (set_nth ps i p)) ->
  In x (page_cells p) \/ In x (flat_map page_cells ps).
Proof.
  induction ps as [|h t IH]; intros i p x H; cbn in *.
  - destruct i; cbn in H; contradiction.
  - destruct i; cbn in H; rewrite in_app_iff in *.
    + destruct H; auto.
    + destruct H as [H|H]; auto. apply IH in H. destruct H; auto.
Qed.

Lemma cells_app : forall (a b : list (page P)) x,
  In x (flat_map page_cells (a ++ b)) <-> In x (flat_map page_cells a) \/ In x (flat_map page_cells b).
Proof. intros. rewrite flat_map_app, in_app_iff. tauto. Qed.

Lemma cells_nth : forall (ps : list (page P)) i es r x,
  nth_error ps i = Some (Leaf es r) -> In x es -> In x (flat_map page_cells ps).
Proof.
  intros ps i es r x H Hx. apply in_flat_map. exists (Leaf es r). split.
  - eapply nth_error_In; eauto.
  - exact Hx.
Qed.

Lemma iip_cells : forall path (ps : list (page P)) rt l sep r ps' rt',
  insert_into_parent klen ps rt path l sep r = Some (ps', rt') ->
  forall x, In x (flat_map page_cells ps') -> In x (flat_map page_cells ps).
Proof.
  induction path as [|[pid pos] rest IH]; intros ps rt l sep r ps' rt' H x Hx; cbn in H.
  - inversion H; subst. apply cells_app in Hx. destruct Hx as [Hx|Hx]; auto. cbn in Hx. contradiction.
  - destruct (nth_error ps pid) as [[es rr|lm cells]|] eqn:E; try discriminate.
    destruct (internal_fits klen cells sep).
    + inversion H; subst. apply cells_set_nth in Hx. destruct Hx as [Hx|Hx]; auto. cbn in Hx. contradiction.
    + eapply IH in H; [|exact Hx]. apply cells_app in H. destruct H as [H|H].
      * apply cells_set_nth in H. destruct H as [H|H]; auto. cbn in H. contradiction.
      * cbn in H. contradiction.
Qed.

Lemma descend_leaf : forall fuel (ps : list (page P)) cur k path c es r path',
  descend fuel ps cur k path = Some (c, es, r, path') -> nth_error ps c = Some (Leaf es r).
Proof.
  induction fuel as [|f IH]; intros ps cur k path c es r path' H; cbn in H; [discriminate|].
  destruct (nth_error ps cur) as [[es0 r0|lm cells]|] eqn:E; try discriminate.
  - inversion H; subst. exact E.
  - eapply IH; eauto.
Qed.

Lemma in_firstn : forall {X} n (y : X) l, In y (firstn n l) -> In y l.
Proof. intros X n y l H. rewrite <- (firstn_skipn n l). apply in_or_app. auto. Qed.
Lemma in_skipn : forall {X} n (y : X) l, In y (skipn n l) -> In y l.
Proof. intros X n y l H. rewrite <- (firstn_skipn n l). apply in_or_app. auto. Qed.

Lemma in_insert_at : forall {X} n (x y : X) l, In y (insert_at n x l) -> y = x \/ In y l.
Proof.
  intros X n x y l H. unfold insert_at in H. apply in_app_iff in H. destruct H as [H|H].
  - right. eapply in_firstn. exact H.
  - destruct H as [H|H]; auto. right. eapply in_skipn. exact H.
Qed.

Lemma insert_cells : forall (t : tree P) k v t',
  PageTree.insert klen t k v = Some t' ->
  forall x, In x (all_cells t') -> x = (k, v) \/ In x (all_cells t).
Proof.
  intros t k v t' H x Hx. unfold PageTree.insert in H.
  destruct (descend (tree_fuel t) (pages t) (root t) k []) as [[[[cur es] r] path]|] eqn:D; [|discriminate].
  pose proof (descend_leaf _ _ _ _ _ _ _ _ _ D) as Hleaf.
  destruct (leaf_fits klen es k).
  - inversion H; subst; clear H. unfold all_cells in *. cbn in Hx.
    apply cells_set_nth in Hx. destruct Hx as [Hx|Hx]; auto. cbn in Hx.
    apply in_insert_at in Hx. destruct Hx as [Hx|Hx]; auto. right. eapply cells_nth; eauto.
  - match type of H with match ?X with _ => _ end = _ => destruct X as [[ps' rt']|] eqn:I end; [|discriminate].
    inversion H; subst; clear H. unfold all_cells in *. cbn in Hx.
    eapply iip_cells in Hx; [|exact I].
    apply cells_app in Hx. destruct Hx as [Hx|Hx].
    + apply cells_set_nth in Hx. destruct Hx as [Hx|Hx]; auto. cbn in Hx.
      apply in_firstn in Hx. apply in_insert_at in Hx. destruct Hx as [Hx|Hx]; auto.
      right. eapply cells_nth; eauto.
    + cbn in Hx. rewrite app_nil_r in Hx.
      apply in_skipn in Hx. apply in_insert_at in Hx. destruct Hx as [Hx|Hx]; auto.
      right. eapply cells_nth; eauto.
Qed.

Lemma chase_in : forall fuel (ps : list (page P)) es r slot e,
  (forall x, In x es -> In x (flat_map page_cells ps)) ->
  chase fuel ps es r slot = Some (Some e) -> In e (flat_map page_cells ps).
Proof.
  induction fuel as [|f IH]; intros ps es r slot e Hes H; cbn [chase] in H; [discriminate|].
  assert (Hnext : match r with
                  | None => Some None
                  | Some nx => match nth_error ps nx with
                               | Some (Leaf es' r') => chase f ps es' r' 0
                               | _ => None
                               end
                  end = Some (Some e) -> In e (flat_map page_cells ps)).
  { destruct r as [nx|]; [|discriminate].
    destruct (nth_error ps nx) as [[es' r'|? ?]|] eqn:E; try discriminate.
    intro H'. eapply IH; [|exact H']. intros x Hx. eapply cells_nth; eauto. }
  destruct es as [|e0 es0]; [exact (Hnext H)|].
  destruct (slot <? length (e0 :: es0)); [|exact (Hnext H)].
  injection H as H1. apply Hes. eapply nth_error_In; eauto.
Qed.

Lemma lookup_in : forall (t : tree P) k v,
  lookup t k = Some (Some v) -> In (k, v) (all_cells t).
Proof.
  intros t k v H. unfold lookup in H.
  destruct (descend (tree_fuel t) (pages t) (root t) k []) as [[[[cur es] r] path]|] eqn:D; [|discriminate].
  pose proof (descend_leaf _ _ _ _ _ _ _ _ _ D) as Hleaf.
  destruct (chase (tree_fuel t) (pages t) es r (lower_bound es k)) as [[e|]|] eqn:C; try discriminate.
  destruct (fst e =? k)%N eqn:E; [|discriminate].
  inversion H; subst. apply N.eqb_eq in E. subst k.
  replace (fst e, snd e) with e by (destruct e; reflexivity).
  unfold all_cells. eapply chase_in; [|exact C]. intros x Hx. eapply cells_nth; eauto.
Qed.
End TreeFacts.

(* ------------------------------------------------------------ vector-store invariant *)
Definition vinv (P : N -> vec -> Prop) (e : env) : Prop :=
  (forall k v, In (k, v) (all_cells (vt e)) -> P k v) /\
  (forall k v, In (k, v) (cache e) -> P k v).

Lemma vinv_mono : forall (P Q : N -> vec -> Prop) e,
  (forall k v, P k v -> Q k v) -> vinv P e -> vinv Q e.
Proof. intros P Q e H [A B]. split; intros; auto. Qed.

Lemma assoc_in : forall {A} k (l : list (N * A)) a, assoc k l = Some a -> In (k, a) l.
Proof.
  induction l as [|[k' a'] t IH]; intros a H; cbn in H; [discriminate|].
  destruct (k' =? k)%N eqn:E.
  - apply N.eqb_eq in E. inversion H; subst. left; reflexivity.
  - right. auto.
Qed.

Ltac bind_ok H x E :=
  match type of H with
  | bind ?r _ = Ok _ => destruct r as [x| |] eqn:E; cbn [bind] in H; [|discriminate|discriminate]
  end.

Lemma of_opt_ok : forall {A} (o : option A) a, of_opt o = Ok a -> o = Some a.
Proof. intros A [x|] a H; cbn in H; inversion H; reflexivity. Qed.

Lemma get_vector_inv : forall P e id e' v,
  vinv P e -> get_vector e id = Ok (e', v) -> vinv P e' /\ P id v.
Proof.
  intros P e id e' v [A B] H. unfold get_vector in H.
  destruct (assoc id (cache e)) as [v0|] eqn:E.
  - inversion H; subst. split; [split; auto|]. apply B. apply assoc_in; auto.
  - bind_ok H o Eo. apply of_opt_ok in Eo. destruct o as [v0|]; [|discriminate].
    inversion H; subst; clear H. apply lookup_in in Eo.
    split; [split; cbn; auto|].
    + intros k v0 [H|H]; auto. inversion H; subst. apply A; auto.
    + apply A; auto.
Qed.

Lemma set_graph_inv : forall P e k g e', vinv P e -> set_graph e k g = Ok e' -> vinv P e'.
Proof.
  intros P e k g e' [A B] H. unfold set_graph in H. bind_ok H t Et.
  inversion H; subst. split; cbn; auto.
Qed.

Lemma set_neighbors_inv : forall P e l n ns e', vinv P e -> set_neighbors e l n ns = Ok e' -> vinv P e'.
Proof. intros. eapply set_graph_inv; eauto. Qed.
Lemma set_meta_inv : forall P e ep ml e', vinv P e -> set_meta e ep ml = Ok e' -> vinv P e'.
Proof. intros. eapply set_graph_inv; eauto. Qed.

Lemma insert_vector_inv : forall (P : N -> vec -> Prop) e id v e',
  vinv P e -> P id v -> insert_vector e id v = Ok e' -> vinv P e'.
Proof.
  intros P e id v e' [A B] Hp H. unfold insert_vector in H. bind_ok H t Et.
  apply of_opt_ok in Et. inversion H; subst; clear H. split; cbn.
  - intros k v0 Hin. eapply insert_cells in Hin; [|exact Et].
    destruct Hin as [Hin|Hin]; auto. inversion Hin; subst. exact Hp.
  - intros k v0 [Hin|Hin]; auto. inversion Hin; subst. exact Hp.
Qed.

(* ------------------------------------------------------------ sorted lists of (d2,id) *)
Definition ge_d (a b : di) : Prop := (fst b <= fst a)%N.    (* a before b in a descending list *)
Definition le_d (a b : di) : Prop := (fst a <= fst b)%N.

Lemma in_ins_desc : forall x l y, In y (ins_desc x l) <-> y = x \/ In y l.
Proof.
  induction l as [|h t IH]; intros y; cbn.
  - intuition.
  - destruct (di_ltb x h); cbn; [rewrite IH|]; intuition.
Qed.
Lemma in_ins_asc : forall x l y, In y (ins_asc x l) <-> y = x \/ In y l.
Proof.
  induction l as [|h t IH]; intros y; cbn.
  - intuition.
  - destruct (di_ltb h x); cbn; [rewrite IH|]; intuition.
Qed.

Lemma di_ltb_le : forall a b, di_ltb a b = true -> (fst a <= fst b)%N.
Proof. intros [a1 a2] [b1 b2]; unfold di_ltb; cbn. lia. Qed.
Lemma di_ltb_false_le : forall a b, di_ltb a b = false -> (fst b <= fst a)%N.
Proof. intros [a1 a2] [b1 b2]; unfold di_ltb; cbn. lia. Qed.

Lemma ins_desc_sorted : forall x l, StronglySorted ge_d l -> StronglySorted ge_d (ins_desc x l).
Proof.
  induction l as [|h t IH]; intros S; cbn.
  - constructor; constructor.
  - inversion S as [|? ? S' F]; subst. destruct (di_ltb x h) eqn:E.
    + constructor; auto. rewrite Forall_forall in *. intros y Hy. apply in_ins_desc in Hy.
      destruct Hy as [->|Hy]; auto. unfold ge_d. apply di_ltb_le; auto.
    + constructor; auto. constructor.
      * unfold ge_d. apply di_ltb_false_le; auto.
      * rewrite Forall_forall in *. intros y Hy. specialize (F y Hy). unfold ge_d in *.
        apply di_ltb_false_le in E. lia.
Qed.

Lemma ins_desc_nodup : forall x l,
  ~ In (snd x) (map snd l) -> NoDup (map snd l) -> NoDup (map snd (ins_desc x l)).
Proof.
  induction l as [|h t IH]; intros Hn Hd; cbn.
  - constructor; auto.
  - destruct (di_ltb x h); cbn.
    + inversion Hd; subst. constructor.
      * intro Hin. apply in_map_iff in Hin. destruct Hin as [y [Ey Hy]]. apply in_ins_desc in Hy.
        destruct Hy as [->|Hy].
        -- apply Hn. left. auto.
        -- apply H1. rewrite <- Ey. apply in_map; auto.
      * apply IH; auto. intro Hin. apply Hn. right; auto.
    + constructor; auto.
Qed.

Lemma sorted_tl : forall {A} (R : A -> A -> Prop) l, StronglySorted R l -> StronglySorted R (tl l).
Proof. intros A R [|h t] S; cbn; [constructor|]. inversion S; auto. Qed.
Lemma nodup_tl : forall {A} (l : list A), NoDup l -> NoDup (tl l).
Proof. intros A [|h t] S; cbn; [constructor|]. inversion S; auto. Qed.
Lemma map_tl' : forall {A B} (f : A -> B) l, map f (tl l) = tl (map f l).
Proof. intros A B f [|h t]; reflexivity. Qed.
Lemma in_tl : forall {A} (x : A) l, In x (tl l) -> In x l.
Proof. intros A x [|h t]; cbn; auto. Qed.

Lemma sorted_app_rev : forall l, StronglySorted ge_d l -> StronglySorted le_d (rev l).
Proof.
  induction l as [|h t IH]; intros S; cbn; [constructor|].
  inversion S as [|? ? S' F]; subst. specialize (IH S').
  assert (G : forall a b, StronglySorted le_d a -> Forall (fun y => le_d y b) a -> StronglySorted le_d (a ++ [b])).
  { induction a as [|x a IHa]; intros b Sa Fa; cbn.
    - constructor; constructor.
    - inversion Sa; subst. inversion Fa; subst. constructor; auto.
      apply Forall_app. split; auto. }
  apply G; auto. rewrite Forall_forall in *. intros y Hy. apply in_rev in Hy. apply F in Hy. exact Hy.
Qed.

Lemma sorted_firstn : forall {A} (R : A -> A -> Prop) n l, StronglySorted R l -> StronglySorted R (firstn n l).
Proof.
  induction n as [|n IH]; intros l S; cbn; [constructor|].
  destruct l as [|h t]; [constructor|]. inversion S; subst. constructor; auto.
  rewrite Forall_forall in *. intros y Hy. apply in_firstn in Hy. auto.
Qed.

(* ------------------------------------------------------------ search_layer invariant *)
Definition slinv (P : N -> vec -> Prop) (q : vec) (s : sl) : Prop :=
  vinv P (s_env s) /\
  (forall x, In x (cand s) \/ In x (nn s) -> In (snd x) (visited s) /\ exists v, P (snd x) v /\ fst x = dist2 q v) /\
  NoDup (map snd (nn s)) /\
  StronglySorted ge_d (nn s).

Lemma memN_false : forall x l, memN x l = false -> ~ In x l.
Proof.
  intros x l H Hin. unfold memN in H.
  assert (existsb (N.eqb x) l = true). { apply existsb_exists. exists x. split; auto. apply N.eqb_refl. }
  congruence.
Qed.

Lemma slinv_add : forall P q s e' n v (keep : bool),
  slinv P q s -> vinv P e' -> P n v -> ~ In n (visited s) ->
  forall c' n',
    (c' = cand s \/ c' = ins_asc (dist2 q v, n) (cand s)) ->
    (n' = nn s \/ n' = ins_desc (dist2 q v, n) (nn s) \/ n' = tl (ins_desc (dist2 q v, n) (nn s))) ->
    slinv P q {| s_env := e'; visited := n :: visited s; cand := c'; nn := n' |}.
Proof.
  intros P q s e' n v keep [A [B [C D]]] He Hp Hn c' n' Hc Hn'.
  assert (Hnot : ~ In n (map snd (nn s))).
  { intro Hin. apply in_map_iff in Hin. destruct Hin as [y [Ey Hy]]. apply Hn.
    rewrite <- Ey. apply B. auto. }
  split; [exact He|]. cbn. split; [|split].
  - intros x Hx.
    assert (Hx' : x = (dist2 q v, n) \/ In x (cand s) \/ In x (nn s)).
    { destruct Hx as [Hx|Hx].
      - destruct Hc as [->| ->]; auto. apply in_ins_asc in Hx. tauto.
      - destruct Hn' as [->|[->| ->]]; auto.
        + apply in_ins_desc in Hx. tauto.
        + apply in_tl in Hx. apply in_ins_desc in Hx. tauto. }
    destruct Hx' as [->|Hx'].
    + cbn. split; auto. exists v. auto.
    + apply B in Hx'. destruct Hx' as [H1 H2]. split; auto.
  - destruct Hn' as [->|[->| ->]]; auto.
    + apply ins_desc_nodup; auto.
    + rewrite map_tl'. apply nodup_tl. apply ins_desc_nodup; auto.
  - destruct Hn' as [->|[->| ->]]; auto.
    + apply ins_desc_sorted; auto.
    + apply sorted_tl. apply ins_desc_sorted; auto.
Qed.

Lemma sl_init_inv : forall P q eps s s', slinv P q s -> sl_init q eps s = Ok s' -> slinv P q s'.
Proof.
  induction eps as [|ep t IH]; intros s s' I H; cbn [sl_init] in H.
  - inversion H; subst; auto.
  - destruct (memN ep (visited s)) eqn:M; [eauto|].
    bind_ok H x Ex. destruct x as [e' v].
    pose proof I as [A _]. eapply get_vector_inv in Ex; [|exact A]. destruct Ex as [He Hp].
    eapply IH; [|exact H]. eapply slinv_add; eauto using memN_false. exact true.
Qed.

Lemma sl_visit_inv : forall P q ef nbrs s s', slinv P q s -> sl_visit q ef nbrs s = Ok s' -> slinv P q s'.
Proof.
  induction nbrs as [|n t IH]; intros s s' I H; cbn [sl_visit] in H.
  - inversion H; subst; auto.
  - destruct (memN n (visited s)) eqn:M; [eauto|].
    bind_ok H x Ex. destruct x as [e' v].
    pose proof I as [A _]. eapply get_vector_inv in Ex; [|exact A]. destruct Ex as [He Hp].
    match type of H with (if ?c then _ else _) = _ => destruct c end.
    + eapply IH; [|exact H]. destruct (ef <? length (ins_desc (dist2 q v, n) (nn s))).
      * eapply slinv_add; eauto using memN_false. exact true.
      * eapply slinv_add; eauto using memN_false. exact true.
    + eapply IH; [|exact H]. eapply slinv_add; eauto using memN_false. exact true.
Qed.

Lemma slinv_pop : forall P q s x rest, slinv P q s -> cand s = x :: rest ->
  slinv P q {| s_env := s_env s; visited := visited s; cand := rest; nn := nn s |}.
Proof.
  intros P q s x rest [A [B [C D]]] E. split; [exact A|]. cbn. split; [|split]; auto.
  intros y Hy. apply B. rewrite E. destruct Hy; auto. left; right; auto.
Qed.

Lemma sl_loop_inv : forall P fuel q ef layer s s', slinv P q s -> sl_loop fuel q ef layer s = Ok s' -> slinv P q s'.
Proof.
  induction fuel as [|f IH]; intros q ef layer s s' I H; cbn [sl_loop] in H; [discriminate|].
  destruct (cand s) as [|[dc c] rest] eqn:E.
  - inversion H; subst; auto.
  - match type of H with (if ?c then _ else _) = _ => destruct c end.
    + inversion H; subst; auto.
    + bind_ok H nbrs En. bind_ok H s1 Es.
      eapply IH; [|exact H]. eapply sl_visit_inv; [|exact Es]. eapply slinv_pop; eauto.
Qed.

Lemma search_layer_inv : forall P fuel e q eps ef layer e' found,
  vinv P e -> search_layer fuel e q eps ef layer = Ok (e', found) ->
  vinv P e' /\
  (forall x, In x found -> exists v, P (snd x) v /\ fst x = dist2 q v) /\
  NoDup (map snd found) /\ StronglySorted le_d found.
Proof.
  intros P fuel e q eps ef layer e' found He H. unfold search_layer in H.
  bind_ok H s0 E0. bind_ok H s E1. inversion H; subst; clear H.
  assert (I0 : slinv P q {| s_env := e; visited := []; cand := []; nn := [] |}).
  { split; [exact He|]. cbn. split; [|split].
    - intros x [[]|[]].
    - constructor.
    - constructor. }
  eapply sl_init_inv in E0; [|exact I0]. eapply sl_loop_inv in E1; [|exact E0].
  destruct E1 as [A [B [C D]]]. split; [exact A|]. split; [|split].
  - intros x Hx. apply in_rev in Hx. destruct (B x (or_intror Hx)) as [_ Hv]. exact Hv.
  - rewrite map_rev. apply NoDup_rev. exact C.
  - apply sorted_app_rev. exact D.
Qed.

(* ------------------------------------------------------------ the other loops keep vinv *)
Lemma greedy_scan_inv : forall P q nbrs e cur cd ch e' cur' cd' ch',
  vinv P e -> greedy_scan e q nbrs cur cd ch = Ok (e', cur', cd', ch') -> vinv P e'.
Proof.
  induction nbrs as [|n t IH]; intros e cur cd ch e' cur' cd' ch' I H; cbn [greedy_scan] in H.
  - inversion H; subst; auto.
  - bind_ok H x Ex. destruct x as [e1 v]. eapply get_vector_inv in Ex; [|exact I]. destruct Ex as [He _].
    destruct (dist2 q v <? cd)%N; eapply IH; eauto.
Qed.

Lemma greedy_layer_inv : forall P fuel e q layer cur cd e' cur' cd',
  vinv P e -> greedy_layer fuel e q layer cur cd = Ok (e', cur', cd') -> vinv P e'.
Proof.
  induction fuel as [|f IH]; intros e q layer cur cd e' cur' cd' I H; cbn [greedy_layer] in H; [discriminate|].
  bind_ok H nbrs En. bind_ok H x Ex. destruct x as [[[e1 c1] d1] ch].
  eapply greedy_scan_inv in Ex; [|exact I].
  destruct ch.
  - eapply IH; eauto.
  - inversion H; subst; auto.
Qed.

Lemma greedy_down_inv : forall P fuel q layers e cur cd e' cur' cd',
  vinv P e -> greedy_down fuel e q layers cur cd = Ok (e', cur', cd') -> vinv P e'.
Proof.
  induction layers as [|l t IH]; intros e cur cd e' cur' cd' I H; cbn [greedy_down] in H.
  - inversion H; subst; auto.
  - bind_ok H x Ex. destruct x as [[e1 c1] d1]. eapply greedy_layer_inv in Ex; [|exact I]. eapply IH; eauto.
Qed.

Lemma backlinks_inv : forall P pr layer id nbrs e e',
  vinv P e -> backlinks pr e layer id nbrs = Ok e' -> vinv P e'.
Proof.
  induction nbrs as [|n t IH]; intros e e' I H; cbn [backlinks] in H.
  - inversion H; subst; auto.
  - bind_ok H l El. destruct (memN id l); [eauto|].
    bind_ok H e1 E1. eapply set_neighbors_inv in E1; [|exact I]. eauto.
Qed.

Lemma connect_inv : forall P pr fuel id v layers e eps e',
  vinv P e -> connect pr fuel e id v layers eps = Ok e' -> vinv P e'.
Proof.
  induction layers as [|l t IH]; intros e eps e' I H; cbn [connect] in H.
  - inversion H; subst; auto.
  - bind_ok H x Ex. destruct x as [e1 found]. eapply search_layer_inv in Ex; [|exact I]. destruct Ex as [I1 _].
    bind_ok H e2 E2. eapply set_neighbors_inv in E2; [|exact I1].
    bind_ok H e3 E3. eapply backlinks_inv in E3; [|exact E2]. eauto.
Qed.

Lemma init_layers_inv : forall P id layers e e', vinv P e -> init_layers e id layers = Ok e' -> vinv P e'.
Proof.
  induction layers as [|l t IH]; intros e e' I H; cbn [init_layers] in H.
  - inversion H; subst; auto.
  - bind_ok H e1 E1. eapply set_neighbors_inv in E1; [|exact I]. eauto.
Qed.

Lemma insert_inv : forall (P : N -> vec -> Prop) pr ix id v level ix',
  vinv P (i_env ix) -> P id v -> Hnsw.insert pr ix id v level = Ok ix' -> vinv P (i_env ix').
Proof.
  intros P pr ix id v level ix' I Hp H. unfold Hnsw.insert in H.
  bind_ok H e0 E0. eapply insert_vector_inv in E0; eauto.
  destruct (i_ep ix) as [entry|].
  - bind_ok H x Ex. destruct x as [e1 v0]. eapply get_vector_inv in Ex; [|exact E0]. destruct Ex as [I1 _].
    bind_ok H y Ey. destruct y as [[e2 cur] cd]. eapply greedy_down_inv in Ey; [|exact I1].
    bind_ok H e3 E3. eapply connect_inv in E3; [|exact Ey].
    destruct (i_maxl ix <? level); bind_ok H e4 E4; eapply set_meta_inv in E4; eauto; inversion H; subst; exact E4.
  - bind_ok H e1 E1. eapply init_layers_inv in E1; [|exact E0].
    bind_ok H e2 E2. eapply set_meta_inv in E2; [|exact E1]. inversion H; subst. exact E2.
Qed.

Lemma reopen_inv : forall P ix ix', vinv P (i_env ix) -> reopen ix = Ok ix' -> vinv P (i_env ix').
Proof.
  intros P ix ix' [A B] H. unfold reopen in H. bind_ok H x Ex. destruct x as [ep ml].
  inversion H; subst. split; cbn; auto. intros k v [].
Qed.

Definition inserted (ops : list op) (id : N) (v : vec) : Prop := exists l, In (OInsert id v l) ops.

Lemma run_inv : forall pr ops ops0 ix ix',
  vinv (inserted ops0) (i_env ix) -> run pr ix ops = Ok ix' -> vinv (inserted (ops0 ++ ops)) (i_env ix').
Proof.
  induction ops as [|o t IH]; intros ops0 ix ix' I H; cbn [run] in H.
  - inversion H; subst. rewrite app_nil_r. exact I.
  - bind_ok H ix1 E1.
    replace (ops0 ++ o :: t) with ((ops0 ++ [o]) ++ t) by (rewrite <- app_assoc; reflexivity).
    eapply IH; [|exact H].
    assert (M : vinv (inserted (ops0 ++ [o])) (i_env ix)).
    { eapply vinv_mono; [|exact I]. intros k v [l Hl]. exists l. apply in_or_app. auto. }
    destruct o as [id v level|id|]; cbn [step] in E1.
    + eapply insert_inv; [exact M| |exact E1]. exists level. apply in_or_app. right. left. reflexivity.
    + inversion E1; subst. exact M.
    + eapply reopen_inv; eauto.
Qed.

Lemma empty_vinv : forall P, vinv P (i_env empty_index).
Proof. intro P. split; cbn; intros k v H; contradiction. Qed.

(* ------------------------------------------------------------ soundness of search *)
Definition sorted_by_dist (r : list (N * N)) : Prop :=
  StronglySorted (fun a b => (snd a <= snd b)%N) r.

Lemma search_sound_inv : forall (P : N -> vec -> Prop) pr ix q k ix' r,
  vinv P (i_env ix) -> search pr ix q k = Ok (ix', r) ->
  vinv P (i_env ix') /\
  length r <= k /\ NoDup (map fst r) /\ sorted_by_dist r /\
  (forall id d, In (id, d) r -> exists v, P id v /\ d = dist2 q v).
Proof.
  intros P pr ix q k ix' r I H. unfold search in H.
  destruct (i_ep ix) as [entry|].
  - bind_ok H x Ex. destruct x as [e1 v0]. eapply get_vector_inv in Ex; [|exact I]. destruct Ex as [I1 _].
    bind_ok H y Ey. destruct y as [[e2 cur] cd]. eapply greedy_down_inv in Ey; [|exact I1].
    bind_ok H z Ez. destruct z as [e3 found]. eapply search_layer_inv in Ez; [|exact Ey].
    destruct Ez as [I3 [B [C D]]]. inversion H; subst; clear H. cbn [i_env].
    split; [exact I3|]. split; [|split; [|split]].
    + rewrite map_length. rewrite firstn_length. lia.
    + rewrite map_map. cbn. 
      assert (G : forall n (l : list di), NoDup (map snd l) -> NoDup (map snd (firstn n l))).
      { induction n as [|n IHn]; intros l Hl; cbn; [constructor|]. destruct l as [|h t]; cbn; [constructor|].
        inversion Hl; subst. constructor; auto. intro Hin. apply H1.
        apply in_map_iff in Hin. destruct Hin as [y [Ey' Hy]]. apply in_firstn in Hy.
        rewrite <- Ey'. apply in_map. exact Hy. }
      apply G. exact C.
    + unfold sorted_by_dist.
      assert (G : forall l : list di, StronglySorted le_d l ->
                  StronglySorted (fun a b : N * N => (snd a <= snd b)%N) (map (fun x : di => (snd x, fst x)) l)).
      { induction l as [|h t IHl]; intros S; cbn; [constructor|]. inversion S; subst. constructor; auto.
        rewrite Forall_forall in *. intros y Hy. apply in_map_iff in Hy. destruct Hy as [z [<- Hz]]. cbn.
        apply H2 in Hz. exact Hz. }
      apply G. apply sorted_firstn. exact D.
    + intros id d Hin. apply in_map_iff in Hin. destruct Hin as [x [Ex' Hx]]. inversion Ex'; subst.
      apply in_firstn in Hx. apply B in Hx. exact Hx.
  - inversion H; subst. split; [exact I|]. cbn. split; [lia|]. split; [constructor|]. split; [constructor|].
    intros id d [].
Qed.

Theorem search_sound : forall pr ops ix q k ix' r,
  run pr empty_index ops = Ok ix ->
  search pr ix q k = Ok (ix', r) ->
  length r <= k /\ NoDup (map fst r) /\ sorted_by_dist r /\
  (forall id d, In (id, d) r -> exists v, inserted ops id v /\ d = dist2 q v).
Proof.
  intros pr ops ix q k ix' r Hr Hs.
  pose proof (run_inv pr ops [] empty_index ix (empty_vinv _) Hr) as I. cbn [app] in I.
  eapply search_sound_inv in Hs; [|exact I]. tauto.
Qed.

(* searching leaves a state from which the same guarantees hold again (the cache may have grown) *)
Theorem search_keeps_sound : forall pr ops ix q k ix' r q2 k2 ix2 r2,
  run pr empty_index ops = Ok ix ->
  search pr ix q k = Ok (ix', r) ->
  search pr ix' q2 k2 = Ok (ix2, r2) ->
  length r2 <= k2 /\ NoDup (map fst r2) /\ sorted_by_dist r2 /\
  (forall id d, In (id, d) r2 -> exists v, inserted ops id v /\ d = dist2 q2 v).
Proof.
  intros pr ops ix q k ix' r q2 k2 ix2 r2 Hr Hs Hs2.
  pose proof (run_inv pr ops [] empty_index ix (empty_vinv _) Hr) as I. cbn [app] in I.
  eapply search_sound_inv in Hs; [|exact I]. destruct Hs as [I' _].
  eapply search_sound_inv in Hs2; [|exact I']. tauto.
Qed.

(* ------------------------------------------------------------ non-vacuity and witnesses *)
Definition ex_params : params := {| p_m := 2; p_efc := 3; p_efs := 2 |}.
Definition ex_ops : list op :=
  [OInsert 4 [0; 0]%Z 0; OInsert 2 [3; 0]%Z 2; OInsert 7 [1; 1]%Z 0; OInsert 1 [1; 1]%Z 1;
   OInsert 5 [(-2); 2]%Z 0; OInsert 2 [0; 1]%Z 0; OReopen; OInsert 9 [5; 5]%Z 3].

(* the hypotheses of search_sound are met by a state with several layers, a re-inserted
   vector, a tie and a reopen; the search returns the 2 nearest with their exact d2 *)
Example search_sound_nonvacuous :
  exists ix ix', run ex_params empty_index ex_ops = Ok ix /\
                 search ex_params ix [1; 0]%Z 3 = Ok (ix', [(4, 1); (7, 1)]%N).
Proof.
  destruct (run ex_params empty_index ex_ops) as [ix| |] eqn:E; [|vm_compute in E; discriminate E..].
  destruct (search ex_params ix [1; 0]%Z 3) as [[ix' r]| |] eqn:S.
  - exists ix, ix'. split; [reflexivity|].
    revert S. generalize E. clear. intros E S.
    assert (H : match run ex_params empty_index ex_ops with
                | Ok i => match search ex_params i [1; 0]%Z 3 with Ok (_, r0) => r0 | _ => [] end
                | _ => [] end = [(4, 1); (7, 1)]%N) by (vm_compute; reflexivity).
    rewrite E, S in H. subst r. exact S.
  - exfalso. assert (H : match run ex_params empty_index ex_ops with
                | Ok i => match search ex_params i [1; 0]%Z 3 with Ok _ => true | _ => false end
                | _ => true end = true) by (vm_compute; reflexivity).
    rewrite E, S in H. discriminate.
  - exfalso. assert (H : match run ex_params empty_index ex_ops with
                | Ok i => match search ex_params i [1; 0]%Z 3 with Ok _ => true | _ => false end
                | _ => true end = true) by (vm_compute; reflexivity).
    rewrite E, S in H. discriminate.
Qed.

(* K-C31-deleted: deleting a node does not touch the index; the deleted node is returned *)
Definition del_ops : list op := [OInsert 0 [0; 0]%Z 0; OInsert 1 [5; 5]%Z 0; ODelete 0].

Definition result_ids (pr : params) (ops : list op) (q : vec) (k : nat) : option (list N) :=
  match run pr empty_index ops with
  | Ok ix => match search pr ix q k with Ok (_, r) => Some (map fst r) | _ => None end
  | _ => None
  end.

Lemma deleted_returned : result_ids default_params del_ops [0; 0]%Z 1 = Some [0%N].
Proof. vm_compute. reflexivity. Qed.

Theorem deleted_refuted :
  exists pr ops q k ids id,
    result_ids pr ops q k = Some ids /\ In (ODelete id) ops /\ In id ids.
Proof.
  exists default_params, del_ops, [0; 0]%Z, 1, [0%N], 0%N.
  split; [exact deleted_returned|]. split; cbn; auto.
Qed.

(* without deletions every returned node is one whose vector was set and never deleted *)
Theorem search_existing : forall pr ops q k ids,
  (forall id, ~ In (ODelete id) ops) ->
  result_ids pr ops q k = Some ids ->
  forall id, In id ids -> (exists v, inserted ops id v) /\ ~ In (ODelete id) ops.
Proof.
  intros pr ops q k ids Hd H id Hin. unfold result_ids in H.
  destruct (run pr empty_index ops) as [ix| |] eqn:E; try discriminate.
  destruct (search pr ix q k) as [[ix' r]| |] eqn:S; try discriminate.
  inversion H; subst; clear H. split; [|apply Hd].
  apply in_map_iff in Hin. destruct Hin as [[i d] [Ei Hi]]. cbn in Ei. subst i.
  destruct (search_sound _ _ _ _ _ _ _ E S) as [_ [_ [_ Hv]]].
  destruct (Hv _ _ Hi) as [v [Hv1 _]]. exists v. exact Hv1.
Qed.

(* K-C31-stale-vector: results are NOT always unchanged by reopening.  509 vectors, then
   node 254 gets a new vector, then one more insert splits the (now full) leaf of the
   vector tree between the two cells of node 254; lookups go to the right leaf and read
   the OLD vector once the cache is gone. *)
Definition stale_params : params := {| p_m := 2; p_efc := 2; p_efs := 40 |}.
Definition stale_ops : list op :=
  map (fun i => OInsert (N.of_nat i) [Z.of_nat (i mod 23); Z.of_nat (i / 23)] 0) (seq 0 509)
  ++ [OInsert 254 [40; 40]%Z 0; OInsert 600 [(-3); (-3)]%Z 0].

Lemma stale_before : result_ids stale_params stale_ops [40; 40]%Z 3 = Some [254; 505; 504]%N.
Proof. vm_compute. reflexivity. Qed.
Lemma stale_after : result_ids stale_params (stale_ops ++ [OReopen]) [40; 40]%Z 3 = Some [505; 504; 503]%N.
Proof. vm_compute. reflexivity. Qed.

Theorem reopen_refuted :
  exists pr ops q k r1 r2,
    result_ids pr ops q k = Some r1 /\ result_ids pr (ops ++ [OReopen]) q k = Some r2 /\ r1 <> r2.
Proof.
  exists stale_params, stale_ops, [40; 40]%Z, 3, [254; 505; 504]%N, [505; 504; 503]%N.
  split; [exact stale_before|]. split; [exact stale_after|]. discriminate.
Qed.
