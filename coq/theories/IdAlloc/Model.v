(* IdAlloc/Model.v — MODEL of node identity allocation.
   Executable definitions only (proofs in Model_proofs.v).

   nervusdb-query executor (execute_create_from_rows, merge_create_node,
   exec_merge_create_node): for each node a statement creates,
       external_id = created_count + clock_sample        (u64; one clock sample PER NODE)
   where created_count counts the nodes AND relationships created so far by this
   clause execution (starting at 0; the nodes of a row are created first, then its
   relationships).  The clock samples are an explicit input; the shape of the
   statement (nodes and relationships per row) determines the counter values.
   nervusdb-storage WriteTxn::create_node: fails if the external id is already in the
   committed id map (deleted nodes stay there) or was already created in this
   transaction; otherwise internal_id = (number of committed nodes) + (nodes created
   so far in this transaction).  An error stops the statement; the nodes it created
   before stay pending in the transaction.  Commit appends the pending nodes to the id
   map in order; compaction and reopen do not change the id map (it is persisted).

   Clock samples are natural numbers below 2^62 (the u64 addition cannot wrap). *)
From Coq Require Export List NArith Bool.
Export ListNotations.
Open Scope N_scope.

Definition ext_id (count clock : N) : N := count + clock.

Record st := {
  committed : list N;     (* external ids; position = internal id *)
  pending : list N        (* created in the open transaction, oldest first *)
}.
Definition empty : st := {| committed := []; pending := [] |}.

Definition memN (x : N) (l : list N) : bool := existsb (N.eqb x) l.

Definition is_used (s : st) (e : N) : bool := memN e (committed s) || memN e (pending s).

(* shape of a creating statement: every row creates `nn` nodes, then `ne` relationships *)
Record shape := { nn : N; ne : N }.

(* the external ids a statement asks for, in order: counter + clock sample.
   j = nodes already created in the current row *)
Fixpoint wanted_from (sh : shape) (count j : N) (clocks : list N) : list N :=
  match clocks with
  | [] => []
  | t :: r =>
      let j' := N.succ j in
      ext_id count t ::
      (if nn sh <=? j' then wanted_from sh (N.succ count + ne sh) 0 r
       else wanted_from sh (N.succ count) j' r)
  end.
Definition wanted (sh : shape) (clocks : list N) : list N := wanted_from sh 0 0 clocks.

(* create_node for each wanted id in turn; stops at the first id already in use.
   Result: new state and whether all were created. *)
Fixpoint claim_all (s : st) (ids : list N) : st * bool :=
  match ids with
  | [] => (s, true)
  | e :: rest =>
      if is_used s e then (s, false)
      else claim_all {| committed := committed s; pending := pending s ++ [e] |} rest
  end.

(* one statement; `clocks` = the samples its node creations read, in order *)
Definition stmt (s : st) (sh : shape) (clocks : list N) : st * bool := claim_all s (wanted sh clocks).

Definition commit (s : st) : st := {| committed := committed s ++ pending s; pending := [] |}.
Definition abandon (s : st) : st := {| committed := committed s; pending := [] |}.

Inductive op :=
| OStmt (sh : shape) (clocks : list N)   (* a creating statement inside the open transaction *)
| OCommit
| OAbandon
| OCompact
| OReopen.                     (* an open transaction is lost *)

Definition step (s : st) (o : op) : st * bool :=
  match o with
  | OStmt sh c => stmt s sh c
  | OCommit => (commit s, true)
  | OAbandon => (abandon s, true)
  | OCompact => (s, true)
  | OReopen => (abandon s, true)
  end.

(* run a history; the result also says whether every statement succeeded *)
Fixpoint run (s : st) (h : list op) : st * bool :=
  match h with
  | [] => (s, true)
  | o :: t => let '(s1, ok1) := step s o in let '(s2, ok2) := run s1 t in (s2, ok1 && ok2)
  end.

(* the nodes of the database: (internal id, external id) *)
Fixpoint number (i : N) (l : list N) : list (N * N) :=
  match l with [] => [] | e :: t => (i, e) :: number (N.succ i) t end.
Definition nodes (s : st) : list (N * N) := number 0 (committed s).

Fixpoint nodupb (l : list N) : bool :=
  match l with [] => true | x :: t => negb (memN x t) && nodupb t end.

(* KnownClass K-C32-clock: the statement asks for an id that is already taken, or for
   the same id twice *)
Definition collides (s : st) (sh : shape) (clocks : list N) : bool :=
  negb (nodupb (wanted sh clocks)) || existsb (is_used s) (wanted sh clocks).
