(* IdAlloc/Model_proofs.v — PROOFS about IdAlloc/Model.v. *)
From Coq Require Import Lia ZifyBool ZifyN.
From NDB Require Import IdAlloc.Model.
Open Scope N_scope.

Lemma memN_In : forall x l, memN x l = true <-> In x l.
Proof.
  intros x l. unfold memN. rewrite existsb_exists. split.
  - intros [y [Hy E]]. apply N.eqb_eq in E. subst; auto.
  - intro H. exists x. split; auto. apply N.eqb_refl.
Qed.
Lemma memN_false : forall x l, memN x l = false <-> ~ In x l.
Proof. intros. rewrite <- memN_In. destruct (memN x l); split; congruence. Qed.

Lemma memN_app : forall x a b, memN x (a ++ b) = memN x a || memN x b.
Proof. intros. unfold memN. apply existsb_app. Qed.

Lemma nodupb_NoDup : forall l, nodupb l = true <-> NoDup l.
Proof.
  induction l as [|x t IH]; cbn.
  - split; auto. constructor.
  - rewrite andb_true_iff, negb_true_iff, memN_false, IH. split.
    + intros [A B]. constructor; auto.
    + intro H. inversion H; auto.
Qed.

(* ---------------------------------------------------------------- uniqueness, for every clock *)
Definition wf (s : st) : Prop := NoDup (committed s ++ pending s).

Lemma is_used_In : forall s e, is_used s e = true <-> In e (committed s ++ pending s).
Proof. intros. unfold is_used. rewrite orb_true_iff, !memN_In, in_app_iff. tauto. Qed.

Lemma NoDup_snoc : forall (l : list N) e, NoDup l -> ~ In e l -> NoDup (l ++ [e]).
Proof.
  induction l as [|h t IH]; intros e Hd Hn; cbn.
  - constructor; [intros []|constructor].
  - inversion Hd; subst. constructor.
    + rewrite in_app_iff. intros [H|[H|[]]]; auto. subst. apply Hn. left; auto.
    + apply IH; auto. intro H. apply Hn. right; auto.
Qed.

Lemma NoDup_app_l : forall (a b : list N), NoDup (a ++ b) -> NoDup a.
Proof.
  induction a as [|h t IH]; intros b H; [constructor|]. cbn in H. inversion H; subst.
  constructor; [|eapply IH; eauto]. intro Hin. apply H2. apply in_or_app. auto.
Qed.

Lemma claim_all_wf : forall ids s, wf s -> wf (fst (claim_all s ids)).
Proof.
  induction ids as [|e r IH]; intros s W; cbn [claim_all]; auto.
  destruct (is_used s e) eqn:U; auto.
  apply IH. unfold wf in *. cbn. rewrite app_assoc. apply NoDup_snoc; auto.
  intro H. apply is_used_In in H. congruence.
Qed.

Lemma claim_all_committed : forall ids s, committed (fst (claim_all s ids)) = committed s.
Proof.
  induction ids as [|e r IH]; intros s; cbn [claim_all]; auto.
  destruct (is_used s e); auto. rewrite IH. reflexivity.
Qed.

Lemma step_wf : forall s o, wf s -> wf (fst (step s o)).
Proof.
  intros s o W. destruct o; cbn [step fst]; auto.
  - apply claim_all_wf; auto.
  - unfold wf, commit in *. cbn. rewrite app_nil_r. exact W.
  - unfold wf, abandon in *. cbn. rewrite app_nil_r. apply NoDup_app_l in W. exact W.
  - unfold wf, abandon in *. cbn. rewrite app_nil_r. apply NoDup_app_l in W. exact W.
Qed.

Lemma run_wf : forall h s, wf s -> wf (fst (run s h)).
Proof.
  induction h as [|o t IH]; intros s W; cbn [run]; auto.
  destruct (step s o) as [s1 ok1] eqn:E. specialize (IH s1).
  destruct (run s1 t) as [s2 ok2] eqn:R. cbn. cbn in IH. apply IH.
  pose proof (step_wf s o W) as H. rewrite E in H. exact H.
Qed.

Lemma number_fst_lt : forall l i p, In p (number i l) -> i <= fst p.
Proof.
  induction l as [|e t IH]; intros i p H; cbn in H; [contradiction|].
  destruct H as [<-|H]; cbn; [lia|]. apply IH in H. lia.
Qed.
Lemma number_nodup_fst : forall l i, NoDup (map fst (number i l)).
Proof.
  induction l as [|e t IH]; intros i; cbn; constructor; auto.
  intro H. apply in_map_iff in H. destruct H as [p [E Hp]]. apply number_fst_lt in Hp. lia.
Qed.
Lemma number_snd : forall l i, map snd (number i l) = l.
Proof. induction l as [|e t IH]; intros i; cbn; [|rewrite IH]; reflexivity. Qed.

(* every history, whatever the clock does: external ids pairwise different, internal
   ids pairwise different *)
Theorem ids_unique : forall h,
  let s := fst (run empty h) in
  NoDup (map snd (nodes s)) /\ NoDup (map fst (nodes s)).
Proof.
  intros h s. split.
  - unfold nodes. rewrite number_snd.
    assert (W : wf s). { apply run_wf. unfold wf. cbn. constructor. }
    unfold wf in W. apply NoDup_app_l in W. exact W.
  - apply number_nodup_fst.
Qed.

(* ---------------------------------------------------------------- stability *)
Lemma step_prefix : forall s o, exists l, committed (fst (step s o)) = committed s ++ l.
Proof.
  intros s o. destruct o; cbn [step fst].
  - exists []. unfold stmt. rewrite claim_all_committed, app_nil_r. reflexivity.
  - exists (pending s). reflexivity.
  - exists []. cbn. rewrite app_nil_r. reflexivity.
  - exists []. rewrite app_nil_r. reflexivity.
  - exists []. cbn. rewrite app_nil_r. reflexivity.
Qed.

Lemma run_prefix : forall h s, exists l, committed (fst (run s h)) = committed s ++ l.
Proof.
  induction h as [|o t IH]; intros s; cbn [run].
  - exists []. cbn. rewrite app_nil_r. reflexivity.
  - destruct (step s o) as [s1 ok1] eqn:E. destruct (IH s1) as [l2 H2].
    destruct (run s1 t) as [s2 ok2]. cbn in *. destruct (step_prefix s o) as [l1 H1]. rewrite E in H1. cbn in H1.
    exists (l1 ++ l2). rewrite H2, H1, app_assoc. reflexivity.
Qed.

Lemma number_app : forall a b i, number i (a ++ b) = number i a ++ number (i + N.of_nat (length a)) b.
Proof.
  induction a as [|x t IH]; intros b i; cbn [number app length].
  - replace (i + N.of_nat 0) with i by lia. reflexivity.
  - rewrite IH. cbn. f_equal. f_equal. f_equal. lia.
Qed.

(* a node keeps its (internal id, external id) through any continuation of the history:
   later statements, commits, abandoned transactions, compaction, reopen *)
Theorem ids_stable : forall h1 h2 p,
  In p (nodes (fst (run empty h1))) ->
  In p (nodes (fst (run (fst (run empty h1)) h2))).
Proof.
  intros h1 h2 p H. destruct (run_prefix h2 (fst (run empty h1))) as [l E].
  unfold nodes in *. rewrite E, number_app. apply in_or_app. auto.
Qed.

Lemma run_app : forall h1 h2 s, fst (run s (h1 ++ h2)) = fst (run (fst (run s h1)) h2).
Proof.
  induction h1 as [|o t IH]; intros h2 s; cbn [run app]; auto.
  destruct (step s o) as [s1 ok1]. specialize (IH h2 s1).
  destruct (run s1 (t ++ h2)) as [a b]. destruct (run s1 t) as [c d]. cbn in *. exact IH.
Qed.

(* ---------------------------------------------------------------- when a statement fails *)
Lemma is_used_snoc : forall s e x,
  is_used {| committed := committed s; pending := pending s ++ [e] |} x = is_used s x || (x =? e).
Proof.
  intros. unfold is_used. cbn [committed pending]. rewrite memN_app. unfold memN at 3. cbn [existsb]. rewrite orb_false_r, orb_assoc. reflexivity.
Qed.

Lemma existsb_used_snoc : forall l s e,
  existsb (is_used {| committed := committed s; pending := pending s ++ [e] |}) l
  = existsb (is_used s) l || memN e l.
Proof.
  induction l as [|x t IH]; intros s e; cbn [existsb]; [reflexivity|].
  rewrite is_used_snoc, IH. unfold memN. cbn [existsb]. rewrite (N.eqb_sym e x).
  destruct (is_used s x), (x =? e), (existsb (is_used s) t), (existsb (N.eqb e) t); reflexivity.
Qed.

Lemma claim_all_ok : forall ids s,
  snd (claim_all s ids) = nodupb ids && negb (existsb (is_used s) ids).
Proof.
  induction ids as [|e r IH]; intros s; cbn [claim_all nodupb existsb]; auto.
  destruct (is_used s e) eqn:U; cbn [snd].
  - cbn. rewrite andb_false_r. reflexivity.
  - rewrite IH, existsb_used_snoc. cbn.
    destruct (memN e r), (nodupb r), (existsb (is_used s) r); reflexivity.
Qed.

(* a statement succeeds exactly when it is outside the class K-C32-clock *)
Theorem stmt_ok_iff : forall s sh clocks, snd (stmt s sh clocks) = negb (collides s sh clocks).
Proof.
  intros. unfold stmt, collides. rewrite claim_all_ok.
  destruct (nodupb (wanted sh clocks)), (existsb (is_used s) (wanted sh clocks)); reflexivity.
Qed.

Definition one : shape := {| nn := 1; ne := 0 |}.

(* "never fails whatever the clock does" is refuted: a stalled clock across two
   statements, and a clock stepping back inside one statement *)
Theorem alloc_fails_stalled : snd (run empty [OStmt one [5]; OCommit; OStmt one [5]]) = false.
Proof. vm_compute. reflexivity. Qed.
Theorem alloc_fails_backwards : snd (run empty [OStmt one [5; 4]]) = false.
Proof. vm_compute. reflexivity. Qed.
(* a strictly increasing clock is not enough either: three nodes at 10,11,12 take the
   ids 10,12,14 and the next statement at 14 collides *)
Theorem alloc_fails_increasing : snd (run empty [OStmt one [10; 11; 12]; OCommit; OStmt one [14]]) = false.
Proof. vm_compute. reflexivity. Qed.

(* sufficient condition on the clock: samples never decrease inside the statement and
   the first one lies above every id in use *)
Fixpoint nondecreasing (l : list N) : Prop :=
  match l with
  | [] => True
  | x :: t => match t with [] => True | y :: _ => x <= y end /\ nondecreasing t
  end.

(* every element is >= lo and each next one is larger than the previous *)
Fixpoint increasing_from (lo : N) (l : list N) : Prop :=
  match l with [] => True | x :: t => lo <= x /\ increasing_from (N.succ x) t end.

Lemma claim_all_above : forall ids s lo,
  (forall u, In u (committed s ++ pending s) -> u < lo) ->
  increasing_from lo ids ->
  snd (claim_all s ids) = true.
Proof.
  induction ids as [|e r IH]; intros s lo Hb Hs; cbn [claim_all]; auto.
  destruct Hs as [Hle Hs].
  destruct (is_used s e) eqn:U.
  - exfalso. apply is_used_In in U. specialize (Hb _ U). lia.
  - eapply IH with (lo := N.succ e); auto.
    intros u Hu. cbn in Hu. rewrite app_assoc, in_app_iff in Hu. destruct Hu as [Hu|[<-|[]]].
    + specialize (Hb _ Hu). lia.
    + lia.
Qed.

Lemma wanted_from_increasing : forall clocks sh count j lo,
  nondecreasing clocks ->
  (forall t, hd_error clocks = Some t -> lo <= count + t) ->
  increasing_from lo (wanted_from sh count j clocks).
Proof.
  induction clocks as [|t r IH]; intros sh count j lo ND Hlo; cbn [wanted_from increasing_from]; auto.
  split; [apply Hlo; reflexivity|].
  destruct ND as [Hle ND].
  destruct (nn sh <=? N.succ j); apply IH; auto; intros t' Ht'; destruct r as [|y r']; try discriminate;
    cbn in Ht'; inversion Ht'; subst; unfold ext_id; lia.
Qed.

Theorem stmt_ok_spaced : forall s sh clocks,
  nondecreasing clocks ->
  (forall t, hd_error clocks = Some t -> forall u, In u (committed s ++ pending s) -> u < t) ->
  snd (stmt s sh clocks) = true.
Proof.
  intros s sh clocks ND Hb. unfold stmt, wanted.
  destruct clocks as [|t0 r]; [reflexivity|].
  eapply claim_all_above with (lo := t0).
  - intros u Hu. apply (Hb t0 eq_refl u Hu).
  - apply wanted_from_increasing; auto. intros t Ht. cbn in Ht. inversion Ht; subst. lia.
Qed.

(* non-vacuity: a history with several statements per transaction, an abandoned
   transaction, compaction and reopen; all statements succeed and five nodes exist *)
Example run_example :
  run empty [OStmt one [100; 100; 101]; OStmt {| nn := 2; ne := 1 |} [200; 200; 200; 200]; OCommit;
             OStmt one [300; 300]; OAbandon; OCompact; OStmt one [400]; OCommit; OReopen] =
  ({| committed := [100; 101; 103; 200; 201; 203; 204; 400]; pending := [] |}, true).
Proof. vm_compute. reflexivity. Qed.
