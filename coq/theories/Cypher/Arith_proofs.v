(* Cypher/Arith_proofs.v — null propagation and the single integer-overflow rule (C23). *)
From NDB Require Import Base.Bytes Cypher.Value Cypher.Compare Cypher.Logic Cypher.Arith Cypher.Eval.
From Coq Require Import Lia.
Local Open Scope Z_scope.

(* ---------- null propagation ---------- *)
Definition strict_binop (o : binop) : bool :=
  match o with BAnd | BOr | BXor => false | _ => true end.

Lemma cy_cmp_null_l tp b : cy_cmp tp VNull b = CNull.
Proof. reflexivity. Qed.
Lemma cy_cmp_null_r tp a : cy_cmp tp a VNull = CNull.
Proof. now destruct a. Qed.
Lemma cy_eq_null_r a : cy_eq a VNull = None.
Proof. now destruct a. Qed.

Theorem null_propagates_bin tp o a :
  strict_binop o = true ->
  apply_bin tp o VNull a = Some VNull /\ apply_bin tp o a VNull = Some VNull.
Proof.
  destruct o; try discriminate; intros _; cbn;
    unfold cy_neq, cy_lt, cy_le, cy_gt, cy_ge; rewrite ?cy_cmp_null_r, ?cy_eq_null_r; cbn;
    (split; [reflexivity|]); destruct a as [| | | | | | | | |]; try reflexivity.
Qed.

(* XOR also propagates null; AND and OR are the Kleene connectives (Logic_proofs) *)
Theorem null_propagates_xor a : v_xor VNull a = VNull /\ v_xor a VNull = VNull.
Proof. split; [reflexivity|]. destruct a as [|[]| | | | | | | |]; reflexivity. Qed.

Theorem null_propagates_un :
  v_not VNull = VNull /\ v_neg VNull = VNull /\ v_abs VNull = VNull.
Proof. repeat split. Qed.

(* ---------- one overflow rule ---------- *)
(* exact result if it is an i64, otherwise the float computed from the operands *)
Definition ovf_rule (exact : Z) (fallback : float) : value :=
  if in_i64 exact then VInt exact else VFloat fallback.

Theorem overflow_rule x y :
  v_add (VInt x) (VInt y) = ovf_rule (x + y) (PrimFloat.add (f_of_int x) (f_of_int y)) /\
  v_sub (VInt x) (VInt y) = ovf_rule (x - y) (PrimFloat.sub (f_of_int x) (f_of_int y)) /\
  v_mul (VInt x) (VInt y) = ovf_rule (x * y) (PrimFloat.mul (f_of_int x) (f_of_int y)) /\
  v_neg (VInt x) = ovf_rule (- x) (PrimFloat.opp (f_of_int x)) /\
  v_abs (VInt x) = ovf_rule (Z.abs x) (PrimFloat.abs (f_of_int x)).
Proof. repeat split. Qed.

(* an integer result is never a wrapped one: if an operator applied to two i64
   returns an integer, it is the mathematical result, and it returns an integer
   whenever the mathematical result is an i64 *)
Lemma ovf_rule_int exact fb z : ovf_rule exact fb = VInt z <-> (z = exact /\ in_i64 exact = true).
Proof.
  unfold ovf_rule. destruct (in_i64 exact); split.
  - intros [= ->]. auto.
  - intros [-> _]. reflexivity.
  - discriminate.
  - intros [_ H]. discriminate.
Qed.

Theorem int_result_exact x y z :
  (v_add (VInt x) (VInt y) = VInt z <-> (z = x + y /\ in_i64 (x + y) = true)) /\
  (v_sub (VInt x) (VInt y) = VInt z <-> (z = x - y /\ in_i64 (x - y) = true)) /\
  (v_mul (VInt x) (VInt y) = VInt z <-> (z = x * y /\ in_i64 (x * y) = true)).
Proof.
  destruct (overflow_rule x y) as (A & S & M & _). rewrite A, S, M.
  split; [|split]; apply ovf_rule_int.
Qed.

(* reduce(acc = a, x IN xs | acc + x) over integers: the fold of v_add *)
Definition sum_fold (a : value) (xs : list Z) : value := fold_left v_add (map VInt xs) a.

Lemma add_float_int f y : exists g, v_add (VFloat f) (VInt y) = VFloat g.
Proof. cbn. eauto. Qed.

Lemma sum_fold_float f xs : exists g, sum_fold (VFloat f) xs = VFloat g.
Proof.
  revert f. induction xs as [|y xs IH]; intros f; cbn; [eauto|].
  apply IH.
Qed.

(* all prefix sums of a + xs stay inside i64 *)
Fixpoint prefixes_fit (a : Z) (xs : list Z) : bool :=
  match xs with
  | [] => true
  | y :: t => in_i64 (a + y) && prefixes_fit (a + y) t
  end.

Theorem reduce_sum_rule a xs :
  (prefixes_fit a xs = true -> sum_fold (VInt a) xs = VInt (fold_left Z.add xs a)) /\
  (prefixes_fit a xs = false -> exists g, sum_fold (VInt a) xs = VFloat g).
Proof.
  revert a. induction xs as [|y xs IH]; intros a; cbn [prefixes_fit].
  - split; [reflexivity|discriminate].
  - unfold sum_fold. cbn [map fold_left]. cbn [v_add num_binop].
    destruct (in_i64 (a + y)) eqn:E; cbn [andb].
    + apply IH.
    + split; [discriminate|]. intros _. apply sum_fold_float.
Qed.

(* the reduce expression of the evaluator is that fold *)
Lemma eval_reduce_add tp env a xs :
  eval tp env (EReduce (EVal a) (EVal (VList (map VInt xs))) (EBin BAdd (EVar 0) (EVar 1)))
  = Some (sum_fold a xs).
Proof.
  cbn. unfold sum_fold. revert a. induction xs as [|y xs IH]; intros a; cbn; [reflexivity|]. apply IH.
Qed.
