(* Cypher/Compare_proofs.v — laws of =, <, <=, >, >= on scalars (C23). *)
From NDB Require Import Base.Bytes Base.Bytes_proofs Cypher.Value Cypher.Compare Cypher.Logic.
From Coq Require Import Lia.
Local Open Scope Z_scope.

(* ---------- keys ---------- *)
Lemma ikey_mul z : ikey z = z * 2 ^ 1074.
Proof. unfold ikey, fscale. now rewrite Z.shiftl_mul_pow2 by lia. Qed.
Lemma pow1074_pos : 0 < 2 ^ 1074.
Proof. apply Z.pow_pos_nonneg; lia. Qed.
Lemma ikey_inj x y : ikey x = ikey y -> x = y.
Proof. rewrite !ikey_mul. intros H. apply Z.mul_reg_r in H; [exact H|]. pose proof pow1074_pos; lia. Qed.
Lemma ikey_compare x y : (ikey x ?= ikey y) = (x ?= y).
Proof. rewrite !ikey_mul. symmetry. apply Zmult_compare_compat_r. pose proof pow1074_pos; lia. Qed.
Global Opaque ikey.

Definition scalar_ok (v : value) : bool :=
  match v with
  | VBool _ | VInt _ | VStr _ => true
  | VFloat f => negb (f_is_nan f)
  | _ => false
  end.

Inductive skey := KB (b : bool) | KN (z : Z) | KS (s : bytes) | KNone.
Definition sc_key (v : value) : skey :=
  match v with
  | VBool b => KB b
  | VInt z => KN (ikey z)
  | VFloat f => match fkey f with Some k => KN k | None => KNone end
  | VStr s => KS s
  | _ => KNone
  end.

Lemma scalar_float f : scalar_ok (VFloat f) = true -> exists k, fkey f = Some k.
Proof. cbn. unfold f_is_nan. destruct (fkey f); [eauto|discriminate]. Qed.

Lemma num_eq_case k j :
  (Some (match Z.compare k j with Eq => true | _ => false end) = Some true /\ KN k = KN j) \/
  (Some (match Z.compare k j with Eq => true | _ => false end) = Some false /\ KN k <> KN j).
Proof.
  destruct (Z.compare_spec k j) as [E|L|L].
  - left. now subst.
  - right. split; [reflexivity|]. intros [= H]. lia.
  - right. split; [reflexivity|]. intros [= H]. lia.
Qed.

Lemma cy_eq_scalar a b :
  scalar_ok a = true -> scalar_ok b = true ->
  (cy_eq a b = Some true /\ sc_key a = sc_key b) \/ (cy_eq a b = Some false /\ sc_key a <> sc_key b).
Proof.
  intros Ha Hb.
  destruct a as [|x|x|f|s| | | | |]; try discriminate Ha;
  destruct b as [|y|y|g|t| | | | |]; try discriminate Hb;
    try (destruct (scalar_float _ Ha) as [k Hk]); try (destruct (scalar_float _ Hb) as [j Hj]);
    cbn [sc_key]; rewrite ?Hk, ?Hj;
    try (right; split; [reflexivity|discriminate]).
  - cbn. destruct (Bool.eqb x y) eqn:E.
    + left. apply Bool.eqb_prop in E. now subst.
    + right. split; [reflexivity|]. intros [= ->]. now rewrite Bool.eqb_reflx in E.
  - cbn. destruct (Z.eqb_spec x y) as [->|N]; [now left|].
    right. split; [reflexivity|]. intros [= H]. now apply ikey_inj in H.
  - cbn. unfold num_cmp, num_key. rewrite Hj.
    apply num_eq_case.
  - cbn. unfold num_cmp, num_key. rewrite Hk.
    apply num_eq_case.
  - cbn. unfold num_cmp, num_key. rewrite Hk, Hj.
    apply num_eq_case.
  - cbn. destruct (bytes_eqb s t) eqn:E.
    + left. apply bytes_eqb_eq in E. now subst.
    + right. split; [reflexivity|]. intros [= ->].
      assert (bytes_eqb t t = true) by now apply bytes_eqb_eq. congruence.
Qed.

Lemma cy_eq_scalar_iff a b :
  scalar_ok a = true -> scalar_ok b = true -> (cy_eq a b = Some true <-> sc_key a = sc_key b).
Proof.
  intros Ha Hb. destruct (cy_eq_scalar a b Ha Hb) as [[E K]|[E K]]; rewrite E; split; intros; try easy; try congruence.
Qed.

Theorem eq_refl_scalar a : scalar_ok a = true -> cy_eq a a = Some true.
Proof. intros H. now apply cy_eq_scalar_iff. Qed.
Theorem eq_sym_scalar a b : scalar_ok a = true -> scalar_ok b = true -> cy_eq a b = cy_eq b a.
Proof.
  intros Ha Hb. destruct (cy_eq_scalar a b Ha Hb) as [[E K]|[E K]], (cy_eq_scalar b a Hb Ha) as [[E' K']|[E' K']]; congruence.
Qed.
Theorem eq_trans_scalar a b c :
  scalar_ok a = true -> scalar_ok b = true -> scalar_ok c = true ->
  cy_eq a b = Some true -> cy_eq b c = Some true -> cy_eq a c = Some true.
Proof.
  intros Ha Hb Hc H1 H2. apply cy_eq_scalar_iff in H1, H2; trivial. apply cy_eq_scalar_iff; trivial. congruence.
Qed.
Theorem eq_total_scalar a b : scalar_ok a = true -> scalar_ok b = true -> cy_eq a b <> None.
Proof. intros Ha Hb. destruct (cy_eq_scalar a b Ha Hb) as [[E _]|[E _]]; rewrite E; discriminate. Qed.

(* ---------- < <= > >= on scalars ---------- *)
Definition flip_res (r : cmp_res) : cmp_res :=
  match r with COrd c => COrd (CompOpp c) | x => x end.

Lemma bool_cmp_antisym x y : bool_cmp y x = CompOpp (bool_cmp x y).
Proof. now destruct x, y. Qed.
Lemma str_cmp_antisym tp l r : str_cmp tp r l = CompOpp (str_cmp tp l r).
Proof.
  unfold str_cmp. destruct (tp l) as [[k1 a]|], (tp r) as [[k2 b]|]; try apply lex_cmp_antisym.
  rewrite (N.eqb_sym k2 k1). destruct (N.eqb k1 k2); [apply Z.compare_antisym|apply lex_cmp_antisym].
Qed.

Definition key_cmp (tp : toracle) (p q : skey) : cmp_res :=
  match p, q with
  | KN k, KN j => COrd (k ?= j)
  | KB x, KB y => COrd (bool_cmp x y)
  | KS x, KS y => COrd (str_cmp tp x y)
  | _, _ => CNull
  end.

Lemma cy_cmp_scalar tp a b :
  scalar_ok a = true -> scalar_ok b = true -> cy_cmp tp a b = key_cmp tp (sc_key a) (sc_key b).
Proof.
  intros Ha Hb.
  destruct a as [|x|x|f|s| | | | |]; try discriminate Ha;
  destruct b as [|y|y|g|t| | | | |]; try discriminate Hb;
    try (destruct (scalar_float _ Ha) as [k Hk]); try (destruct (scalar_float _ Hb) as [j Hj]);
    cbn [sc_key]; rewrite ?Hk, ?Hj; try reflexivity;
    cbn; unfold num_cmp, num_key; rewrite ?Hk, ?Hj; reflexivity.
Qed.

Lemma key_cmp_flip tp p q : key_cmp tp q p = flip_res (key_cmp tp p q).
Proof.
  destruct p, q; cbn; try reflexivity.
  - now rewrite bool_cmp_antisym.
  - now rewrite Z.compare_antisym.
  - now rewrite str_cmp_antisym.
Qed.

Lemma apply_flip p q r :
  (forall c, p (CompOpp c) = q c) -> apply_cmp p (flip_res r) = apply_cmp q r.
Proof. intros H. destruct r; cbn; trivial. now rewrite H. Qed.

(* a < b is b > a, a <= b is b >= a *)
Theorem cmp_flip_scalar tp a b :
  scalar_ok a = true -> scalar_ok b = true ->
  cy_lt tp a b = cy_gt tp b a /\ cy_le tp a b = cy_ge tp b a.
Proof.
  intros Ha Hb. unfold cy_lt, cy_gt, cy_le, cy_ge.
  rewrite (cy_cmp_scalar tp b a Hb Ha), (cy_cmp_scalar tp a b Ha Hb), (key_cmp_flip tp (sc_key a) (sc_key b)).
  split; symmetry; apply apply_flip; now intros [].
Qed.

(* < is the negation of >=, > the negation of <= (three-valued: null stays null) *)
Theorem cmp_neg_scalar tp a b :
  scalar_ok a = true -> scalar_ok b = true ->
  cy_lt tp a b = t_not (cy_ge tp a b) /\ cy_gt tp a b = t_not (cy_le tp a b).
Proof.
  intros Ha Hb. unfold cy_lt, cy_gt, cy_le, cy_ge. rewrite (cy_cmp_scalar tp a b Ha Hb).
  destruct (sc_key a), (sc_key b); cbn; try (split; reflexivity);
    match goal with |- context [is_lt ?c] => destruct c end; split; reflexivity.
Qed.

(* the known class: two strings that the temporal parser puts in the same kind *)
Definition temporal_pair (tp : toracle) (a b : value) : bool :=
  match a, b with
  | VStr x, VStr y =>
      match tp x, tp y with Some (k1, _), Some (k2, _) => N.eqb k1 k2 | _, _ => false end
  | _, _ => false
  end.

Lemma key_cmp_eq tp a b c :
  scalar_ok a = true -> scalar_ok b = true -> temporal_pair tp a b = false ->
  key_cmp tp (sc_key a) (sc_key b) = COrd c -> (c = Eq <-> sc_key a = sc_key b).
Proof.
  intros Ha Hb Ht.
  destruct a as [|x|x|f|s| | | | |]; try discriminate Ha;
  destruct b as [|y|y|g|t| | | | |]; try discriminate Hb;
    try (destruct (scalar_float _ Ha) as [k Hk]); try (destruct (scalar_float _ Hb) as [j Hj]);
    cbn [sc_key]; rewrite ?Hk, ?Hj; cbn [key_cmp]; try discriminate; intros [= <-].
  - destruct x, y; cbn; split; congruence.
  - rewrite Z.compare_eq_iff. split; congruence.
  - rewrite Z.compare_eq_iff. split; congruence.
  - rewrite Z.compare_eq_iff. split; congruence.
  - rewrite Z.compare_eq_iff. split; congruence.
  - assert (E : str_cmp tp s t = lex_cmp s t).
    { unfold str_cmp. cbn in Ht. destruct (tp s) as [[k1 ?]|], (tp t) as [[k2 ?]|]; trivial. now rewrite Ht. }
    rewrite E, lex_cmp_eq. split; congruence.
Qed.

Lemma sc_key_some a : scalar_ok a = true -> sc_key a <> KNone.
Proof.
  destruct a; try discriminate; cbn; try discriminate.
  intros H. destruct (scalar_float _ H) as [k ->]. discriminate.
Qed.
Lemma key_cmp_same tp a b :
  scalar_ok a = true -> sc_key a = sc_key b -> exists c, key_cmp tp (sc_key a) (sc_key b) = COrd c.
Proof.
  intros Ha E. pose proof (sc_key_some a Ha) as N. rewrite <- E.
  destruct (sc_key a); cbn; eauto. congruence.
Qed.

(* <= is (< or =), >= is (> or =), in three-valued logic *)
Theorem cmp_eq_consistent_scalar tp a b :
  scalar_ok a = true -> scalar_ok b = true -> temporal_pair tp a b = false ->
  cy_le tp a b = t_or (cy_lt tp a b) (cy_eq a b) /\
  cy_ge tp a b = t_or (cy_gt tp a b) (cy_eq a b).
Proof.
  intros Ha Hb Ht. unfold cy_lt, cy_gt, cy_le, cy_ge. rewrite (cy_cmp_scalar tp a b Ha Hb).
  pose proof (key_cmp_eq tp a b) as K. specialize (fun c => K c Ha Hb Ht).
  destruct (cy_eq_scalar a b Ha Hb) as [[E S]|[E S]]; rewrite E.
  - destruct (key_cmp_same tp a b Ha S) as [c Q]. rewrite Q. specialize (K c Q).
    assert (c = Eq) by now apply K. subst c. split; reflexivity.
  - destruct (key_cmp tp (sc_key a) (sc_key b)) as [| |c] eqn:Q; cbn; try (split; reflexivity).
    specialize (K c eq_refl). destruct c; cbn; split; try reflexivity; exfalso; apply S; now apply K.
Qed.

(* a = b exactly when a <= b and a >= b, for comparable scalars *)
Theorem eq_iff_le_ge_scalar tp a b :
  scalar_ok a = true -> scalar_ok b = true -> temporal_pair tp a b = false ->
  cy_le tp a b <> None ->
  (cy_eq a b = Some true <-> cy_le tp a b = Some true /\ cy_ge tp a b = Some true).
Proof.
  intros Ha Hb Ht. unfold cy_le, cy_ge. rewrite (cy_cmp_scalar tp a b Ha Hb).
  pose proof (key_cmp_eq tp a b) as K. specialize (fun c => K c Ha Hb Ht).
  rewrite (cy_eq_scalar_iff a b Ha Hb).
  destruct (key_cmp tp (sc_key a) (sc_key b)) as [| |c] eqn:Q; cbn; try congruence.
  - assert (N : sc_key a <> sc_key b).
    { intros E. rewrite E in Q. destruct (sc_key b); cbn in Q; discriminate. }
    intros _. split; [tauto|]. intros [H _]. discriminate.
  - intros _. specialize (K c eq_refl). destruct c; cbn; split; intros H; try tauto;
      try (destruct H; discriminate); try (apply K in H; discriminate); try now apply K.
Qed.

(* transitivity of < on scalars that are not temporal strings *)
Definition tp_clean (tp : toracle) (v : value) : bool :=
  match v with VStr s => match tp s with None => true | Some _ => false end | _ => true end.

Lemma str_cmp_clean tp x y : tp x = None -> str_cmp tp x y = lex_cmp x y.
Proof. unfold str_cmp. now intros ->. Qed.

Lemma bool_cmp_trans x y z : bool_cmp x y = Lt -> bool_cmp y z = Lt -> bool_cmp x z = Lt.
Proof. now destruct x, y, z. Qed.

Theorem lt_trans_scalar tp a b c :
  scalar_ok a = true -> scalar_ok b = true -> scalar_ok c = true ->
  tp_clean tp a = true -> tp_clean tp b = true -> tp_clean tp c = true ->
  cy_lt tp a b = Some true -> cy_lt tp b c = Some true -> cy_lt tp a c = Some true.
Proof.
  intros Ha Hb Hc Ta Tb Tc. unfold cy_lt.
  rewrite (cy_cmp_scalar tp a b Ha Hb), (cy_cmp_scalar tp b c Hb Hc), (cy_cmp_scalar tp a c Ha Hc).
  assert (S : forall v s, tp_clean tp v = true -> sc_key v = KS s -> tp s = None).
  { intros v s T E. destruct v; cbn in E; try discriminate.
    - destruct (fkey f); discriminate.
    - injection E as ->. cbn in T. now destruct (tp s). }
  destruct (sc_key a) eqn:Ka, (sc_key b) eqn:Kb, (sc_key c) eqn:Kc; cbn; try discriminate.
  - destruct (bool_cmp b0 b1) eqn:E1; try discriminate. destruct (bool_cmp b1 b2) eqn:E2; try discriminate.
    now rewrite (bool_cmp_trans _ _ _ E1 E2).
  - destruct (z ?= z0) eqn:E1; try discriminate. destruct (z0 ?= z1) eqn:E2; try discriminate.
    intros _ _. rewrite Z.compare_lt_iff in *. assert (z < z1) by lia. rewrite <- Z.compare_lt_iff in H. now rewrite H.
  - rewrite !(str_cmp_clean tp s) by exact (S _ _ Ta Ka). rewrite (str_cmp_clean tp s0) by exact (S _ _ Tb Kb).
    destruct (lex_cmp s s0) eqn:E1; try discriminate. destruct (lex_cmp s0 s1) eqn:E2; try discriminate.
    intros _ _. now rewrite (lex_lt_trans _ _ _ E1 E2).
Qed.

(* int vs float: the comparison is the exact one, for every i64 and every non-NaN double *)
Theorem int_float_exact tp x f k :
  fkey f = Some k ->
  cy_eq (VInt x) (VFloat f) = Some (ikey x =? k) /\
  cy_lt tp (VInt x) (VFloat f) = Some (ikey x <? k) /\
  cy_le tp (VInt x) (VFloat f) = Some (ikey x <=? k) /\
  cy_gt tp (VInt x) (VFloat f) = Some (k <? ikey x) /\
  cy_ge tp (VInt x) (VFloat f) = Some (k <=? ikey x).
Proof.
  intros Hk. unfold cy_lt, cy_le, cy_gt, cy_ge. cbn. unfold num_cmp, num_key. rewrite Hk. cbn.
  rewrite Z.eqb_compare, Z.ltb_compare, Z.leb_compare, (Z.ltb_compare k), (Z.leb_compare k), (Z.compare_antisym (ikey x) k).
  destruct (ikey x ?= k); repeat split; reflexivity.
Qed.
Theorem int_int_exact tp x y :
  cy_eq (VInt x) (VInt y) = Some (x =? y) /\
  cy_lt tp (VInt x) (VInt y) = Some (x <? y) /\
  cy_le tp (VInt x) (VInt y) = Some (x <=? y).
Proof.
  unfold cy_lt, cy_le. cbn. unfold num_cmp, num_key. rewrite ikey_compare, Z.ltb_compare, Z.leb_compare.
  destruct (x ?= y); repeat split; reflexivity.
Qed.

(* ---------- concrete instances (non-vacuity; old witnesses of the repaired defect) ---------- *)
Example fkey_two53 : fkey 0x1p+53%float = Some (ikey 9007199254740992).
Proof. vm_compute. reflexivity. Qed.
Example i2f_witness_eq : cy_eq (VInt 9007199254740993) (VFloat 0x1p+53%float) = Some false.
Proof. vm_compute. reflexivity. Qed.
Example i2f_witness_gt : cy_gt no_temporal (VInt 9007199254740993) (VFloat 0x1p+53%float) = Some true.
Proof. vm_compute. reflexivity. Qed.
Example i2f_witness_max : cy_lt no_temporal (VInt 9223372036854775807) (VFloat 0x1p+63%float) = Some true.
Proof. vm_compute. reflexivity. Qed.
Example scalar_ok_instances :
  scalar_ok (VFloat 0x1p-1074%float) = true /\ scalar_ok (VFloat infinity) = true /\ scalar_ok (VFloat nan) = false.
Proof. vm_compute. repeat split. Qed.

(* the temporal-string defect (K-C23-temporal): with the engine's classification of
   "20200101" and "2020-01-01" (both the date 2020-01-01), <= and >= hold but = does not *)
Definition temporal_witness_tp : toracle :=
  fun s => if bytes_eqb s [50;48;50;48;48;49;48;49]%N then Some (0%N, 2020001)
           else if bytes_eqb s [50;48;50;48;45;48;49;45;48;49]%N then Some (0%N, 2020001) else None.
Lemma temporal_refuted :
  exists tp a b, scalar_ok a = true /\ scalar_ok b = true /\
    cy_le tp a b = Some true /\ cy_ge tp a b = Some true /\ cy_eq a b = Some false.
Proof.
  exists temporal_witness_tp, (VStr [50;48;50;48;48;49;48;49]%N), (VStr [50;48;50;48;45;48;49;45;48;49]%N).
  vm_compute. repeat split.
Qed.
