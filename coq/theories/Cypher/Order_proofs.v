(* Cypher/Order_proofs.v — the ORDER BY comparator `order_cmp` is a total preorder on ALL
   values whose strings (at any depth) are not temporal: nested lists, maps, ids, paths, numbers
   with NaN, nulls (C20).  Generic part: comparators that are "good" at a point (antisymmetric,
   Eq is a congruence, Lt is transitive), closed under lexicographic lists, pairs and sums by
   class. *)
From NDB Require Import Base.Bytes Base.Bytes_proofs Cypher.Value Cypher.Compare Cypher.Compare_proofs.
From NDB Require Import Gen.Consts.
From Coq Require Import Lia.
Local Open Scope Z_scope.

Section Good.
  Context {A : Type} (c : A -> A -> comparison) (P : A -> Prop).
  Record good_at (x : A) : Prop := mk_good {
    gA : forall y, P y -> c y x = CompOpp (c x y);
    gB : forall y z, P y -> P z -> c x y = Eq -> c x z = c y z;
    gC : forall y z, P y -> P z -> c x y = Lt -> c y z = Lt -> c x z = Lt;
    gD : forall y z, P y -> P z -> c y z = Eq -> c x y = c x z }.

  Definition cle' (a b : A) : bool := match c a b with Gt => false | _ => true end.

  (* what sorting needs *)
  Lemma good_refl x : P x -> good_at x -> c x x = Eq.
  Proof. intros Px G. pose proof (gA x G x Px) as H. destruct (c x x); cbn in H; congruence. Qed.
  Lemma good_total x y : P x -> P y -> good_at x -> cle' x y = true \/ cle' y x = true.
  Proof. intros Px Py G. unfold cle'. rewrite (gA x G y Py). destruct (c x y); cbn; auto. Qed.
  Lemma good_trans x y z : P x -> P y -> P z -> good_at x ->
    cle' x y = true -> cle' y z = true -> cle' x z = true.
  Proof.
    intros Px Py Pz G. unfold cle'.
    destruct (c x y) eqn:E1; try discriminate; destruct (c y z) eqn:E2; try discriminate; intros _ _.
    - now rewrite (gB x G y z Py Pz E1), E2.
    - now rewrite (gB x G y z Py Pz E1), E2.
    - now rewrite <- (gD x G y z Py Pz E2), E1.
    - now rewrite (gC x G y z Py Pz E1 E2).
  Qed.
End Good.
Arguments good_at {A} c P x.

(* weakening the class of opponents *)
Lemma good_weaken {A} (c : A -> A -> comparison) (P Q : A -> Prop) x :
  (forall y, Q y -> P y) -> good_at c P x -> good_at c Q x.
Proof. intros H [a b cc d]. constructor; eauto. Qed.

(* transport along a reshaping map *)
Lemma good_map {A B} (g : A -> B) (c : A -> A -> comparison) (c' : B -> B -> comparison) (P' : B -> Prop) x :
  (forall a b, c a b = c' (g a) (g b)) -> good_at c' P' (g x) -> good_at c (fun y => P' (g y)) x.
Proof.
  intros H [a b cc d]. constructor.
  - intros y Py. rewrite !H. now apply a.
  - intros y z Py Pz. rewrite !H. now apply b.
  - intros y z Py Pz. rewrite !H. now apply cc.
  - intros y z Py Pz. rewrite !H. now apply d.
Qed.

(* ---------- comparators that are good everywhere ---------- *)
Lemma good_Z x : good_at Z.compare (fun _ => True) x.
Proof.
  constructor; intros.
  - apply Z.compare_antisym.
  - apply Z.compare_eq in H1. now subst.
  - rewrite Z.compare_lt_iff in *. lia.
  - apply Z.compare_eq in H1. now subst.
Qed.
Lemma good_N x : good_at N.compare (fun _ => True) x.
Proof.
  constructor; intros.
  - apply N.compare_antisym.
  - apply N.compare_eq in H1. now subst.
  - rewrite N.compare_lt_iff in *. lia.
  - apply N.compare_eq in H1. now subst.
Qed.
Lemma good_bool x : good_at bool_cmp (fun _ => True) x.
Proof. constructor; intros; destruct x; try destruct y; try destruct z; cbn in *; congruence. Qed.
Lemma good_lex_cmp x : good_at lex_cmp (fun _ => True) x.
Proof.
  constructor; intros.
  - apply lex_cmp_antisym.
  - apply lex_cmp_eq in H1. now subst.
  - exact (lex_lt_trans _ _ _ H1 H2).
  - apply lex_cmp_eq in H1. now subst.
Qed.

(* ---------- lexicographic lists ---------- *)
Section Lex.
  Context {A : Type} (c : A -> A -> comparison) (P : A -> Prop).
  Notation PL := (fun l => Forall P l).

  Lemma lex_good l1 : Forall (good_at c P) l1 -> good_at (lex_by c) PL l1.
  Proof.
    induction 1 as [|x t G _ IH].
    - constructor.
      + intros [|y ty] _; reflexivity.
      + intros [|y ty] z _ _ H; [reflexivity|discriminate H].
      + intros [|y ty] [|z tz] _ _ H1 H2; try discriminate H1; try discriminate H2; reflexivity.
      + intros [|y ty] [|z tz] _ _ H; try discriminate H; reflexivity.
    - destruct IH as [iA iB iC iD]. constructor.
      + intros [|y ty] Py; [reflexivity|]. inversion Py; subst. cbn.
        rewrite (gA c P x G y) by assumption. destruct (c x y); cbn; auto.
      + intros [|y ty] z Py Pz H; [discriminate H|]. inversion Py; subst. cbn in H.
        destruct (c x y) eqn:E; try discriminate H.
        destruct z as [|z tz]; [reflexivity|]. inversion Pz; subst. cbn.
        rewrite (gB c P x G y z) by assumption. destruct (c y z); auto.
      + intros [|y ty] [|z tz] Py Pz H1 H2; try discriminate H1; try discriminate H2.
        inversion Py; subst. inversion Pz; subst. cbn in *.
        destruct (c x y) eqn:E1; try discriminate H1; destruct (c y z) eqn:E2; try discriminate H2.
        * rewrite (gB c P x G y z) by assumption. rewrite E2. eauto.
        * rewrite (gB c P x G y z) by assumption. now rewrite E2.
        * rewrite <- (gD c P x G y z) by assumption. now rewrite E1.
        * now rewrite (gC c P x G y z).
      + intros [|y ty] [|z tz] Py Pz H; try discriminate H; try reflexivity.
        inversion Py; subst. inversion Pz; subst. cbn in *.
        destruct (c y z) eqn:E; try discriminate H.
        rewrite (gD c P x G y z) by assumption. destruct (c x z); auto.
  Qed.
End Lex.

(* ---------- pairs: first component, then second ---------- *)
Definition plex {A B} (c1 : A -> A -> comparison) (c2 : B -> B -> comparison) (p q : A * B) : comparison :=
  match c1 (fst p) (fst q) with Eq => c2 (snd p) (snd q) | o => o end.

Lemma plex_good {A B} (c1 : A -> A -> comparison) (c2 : B -> B -> comparison) P1 P2 a b :
  good_at c1 P1 a -> good_at c2 P2 b ->
  good_at (plex c1 c2) (fun p => P1 (fst p) /\ P2 (snd p)) (a, b).
Proof.
  intros G1 G2. constructor; unfold plex; cbn.
  - intros [y1 y2] [H1 H2]; cbn in *. rewrite (gA c1 P1 a G1 y1 H1). destruct (c1 a y1); cbn; auto.
    now apply (gA c2 P2 b G2).
  - intros [y1 y2] [z1 z2] [H1 H2] [K1 K2]; cbn in *.
    destruct (c1 a y1) eqn:E; try discriminate. intros Ht.
    rewrite (gB c1 P1 a G1 y1 z1) by assumption. destruct (c1 y1 z1); auto.
    now apply (gB c2 P2 b G2).
  - intros [y1 y2] [z1 z2] [H1 H2] [K1 K2]; cbn in *.
    destruct (c1 a y1) eqn:E1; try discriminate; destruct (c1 y1 z1) eqn:E2; try discriminate; intros T1 T2.
    + rewrite (gB c1 P1 a G1 y1 z1) by assumption. rewrite E2. now apply (gC c2 P2 b G2 y2 z2).
    + rewrite (gB c1 P1 a G1 y1 z1) by assumption. now rewrite E2.
    + rewrite <- (gD c1 P1 a G1 y1 z1) by assumption. now rewrite E1.
    + now rewrite (gC c1 P1 a G1 y1 z1).
  - intros [y1 y2] [z1 z2] [H1 H2] [K1 K2]; cbn in *.
    destruct (c1 y1 z1) eqn:E; try discriminate. intros Ht.
    rewrite (gD c1 P1 a G1 y1 z1) by assumption. destruct (c1 a z1); auto.
    now apply (gD c2 P2 b G2).
Qed.

(* ---------- sums by class: different classes compare by class number ---------- *)
Section ByClass.
  Context {A : Type} (c : A -> A -> comparison) (P : A -> Prop) (cl : A -> N).
  Hypothesis c_class : forall a b, P a -> P b ->
    c a b = match N.compare (cl a) (cl b) with Eq => c a b | o => o end.

  Lemma class_ne a b : P a -> P b -> cl a <> cl b -> c a b = N.compare (cl a) (cl b).
  Proof.
    intros Pa Pb N0. rewrite (c_class a b Pa Pb).
    destruct (N.compare_spec (cl a) (cl b)); congruence.
  Qed.
  Lemma class_eq_of_Eq a b : P a -> P b -> c a b = Eq -> cl a = cl b.
  Proof.
    intros Pa Pb E. destruct (N.eq_dec (cl a) (cl b)) as [H|H]; [exact H|].
    rewrite (class_ne a b Pa Pb H) in E. now apply N.compare_eq in E.
  Qed.

  Lemma by_class_good x : P x -> good_at c (fun y => P y /\ cl y = cl x) x -> good_at c P x.
  Proof.
    intros Px [sA sB sC sD]. constructor.
    - intros y Py. destruct (N.eq_dec (cl y) (cl x)) as [E|E]; [now apply sA|].
      rewrite (class_ne y x Py Px E), (class_ne x y Px Py (not_eq_sym E)). apply N.compare_antisym.
    - intros y z Py Pz H. pose proof (class_eq_of_Eq x y Px Py H) as Exy.
      destruct (N.eq_dec (cl z) (cl x)) as [E|E]; [apply sB; auto|].
      rewrite (class_ne x z Px Pz (not_eq_sym E)), (class_ne y z Py Pz) by congruence. now rewrite Exy.
    - intros y z Py Pz H1 H2.
      destruct (N.eq_dec (cl y) (cl x)) as [E1|E1]; destruct (N.eq_dec (cl z) (cl y)) as [E2|E2].
      + apply (sC y z); auto. split; [auto|congruence].
      + rewrite (class_ne y z Py Pz (not_eq_sym E2)) in H2.
        rewrite (class_ne x z Px Pz) by congruence. now rewrite <- E1.
      + rewrite (class_ne x y Px Py (not_eq_sym E1)) in H1.
        rewrite (class_ne x z Px Pz) by congruence. now rewrite E2.
      + rewrite (class_ne x y Px Py (not_eq_sym E1)) in H1. rewrite (class_ne y z Py Pz (not_eq_sym E2)) in H2.
        rewrite N.compare_lt_iff in H1, H2.
        assert (L : (cl x < cl z)%N) by lia. rewrite (class_ne x z Px Pz) by lia. now apply N.compare_lt_iff.
    - intros y z Py Pz H. pose proof (class_eq_of_Eq y z Py Pz H) as Eyz.
      destruct (N.eq_dec (cl y) (cl x)) as [E|E]; [apply sD; auto; split; auto; congruence|].
      rewrite (class_ne x y Px Py (not_eq_sym E)), (class_ne x z Px Pz) by congruence. now rewrite Eyz.
  Qed.
End ByClass.

(* ---------- induction over nested values ---------- *)
Section ValueInd.
  Variable Q : value -> Prop.
  Hypothesis HNull : Q VNull.
  Hypothesis HBool : forall b, Q (VBool b).
  Hypothesis HInt : forall z, Q (VInt z).
  Hypothesis HFloat : forall f, Q (VFloat f).
  Hypothesis HStr : forall s, Q (VStr s).
  Hypothesis HList : forall l, Forall Q l -> Q (VList l).
  Hypothesis HMap : forall m, Forall (fun kv => Q (snd kv)) m -> Q (VMap m).
  Hypothesis HNode : forall n, Q (VNode n).
  Hypothesis HRel : forall a b c, Q (VRel a b c).
  Hypothesis HPath : forall n e, Q (VPath n e).
  Fixpoint value_ind' (v : value) : Q v :=
    match v with
    | VNull => HNull
    | VBool b => HBool b
    | VInt z => HInt z
    | VFloat f => HFloat f
    | VStr s => HStr s
    | VList l => HList l ((fix go (l : list value) : Forall Q l :=
                             match l with [] => Forall_nil _ | x :: t => Forall_cons x (value_ind' x) (go t) end) l)
    | VMap m => HMap m ((fix go (m : list (bytes * value)) : Forall (fun kv => Q (snd kv)) m :=
                           match m with [] => Forall_nil _ | kv :: t => Forall_cons kv (value_ind' (snd kv)) (go t) end) m)
    | VNode n => HNode n
    | VRel a b c => HRel a b c
    | VPath n e => HPath n e
    end.
End ValueInd.

(* ---------- the values on which ORDER BY is an order ---------- *)
(* no string that the temporal parser accepts, at any depth (K-C20-temporal excluded) *)
Fixpoint ogood (tp : toracle) (v : value) : bool :=
  match v with
  | VStr s => match tp s with None => true | Some _ => false end
  | VList l => (fix go (l : list value) : bool := match l with [] => true | x :: t => ogood tp x && go t end) l
  | VMap m => (fix go (m : list (bytes * value)) : bool :=
                 match m with [] => true | kv :: t => ogood tp (snd kv) && go t end) m
  | _ => true
  end.
Definition og tp (v : value) : Prop := ogood tp v = true.

Lemma ogood_list tp l : og tp (VList l) <-> Forall (og tp) l.
Proof.
  unfold og. cbn. induction l as [|x t IH]; [split; constructor|].
  rewrite Bool.andb_true_iff, IH. split; [intros []; now constructor|intros H; inversion H; auto].
Qed.
Lemma ogood_map tp m : og tp (VMap m) <-> Forall (fun kv => og tp (snd kv)) m.
Proof.
  unfold og. cbn. induction m as [|x t IH]; [split; constructor|].
  rewrite Bool.andb_true_iff, IH. split; [intros []; now constructor|intros H; inversion H; auto].
Qed.

(* the recursive cases of order_t are lexicographic in order_cmp *)
Definition entry_cmp (tp : toracle) : bytes * value -> bytes * value -> comparison := plex lex_cmp (order_cmp tp).

Lemma order_t_list tp l r : order_t tp (VList l) (VList r) = lex_by (order_cmp tp) l r.
Proof.
  revert r. induction l as [|x t IH]; intros [|y ty]; try reflexivity.
  cbn [lex_by]. rewrite <- IH. cbn [order_t]. unfold order_cmp.
  destruct x, y; reflexivity.
Qed.
Lemma order_t_map tp l r : order_t tp (VMap l) (VMap r) = lex_by (entry_cmp tp) l r.
Proof.
  revert r. induction l as [|[k x] t IH]; intros [|[k' y] ty]; try reflexivity.
  cbn [lex_by]. rewrite <- IH. cbn [order_t]. unfold entry_cmp, plex, order_cmp. cbn [fst snd].
  destruct (lex_cmp k k'); try reflexivity; destruct x, y; reflexivity.
Qed.

Lemma order_cmp_class tp a b :
  order_cmp tp a b = match N.compare (order_rank a) (order_rank b) with Eq => order_cmp tp a b | o => o end.
Proof. destruct a, b; reflexivity. Qed.

(* numbers with NaN last *)
Definition is_numv (v : value) : Prop := match v with VInt _ | VFloat _ => True | _ => False end.
Lemma num_order_good x : is_numv x -> good_at num_order is_numv x.
Proof.
  intros _. constructor; unfold num_order.
  - intros y _. destruct (num_key x), (num_key y); try reflexivity. apply Z.compare_antisym.
  - intros y z _ _. destruct (num_key x), (num_key y), (num_key z); try discriminate; try reflexivity.
    intros H. apply Z.compare_eq in H. now subst.
  - intros y z _ _. destruct (num_key x), (num_key y), (num_key z); try discriminate; try reflexivity.
    rewrite !Z.compare_lt_iff. lia.
  - intros y z _ _. destruct (num_key x), (num_key y), (num_key z); try discriminate; try reflexivity.
    intros H. apply Z.compare_eq in H. now subst.
Qed.

Lemma good_everywhere {A} (c : A -> A -> comparison) (P : A -> Prop) x :
  good_at c (fun _ => True) x -> good_at c P x.
Proof. apply good_weaken. auto. Qed.

(* triples of N, as nested pairs *)
Definition n3_shape (t : N * N * N) : N * (N * N) := let '(a, b, c) := t in (a, (b, c)).
Lemma n3_cmp_plex s t : n3_cmp s t = plex N.compare (plex N.compare N.compare) (n3_shape s) (n3_shape t).
Proof. destruct s as [[a b] c], t as [[a' b'] c']. reflexivity. Qed.
Lemma good_n3 x : good_at n3_cmp (fun _ => True) x.
Proof.
  pose (P' := fun p : N * (N * N) => True /\ (True /\ True)).
  apply (good_weaken n3_cmp (fun y => P' (n3_shape y))); [unfold P'; auto|].
  apply (good_map n3_shape n3_cmp (plex N.compare (plex N.compare N.compare)) P' x n3_cmp_plex).
  destruct x as [[a b] c]. cbn. unfold P'.
  apply (plex_good N.compare (plex N.compare N.compare) (fun _ => True) (fun p => True /\ True)).
  - apply good_N.
  - apply (plex_good N.compare N.compare (fun _ => True) (fun _ => True)); apply good_N.
Qed.

Section OrderAll.
  Variable tp : toracle.
  Notation oc := (order_cmp tp).

  (* a class of values whose comparison is a good comparator on a payload *)
  Lemma same_class_good (x : value) {B : Type} (g : value -> option B)
        (c' : B -> B -> comparison) (P' : B -> Prop) (bx : B) :
    g x = Some bx -> P' bx ->
    (forall y, og tp y -> order_rank y = order_rank x -> exists b, g y = Some b /\ P' b) ->
    (forall y z b d, g y = Some b -> g z = Some d -> P' b -> P' d -> oc y z = c' b d) ->
    good_at c' P' bx ->
    good_at oc (fun y => og tp y /\ order_rank y = order_rank x) x.
  Proof.
    intros Gx Px Hcl Heq [a b cc d]. constructor.
    - intros y [Oy Ry]. destruct (Hcl y Oy Ry) as (by_ & Gy & Py).
      rewrite (Heq y x _ _ Gy Gx Py Px), (Heq x y _ _ Gx Gy Px Py). now apply a.
    - intros y z [Oy Ry] [Oz Rz]. destruct (Hcl y Oy Ry) as (by_ & Gy & Py). destruct (Hcl z Oz Rz) as (bz & Gz & Pz).
      rewrite (Heq x y _ _ Gx Gy Px Py), (Heq x z _ _ Gx Gz Px Pz), (Heq y z _ _ Gy Gz Py Pz). now apply b.
    - intros y z [Oy Ry] [Oz Rz]. destruct (Hcl y Oy Ry) as (by_ & Gy & Py). destruct (Hcl z Oz Rz) as (bz & Gz & Pz).
      rewrite (Heq x y _ _ Gx Gy Px Py), (Heq x z _ _ Gx Gz Px Pz), (Heq y z _ _ Gy Gz Py Pz). now apply cc.
    - intros y z [Oy Ry] [Oz Rz]. destruct (Hcl y Oy Ry) as (by_ & Gy & Py). destruct (Hcl z Oz Rz) as (bz & Gz & Pz).
      rewrite (Heq x y _ _ Gx Gy Px Py), (Heq x z _ _ Gx Gz Px Pz), (Heq y z _ _ Gy Gz Py Pz). now apply d.
  Qed.

  Ltac other_class H := exfalso; vm_compute in H; discriminate H.

  Definition g_null (v : value) : option unit := match v with VNull => Some tt | _ => None end.
  Definition g_bool (v : value) : option bool := match v with VBool b => Some b | _ => None end.
  Definition g_num (v : value) : option value := match v with VInt _ | VFloat _ => Some v | _ => None end.
  Definition g_str (v : value) : option bytes := match v with VStr s => Some s | _ => None end.
  Definition g_list (v : value) : option (list value) := match v with VList l => Some l | _ => None end.
  Definition g_map (v : value) : option (list (bytes * value)) := match v with VMap m => Some m | _ => None end.
  Definition g_node (v : value) : option N := match v with VNode n => Some n | _ => None end.
  Definition g_rel (v : value) : option (N * N * N) := match v with VRel a b c => Some (a, b, c) | _ => None end.
  Definition g_path (v : value) : option (list N * list (N * N * N)) :=
    match v with VPath n e => Some (n, e) | _ => None end.

  Lemma good_lex_everywhere {A} (c : A -> A -> comparison) (l : list A) :
    (forall x, good_at c (fun _ => True) x) -> good_at (lex_by c) (fun _ => True) l.
  Proof.
    intros H. apply (good_weaken _ (fun l => Forall (fun _ => True) l)).
    - intros y _. induction y; constructor; auto.
    - apply lex_good. induction l; constructor; auto.
  Qed.

  Theorem order_cmp_good x : og tp x -> good_at oc (og tp) x.
  Proof.
    induction x using value_ind'; intros Hx;
      apply (by_class_good oc (og tp) order_rank (fun a b _ _ => order_cmp_class tp a b)); try exact Hx.
    - (* null *)
      apply (same_class_good VNull g_null (fun _ _ => Eq) (fun _ => True) tt); auto.
      + intros y _ R. destruct y; try other_class R. cbn; eauto.
      + intros y z [] [] Gy Gz _ _. destruct y; try discriminate Gy. destruct z; try discriminate Gz. reflexivity.
      + constructor; auto.
    - (* bool *)
      apply (same_class_good (VBool b) g_bool bool_cmp (fun _ => True) b); auto.
      + intros y _ R. destruct y; try other_class R. cbn; eauto.
      + intros y z p q Gy Gz _ _. destruct y; try discriminate Gy. destruct z; try discriminate Gz.
        injection Gy as ->. injection Gz as ->. reflexivity.
      + apply good_bool.
    - (* int *)
      apply (same_class_good (VInt z) g_num num_order is_numv (VInt z)); cbn; auto.
      + intros y _ R. destruct y; try other_class R; eexists; (split; [reflexivity|exact I]).
      + intros y w p q Gy Gz _ _. destruct y; try discriminate Gy; destruct w; try discriminate Gz;
          injection Gy as <-; injection Gz as <-; try reflexivity.
        cbn. unfold num_order, num_key. now rewrite ikey_compare.
      + now apply num_order_good.
    - (* float *)
      apply (same_class_good (VFloat f) g_num num_order is_numv (VFloat f)); cbn; auto.
      + intros y _ R. destruct y; try other_class R; eexists; (split; [reflexivity|exact I]).
      + intros y w p q Gy Gz _ _. destruct y; try discriminate Gy; destruct w; try discriminate Gz;
          injection Gy as <-; injection Gz as <-; try reflexivity.
        cbn. unfold num_order, num_key. now rewrite ikey_compare.
      + now apply num_order_good.
    - (* string *)
      assert (Hs : tp s = None). { unfold og in Hx. cbn in Hx. now destruct (tp s). }
      apply (same_class_good (VStr s) g_str lex_cmp (fun s => tp s = None) s); auto.
      + intros y Oy R. destruct y; try other_class R. exists s0. split; [reflexivity|].
        unfold og in Oy. cbn in Oy. now destruct (tp s0).
      + intros y z p q Gy Gz Hp Hq. destruct y; try discriminate Gy. destruct z; try discriminate Gz.
        injection Gy as ->. injection Gz as ->. cbn. now apply str_cmp_clean.
      + apply good_everywhere, good_lex_cmp.
    - (* list *)
      apply ogood_list in Hx.
      apply (same_class_good (VList l) g_list (lex_by oc) (fun l => Forall (og tp) l) l); auto.
      + intros y Oy R. destruct y; try other_class R. exists l0. split; [reflexivity|]. now apply ogood_list.
      + intros y z p q Gy Gz _ _. destruct y; try discriminate Gy. destruct z; try discriminate Gz.
        injection Gy as ->. injection Gz as ->. apply order_t_list.
      + apply lex_good. rewrite Forall_forall in *. intros e He. apply H; auto.
    - (* map *)
      apply ogood_map in Hx.
      apply (same_class_good (VMap m) g_map (lex_by (entry_cmp tp))
               (fun m => Forall (fun kv => True /\ og tp (snd kv)) m) m); auto.
      + rewrite Forall_forall in *. auto.
      + intros y Oy R. destruct y; try other_class R. exists m0. split; [reflexivity|].
        apply ogood_map in Oy. rewrite Forall_forall in *. auto.
      + intros y z p q Gy Gz _ _. destruct y; try discriminate Gy. destruct z; try discriminate Gz.
        injection Gy as ->. injection Gz as ->. apply order_t_map.
      + apply lex_good. rewrite Forall_forall in *. intros [k v] He.
        apply (plex_good lex_cmp oc (fun _ => True) (og tp)); [apply good_lex_cmp|].
        apply (H (k, v) He). exact (Hx (k, v) He).
    - (* node *)
      apply (same_class_good (VNode n) g_node N.compare (fun _ => True) n); auto.
      + intros y _ R. destruct y; try other_class R. cbn; eauto.
      + intros y z p q Gy Gz _ _. destruct y; try discriminate Gy. destruct z; try discriminate Gz.
        injection Gy as ->. injection Gz as ->. reflexivity.
      + apply good_N.
    - (* relationship *)
      apply (same_class_good (VRel a b c) g_rel n3_cmp (fun _ => True) (a, b, c)); auto.
      + intros y _ R. destruct y; try other_class R. cbn; eauto.
      + intros y z p q Gy Gz _ _. destruct y; try discriminate Gy. destruct z; try discriminate Gz.
        injection Gy as <-. injection Gz as <-. reflexivity.
      + apply good_n3.
    - (* path *)
      apply (same_class_good (VPath n e) g_path (plex (lex_by N.compare) (lex_by n3_cmp)) (fun _ => True) (n, e)); auto.
      + intros y _ R. destruct y; try other_class R. cbn; eauto.
      + intros y z p q Gy Gz _ _. destruct y; try discriminate Gy. destruct z; try discriminate Gz.
        injection Gy as <-. injection Gz as <-. reflexivity.
      + apply (good_weaken _ (fun p => True /\ True)); [auto|].
        apply (plex_good (lex_by N.compare) (lex_by n3_cmp) (fun _ => True) (fun _ => True)).
        * apply good_lex_everywhere. apply good_N.
        * apply good_lex_everywhere. apply good_n3.
  Qed.

  (* total preorder on all good values *)
  Theorem order_cmp_total_preorder_all :
    (forall a b, og tp a -> og tp b -> oc b a = CompOpp (oc a b)) /\
    (forall a, og tp a -> oc a a = Eq) /\
    (forall a b, og tp a -> og tp b -> cle' oc a b = true \/ cle' oc b a = true) /\
    (forall a b d, og tp a -> og tp b -> og tp d ->
       cle' oc a b = true -> cle' oc b d = true -> cle' oc a d = true).
  Proof.
    repeat split.
    - intros a b Ha Hb. exact (gA _ _ a (order_cmp_good a Ha) b Hb).
    - intros a Ha. exact (good_refl oc (og tp) a Ha (order_cmp_good a Ha)).
    - intros a b Ha Hb. exact (good_total oc (og tp) a b Ha Hb (order_cmp_good a Ha)).
    - intros a b d Ha Hb Hd. exact (good_trans oc (og tp) a b d Ha Hb Hd (order_cmp_good a Ha)).
  Qed.
End OrderAll.

(* ---------- several sort keys with directions ---------- *)
Lemma good_map_on {A B} (g : A -> B) (c : A -> A -> comparison) (c' : B -> B -> comparison)
      (Q : A -> Prop) (P' : B -> Prop) x :
  (forall a b, Q a -> Q b -> c a b = c' (g a) (g b)) -> (forall y, Q y -> P' (g y)) -> Q x ->
  good_at c' P' (g x) -> good_at c Q x.
Proof.
  intros H HP Qx [a b cc d]. constructor.
  - intros y Qy. rewrite !H by assumption. apply a; auto.
  - intros y z Qy Qz. rewrite !H by assumption. apply b; auto.
  - intros y z Qy Qz. rewrite !H by assumption. apply cc; auto.
  - intros y z Qy Qz. rewrite !H by assumption. apply d; auto.
Qed.

(* reversing a comparator that is good at every point of P *)
Lemma good_opp {A} (c : A -> A -> comparison) (P : A -> Prop) :
  (forall x, P x -> good_at c P x) ->
  forall x, P x -> good_at (fun a b => CompOpp (c a b)) P x.
Proof.
  intros G x Px. constructor.
  - intros y Py. now rewrite (gA c P x (G x Px) y Py).
  - intros y z Py Pz H. f_equal. apply (gB c P x (G x Px) y z Py Pz). now destruct (c x y).
  - intros y z Py Pz H1 H2.
    assert (E1 : c y x = Lt). { rewrite (gA c P x (G x Px) y Py). now destruct (c x y). }
    assert (E2 : c z y = Lt). { rewrite (gA c P y (G y Py) z Pz). now destruct (c y z). }
    pose proof (gC c P z (G z Pz) y x Py Px E2 E1) as E3.
    rewrite (gA c P z (G z Pz) x Px), E3. reflexivity.
  - intros y z Py Pz H. f_equal. apply (gD c P x (G x Px) y z Py Pz). now destruct (c y z).
Qed.

Section Keys.
  Variable tp : toracle.
  Definition dir_cmp (d : bool) (a b : value) : comparison :=
    if d then order_cmp tp a b else CompOpp (order_cmp tp a b).
  Lemma dir_cmp_good d x : og tp x -> good_at (dir_cmp d) (og tp) x.
  Proof.
    intros Hx. destruct d; unfold dir_cmp.
    - now apply order_cmp_good.
    - apply (good_opp (order_cmp tp) (og tp) (order_cmp_good tp)); auto.
  Qed.

  (* key lists of one ORDER BY clause: the same directions, good values *)
  Definition keys_ok (dirs : list bool) (ks : list (value * bool)) : Prop :=
    map snd ks = dirs /\ Forall (og tp) (map fst ks).

  Definition key_shape (ks : list (value * bool)) : value * list (value * bool) :=
    match ks with (x, _) :: t => (x, t) | [] => (VNull, []) end.

  Theorem keys_cmp_good dirs : forall ks, keys_ok dirs ks -> good_at (keys_cmp tp) (keys_ok dirs) ks.
  Proof.
    induction dirs as [|d ds IH]; intros ks [Hd Hg].
    - assert (E : forall y, keys_ok [] y -> y = []) by (intros [|? ?] [H _]; [reflexivity|discriminate H]).
      destruct ks; [|discriminate Hd].
      constructor; intros y; [intros Py|intros z Py Pz|intros z Py Pz|intros z Py Pz];
        rewrite ?(E y Py), ?(E z Pz); cbn; auto; discriminate.
    - destruct ks as [|[x dx] t]; [discriminate Hd|]. cbn in Hd, Hg. injection Hd as -> Ht. inversion Hg as [|? ? Hx Htg]; subst.
      apply (good_map_on key_shape (keys_cmp tp) (plex (dir_cmp d) (keys_cmp tp)) (keys_ok (d :: map snd t))
               (fun p => og tp (fst p) /\ keys_ok (map snd t) (snd p))).
      + intros [|[a da] ta] [|[b db] tb] [Ha1 Ha2] [Hb1 Hb2]; try discriminate Ha1; try discriminate Hb1.
        cbn in Ha1, Hb1. injection Ha1 as -> _. cbn. unfold plex, dir_cmp. cbn.
        destruct d, (order_cmp tp a b); reflexivity.
      + intros [|[a da] ta] [Ha1 Ha2]; [discriminate Ha1|]. cbn in *. injection Ha1 as _ Ha1.
        inversion Ha2; subst. repeat split; auto.
      + split; [reflexivity|now constructor].
      + cbn. apply plex_good; [now apply dir_cmp_good|]. apply IH. split; auto.
  Qed.
End Keys.
