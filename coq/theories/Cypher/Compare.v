(* Cypher/Compare.v — the engine's three comparisons of values.
   Model file: executable definitions only, transcribed from
     evaluator/evaluator_equality.rs   cypher_equals            -> cy_eq
     evaluator/evaluator_compare.rs    compare_values           -> cy_cmp, cy_lt/le/gt/ge
                                       order_compare_non_null   -> order_nn
     evaluator.rs                      order_compare            -> order_cmp   (ORDER BY, min, max)
     evaluator/evaluator_numeric.rs    compare_i64_f64, compare_numeric (exact int/float comparison)
   Three-valued results are `option bool` (None = null).

   Strings that the engine's temporal parser (parse_temporal_string, chrono)
   accepts are compared as temporal values when both have the same temporal
   kind.  The parser is not modelled: it is a parameter `tp` (an oracle giving
   the kind and a key, monotone in the temporal value, of a string), supplied
   as data by the harness; `no_temporal` is the oracle that recognises
   nothing. *)
From NDB Require Export Cypher.Value.
From NDB Require Import Gen.Consts.
Open Scope N_scope.

(* kind: 0 Date, 1 LocalTime, 2 Time, 3 LocalDateTime, 4 DateTime; key orders values of one kind *)
Definition toracle := bytes -> option (N * Z).
Definition no_temporal : toracle := fun _ => None.

(* compare_strings_with_temporal *)
Definition str_cmp (tp : toracle) (l r : bytes) : comparison :=
  match tp l, tp r with
  | Some (k1, a), Some (k2, b) => if k1 =? k2 then Z.compare a b else lex_cmp l r
  | _, _ => lex_cmp l r
  end.

(* ---------- numbers: compare_numeric / compare_i64_f64 (exact) ---------- *)
Definition num_key (v : value) : option Z :=
  match v with
  | VInt z => Some (ikey z)
  | VFloat f => fkey f
  | _ => None
  end.
Definition is_num (v : value) : bool :=
  match v with VInt _ | VFloat _ => true | _ => false end.
(* None iff one side is NaN (or not a number) *)
Definition num_cmp (a b : value) : option comparison :=
  match num_key a, num_key b with
  | Some x, Some y => Some (Z.compare x y)
  | _, _ => None
  end.
(* ORDER BY on numbers: NaN after every number, NaN = NaN *)
Definition num_order (a b : value) : comparison :=
  match num_key a, num_key b with
  | Some x, Some y => Z.compare x y
  | None, None => Eq
  | None, Some _ => Gt
  | Some _, None => Lt
  end.

(* ---------- cypher_equals ---------- *)
Definition tri_step (t : option bool) (rest : option bool) : option bool :=
  (* one element of cypher_equals_sequence: false wins at once; null is remembered *)
  match t with
  | Some false => Some false
  | Some true => rest
  | None => match rest with Some false => Some false | _ => None end
  end.

Fixpoint cy_eq (a b : value) {struct a} : option bool :=
  match a, b with
  | VNull, _ => None
  | _, VNull => None
  | VInt x, VInt y => Some (Z.eqb x y)
  | VInt _, VFloat _ | VFloat _, VInt _ | VFloat _, VFloat _ =>
      Some (match num_cmp a b with Some Eq => true | _ => false end)
  | VList l, VList r =>
      if negb (Nat.eqb (length l) (length r)) then Some false else
      (fix go (l r : list value) {struct l} : option bool :=
         match l, r with
         | x :: l', y :: r' => tri_step (cy_eq x y) (go l' r')
         | _, _ => Some true
         end) l r
  | VMap l, VMap r =>
      if negb (Nat.eqb (length l) (length r)) then Some false else
      (* both maps are key-sorted and of equal length: `right.get(key)` finds the key
         iff the keys agree position by position; the first missing key yields false *)
      (fix go (l r : list (bytes * value)) {struct l} : option bool :=
         match l, r with
         | (k, x) :: l', (k', y) :: r' =>
             if bytes_eqb k k' then tri_step (cy_eq x y) (go l' r')
             else Some false
         | _, _ => Some true
         end) l r
  | _, _ => Some (deq a b)
  end.

Definition tri_not (t : option bool) : option bool := option_map negb t.
Definition cy_neq (a b : value) : option bool := tri_not (cy_eq a b).

(* ---------- ORDER BY comparator ---------- *)
Definition order_rank (v : value) : N :=
  match v with
  | VMap _ => cy_rank_Map
  | VNode _ => cy_rank_NodeId
  | VRel _ _ _ => cy_rank_EdgeKey
  | VList _ => cy_rank_List
  | VPath _ _ => cy_rank_Path
  | VStr _ => cy_rank_String
  | VBool _ => cy_rank_Bool
  | VInt _ => cy_rank_Int
  | VFloat _ => cy_rank_Float
  | VNull => cy_rank_Null
  end.

(* order_compare_non_null.  In the code it returns Option<Ordering>; None can only come from
   the fallback `left.partial_cmp(right)`, which no pair of modelled variants reaches (maps are
   compared entry by entry by compare_maps_ordering), so the model is the total `order_t` and
   `order_nn` wraps it in Some.  Elements of lists and values of maps are compared with
   compare_value_for_list_ordering: nulls last, otherwise recursively. *)
Fixpoint order_t (tp : toracle) (a b : value) {struct a} : comparison :=
  match a, b with
  | VBool x, VBool y => bool_cmp x y
  | VInt x, VInt y => Z.compare x y
  | VInt _, VFloat _ | VFloat _, VInt _ | VFloat _, VFloat _ => num_order a b
  | VStr x, VStr y => str_cmp tp x y
  | VList l, VList r =>
      (* compare_lists_ordering *)
      (fix go (l r : list value) {struct l} : comparison :=
         match l, r with
         | [], [] => Eq
         | [], _ :: _ => Lt
         | _ :: _, [] => Gt
         | x :: l', y :: r' =>
             match (match x, y with
                    | VNull, VNull => Eq
                    | VNull, _ => Gt
                    | _, VNull => Lt
                    | _, _ => order_t tp x y
                    end) with
             | Eq => go l' r'
             | o => o
             end
         end) l r
  | VMap l, VMap r =>
      (* compare_maps_ordering: keys in key order, then values like list elements *)
      (fix go (l r : list (bytes * value)) {struct l} : comparison :=
         match l, r with
         | [], [] => Eq
         | [], _ :: _ => Lt
         | _ :: _, [] => Gt
         | (k, x) :: l', (k', y) :: r' =>
             match lex_cmp k k' with
             | Eq =>
                 match (match x, y with
                        | VNull, VNull => Eq
                        | VNull, _ => Gt
                        | _, VNull => Lt
                        | _, _ => order_t tp x y
                        end) with
                 | Eq => go l' r'
                 | o => o
                 end
             | c => c
             end
         end) l r
  | VNode x, VNode y => N.compare x y
  | VRel a1 a2 a3, VRel b1 b2 b3 => n3_cmp (a1, a2, a3) (b1, b2, b3)
  | VPath n1 e1, VPath n2 e2 =>
      match lex_by N.compare n1 n2 with Eq => lex_by n3_cmp e1 e2 | c => c end
  | _, _ => N.compare (order_rank a) (order_rank b)
  end.
Definition order_nn (tp : toracle) (a b : value) : option comparison := Some (order_t tp a b).

(* order_compare: nulls last *)
Definition order_cmp (tp : toracle) (a b : value) : comparison :=
  match a, b with
  | VNull, VNull => Eq
  | VNull, _ => Gt
  | _, VNull => Lt
  | _, _ => order_t tp a b
  end.

(* ---------- compare_values: < <= > >= ---------- *)
Inductive cmp_res := CNull | CFalse | COrd (c : comparison).

(* compare_value_for_list_range + compare_lists_for_range *)
Fixpoint list_range_cmp (tp : toracle) (l r : list value) : cmp_res :=
  match l, r with
  | [], [] => COrd Eq
  | [], _ :: _ => COrd Lt
  | _ :: _, [] => COrd Gt
  | x :: l', y :: r' =>
      match (match x, y with
             | VNull, VNull => Some Eq
             | VNull, _ | _, VNull => None
             | _, _ => order_nn tp x y
             end) with
      | Some Eq => list_range_cmp tp l' r'
      | Some c => COrd c
      | None => CNull
      end
  end.

Definition cy_cmp (tp : toracle) (a b : value) : cmp_res :=
  match a, b with
  | VNull, _ | _, VNull => CNull
  | VInt _, VInt _ | VInt _, VFloat _ | VFloat _, VInt _ | VFloat _, VFloat _ =>
      match num_cmp a b with Some c => COrd c | None => CFalse end
  | VBool x, VBool y => COrd (bool_cmp x y)
  | VStr x, VStr y => COrd (str_cmp tp x y)
  | VList l, VList r => list_range_cmp tp l r
  | _, _ => CNull
  end.

Definition apply_cmp (p : comparison -> bool) (r : cmp_res) : option bool :=
  match r with CNull => None | CFalse => Some false | COrd c => Some (p c) end.
Definition is_lt c := match c with Lt => true | _ => false end.
Definition is_le c := match c with Gt => false | _ => true end.
Definition is_gt c := match c with Gt => true | _ => false end.
Definition is_ge c := match c with Lt => false | _ => true end.
Definition cy_lt tp a b := apply_cmp is_lt (cy_cmp tp a b).
Definition cy_le tp a b := apply_cmp is_le (cy_cmp tp a b).
Definition cy_gt tp a b := apply_cmp is_gt (cy_cmp tp a b).
Definition cy_ge tp a b := apply_cmp is_ge (cy_cmp tp a b).

(* ---------- ORDER BY on rows: keys with direction (true = ascending) ---------- *)
Fixpoint keys_cmp (tp : toracle) (a b : list (value * bool)) : comparison :=
  match a, b with
  | (x, asc) :: a', (y, _) :: b' =>
      match order_cmp tp x y with
      | Eq => keys_cmp tp a' b'
      | c => if asc then c else CompOpp c
      end
  | _, _ => Eq
  end.
