(* Cypher/Logic.v — AND / OR / XOR / NOT as the evaluator computes them
   (evaluator.rs, Expression::Binary And/Or/Xor and Unary Not).  The operators
   take arbitrary values: anything that is neither a boolean nor null behaves
   like null.  Model file: executable definitions only. *)
From NDB Require Export Cypher.Value.

Definition v_and (l r : value) : value :=
  match l, r with
  | VBool false, _ | _, VBool false => VBool false
  | VBool true, VBool true => VBool true
  | _, _ => VNull
  end.

Definition v_or (l r : value) : value :=
  match l, r with
  | VBool true, _ | _, VBool true => VBool true
  | VBool false, VBool false => VBool false
  | _, _ => VNull
  end.

Definition v_xor (l r : value) : value :=
  match l, r with
  | VBool a, VBool b => VBool (xorb a b)
  | _, _ => VNull
  end.

Definition v_not (v : value) : value :=
  match v with
  | VBool b => VBool (negb b)
  | _ => VNull
  end.

(* the three truth values *)
Definition tvl : list value := [VNull; VBool false; VBool true].

(* the same operators on `option bool` (None = null), for reference semantics *)
Definition t_and (a b : option bool) : option bool :=
  match a, b with
  | Some false, _ | _, Some false => Some false
  | Some true, Some true => Some true
  | _, _ => None
  end.
Definition t_or (a b : option bool) : option bool :=
  match a, b with
  | Some true, _ | _, Some true => Some true
  | Some false, Some false => Some false
  | _, _ => None
  end.
Definition t_xor (a b : option bool) : option bool :=
  match a, b with Some x, Some y => Some (xorb x y) | _, _ => None end.
Definition t_not (a : option bool) : option bool := option_map negb a.
