(* Cypher/Logic_proofs.v — Kleene logic laws of AND/OR/XOR/NOT (C23). *)
From NDB Require Import Cypher.Value Cypher.Logic.
From Coq Require Import Lia.
Local Open Scope nat_scope.

(* Kleene's strong three-valued logic, stated independently: false < null < true *)
Definition k_rank (v : value) : nat :=
  match v with VBool false => 0 | VBool true => 2 | _ => 1 end.
Definition k_of (n : nat) : value :=
  match n with 0 => VBool false | 1 => VNull | _ => VBool true end.

Lemma and_is_min a b : v_and a b = k_of (Nat.min (k_rank a) (k_rank b)).
Proof. destruct a as [| [] | | | | | | | |], b as [| [] | | | | | | | |]; reflexivity. Qed.
Lemma or_is_max a b : v_or a b = k_of (Nat.max (k_rank a) (k_rank b)).
Proof. destruct a as [| [] | | | | | | | |], b as [| [] | | | | | | | |]; reflexivity. Qed.
Lemma not_is_flip a : v_not a = k_of (2 - k_rank a).
Proof. destruct a as [| [] | | | | | | | |]; reflexivity. Qed.
Lemma xor_spec a b :
  v_xor a b = match a, b with VBool x, VBool y => VBool (xorb x y) | _, _ => VNull end.
Proof. reflexivity. Qed.

Lemma de_morgan_and a b : v_not (v_and a b) = v_or (v_not a) (v_not b).
Proof. destruct a as [| [] | | | | | | | |], b as [| [] | | | | | | | |]; reflexivity. Qed.
Lemma de_morgan_or a b : v_not (v_or a b) = v_and (v_not a) (v_not b).
Proof. destruct a as [| [] | | | | | | | |], b as [| [] | | | | | | | |]; reflexivity. Qed.
