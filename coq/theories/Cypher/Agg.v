(* Cypher/Agg.v — aggregation (executor/projection_sort.rs execute_aggregate).
   Model file: executable definitions only.

   Input of one aggregate over one group: the list of the argument's values, one
   per row of the group, in row order.  DISTINCT variants first drop nulls and
   then keep the first of every class of Rust-`==` values (derive(PartialEq):
   1 and 1.0 are different, NaN differs from itself, 0.0 == -0.0).

   Grouping: `HashMap<Vec<Value>, Vec<Row>>`, i.e. keys are equal when they hash
   alike and are `==`.  `Hash for Value` hashes floats by bit pattern, so two
   keys are in one group iff they are `==` and have identical float bits
   (`group_eq`); 0.0 and -0.0 are `==` with different hashes, which a HashMap
   separates except on a hash-tag collision — the harness keeps -0.0 out of
   grouping keys.  Groups are returned in hash order: the model returns them in
   order of first occurrence and the correspondence compares them as a set. *)
From NDB Require Export Cypher.Value Cypher.Compare Cypher.Arith.
Open Scope N_scope.

Definition non_null (vs : list value) : list value := filter (fun v => negb (is_null v)) vs.

(* first occurrence of every `==`-class *)
Fixpoint dedup_from (seen : list value) (vs : list value) : list value :=
  match vs with
  | [] => []
  | v :: t => if existsb (fun e => deq e v) seen then dedup_from seen t
              else v :: dedup_from (seen ++ [v]) t
  end.
Definition distinct_vals (vs : list value) : list value := dedup_from [] (non_null vs).

Definition v_of_nat (n : nat) : value := VInt (Z.of_nat n).

Definition agg_count_star (vs : list value) : value := v_of_nat (length vs).
Definition agg_count (vs : list value) : value := v_of_nat (length (non_null vs)).

(* sum: integers exactly (i128 in the code), floats and the running float sum of everything
   in f64; non-numbers are skipped.  Result: float sum if any float occurred, else the exact
   integer sum if it is an i64, else the float sum (repaired: it used to wrap) *)
Definition sum_step (acc : bool * Z * float) (v : value) : bool * Z * float :=
  let '(saw, isum, fsum) := acc in
  match v with
  | VInt i => (saw, (isum + i)%Z, PrimFloat.add fsum (f_of_int i))
  | VFloat f => (true, isum, PrimFloat.add fsum f)
  | _ => acc
  end.
Definition agg_sum (vs : list value) : value :=
  let '(saw, isum, fsum) := fold_left sum_step vs (false, 0%Z, 0%float) in
  if saw then VFloat fsum else if in_i64 isum then VInt isum else VFloat fsum.

(* avg: the numbers as f64, `iter().sum::<f64>()` (starts from -0.0) divided by the count *)
Definition as_f64 (v : value) : option float :=
  match v with VInt i => Some (f_of_int i) | VFloat f => Some f | _ => None end.
Fixpoint numbers (vs : list value) : list float :=
  match vs with
  | [] => []
  | v :: t => match as_f64 v with Some f => f :: numbers t | None => numbers t end
  end.
Definition agg_avg (vs : list value) : value :=
  match numbers vs with
  | [] => VNull
  | fs => VFloat (PrimFloat.div (fold_left PrimFloat.add fs (-0)%float) (f_of_int (Z.of_nat (length fs))))
  end.

(* min_by returns the first minimum, max_by the last maximum *)
Definition agg_min (tp : toracle) (vs : list value) : value :=
  match non_null vs with
  | [] => VNull
  | v :: t => fold_left (fun m x => match order_cmp tp m x with Gt => x | _ => m end) t v
  end.
Definition agg_max (tp : toracle) (vs : list value) : value :=
  match non_null vs with
  | [] => VNull
  | v :: t => fold_left (fun m x => match order_cmp tp m x with Gt => m | _ => x end) t v
  end.
Definition agg_collect (vs : list value) : value := VList (non_null vs).

Inductive aggfn := ACountStar | ACount | ASum | AAvg | AMin | AMax | ACollect.
Definition agg (tp : toracle) (f : aggfn) (distinct : bool) (vs : list value) : value :=
  let xs := if distinct then distinct_vals vs else vs in
  match f with
  | ACountStar => agg_count_star vs
  | ACount => agg_count xs
  | ASum => agg_sum xs
  | AAvg => agg_avg xs
  | AMin => agg_min tp xs
  | AMax => agg_max tp xs
  | ACollect => agg_collect xs
  end.

(* ---------- grouping ---------- *)
(* identical hash input: floats by bits *)
Definition group_eq (a b : value) : bool := deq a b && value_same a b.
Definition key_eq (a b : list value) : bool :=
  Nat.eqb (length a) (length b) && forallb (fun p => group_eq (fst p) (snd p)) (combine a b).

(* rows are (key, argument value); groups in order of first occurrence *)
Fixpoint add_to_group (k : list value) (v : value) (gs : list (list value * list value)) : list (list value * list value) :=
  match gs with
  | [] => [(k, [v])]
  | (k', vs) :: t => if key_eq k' k then (k', vs ++ [v]) :: t else (k', vs) :: add_to_group k v t
  end.
Definition group_rows (rows : list (list value * value)) : list (list value * list value) :=
  fold_left (fun gs r => add_to_group (fst r) (snd r) gs) rows [].

(* `RETURN key..., agg(arg)`: one output row per group; no grouping key and no rows: one row *)
Definition aggregate (tp : toracle) (f : aggfn) (distinct : bool) (nkeys : nat) (rows : list (list value * value)) : list (list value * value) :=
  match rows, nkeys with
  | [], O => [([], agg tp f distinct [])]
  | _, _ => map (fun g => (fst g, agg tp f distinct (snd g))) (group_rows rows)
  end.
