(* Cypher/ListCompare_proofs.v — < <= > >= on lists and nested values are mutually consistent
   and consistent with = (C23); min / max are extremal (C21).  Built on Order_proofs
   (order_cmp is a total preorder on values without temporal strings) and Equality_proofs. *)
From NDB Require Import Base.Bytes Base.Bytes_proofs Cypher.Value Cypher.Compare Cypher.Logic Cypher.Agg
  Cypher.Compare_proofs Cypher.Order_proofs Cypher.Equality_proofs.
From Coq Require Import Lia.
Local Open Scope Z_scope.

Section ListCmp.
  Variable tp : toracle.
  Notation oc := (order_cmp tp).

  (* the element comparison of compare_lists_for_range, by null-ness *)
  Lemma elem_match x y :
    (match x, y with
     | VNull, VNull => Some Eq
     | VNull, _ | _, VNull => None
     | _, _ => order_nn tp x y
     end) = if is_null x then (if is_null y then Some Eq else None)
            else if is_null y then None else Some (oc x y).
  Proof. destruct x, y; reflexivity. Qed.

  Lemma list_range_cons x l y r :
    list_range_cmp tp (x :: l) (y :: r) =
    match (if is_null x then (if is_null y then Some Eq else None)
           else if is_null y then None else Some (oc x y)) with
    | Some Eq => list_range_cmp tp l r
    | Some c => COrd c
    | None => CNull
    end.
  Proof. cbn [list_range_cmp]. now rewrite elem_match. Qed.

  Lemma oc_null_null : oc VNull VNull = Eq.
  Proof. reflexivity. Qed.

  Lemma list_range_flip l : Forall (og tp) l -> forall r, Forall (og tp) r ->
    list_range_cmp tp r l = flip_res (list_range_cmp tp l r).
  Proof.
    induction 1 as [|x t Hx _ IH]; intros [|y ty] Fr; try reflexivity.
    inversion Fr as [|? ? Hy Fty]; subst. rewrite !list_range_cons.
    destruct (is_null x) eqn:Nx, (is_null y) eqn:Ny; try reflexivity.
    - now apply IH.
    - rewrite (gA oc (og tp) x (order_cmp_good tp x Hx) y Hy).
      destruct (oc x y); cbn; try reflexivity. now apply IH.
  Qed.

  (* lists never compare "false" (that is the NaN answer of plain numbers) *)
  Lemma list_range_not_false l r : list_range_cmp tp l r <> CFalse.
  Proof.
    revert r. induction l as [|x t IH]; intros [|y ty]; try discriminate.
    rewrite list_range_cons.
    destruct (is_null x), (is_null y); try discriminate; try apply IH.
    destruct (oc x y); try discriminate. apply IH.
  Qed.

  (* all values: a < b is b > a, a <= b is b >= a *)
  Lemma cy_cmp_flip_all a b : og tp a -> og tp b -> cy_cmp tp b a = flip_res (cy_cmp tp a b).
  Proof.
    intros Ha Hb.
    destruct a as [|x|x|f|s|l| | | |], b as [|y|y|g|t|r| | | |]; try reflexivity.
    - cbn. now rewrite bool_cmp_antisym.
    - cbn. unfold num_cmp, num_key. now rewrite Z.compare_antisym.
    - cbn. unfold num_cmp, num_key. destruct (fkey g); [|reflexivity]. cbn. now rewrite Z.compare_antisym.
    - cbn. unfold num_cmp, num_key. destruct (fkey f); [|reflexivity]. cbn. now rewrite Z.compare_antisym.
    - cbn. unfold num_cmp, num_key. destruct (fkey f), (fkey g); try reflexivity. cbn. now rewrite Z.compare_antisym.
    - cbn. now rewrite str_cmp_antisym.
    - cbn [cy_cmp]. apply ogood_list in Ha, Hb. now apply list_range_flip.
  Qed.

  Theorem cmp_flip_all a b :
    og tp a -> og tp b -> cy_lt tp a b = cy_gt tp b a /\ cy_le tp a b = cy_ge tp b a.
  Proof.
    intros Ha Hb. unfold cy_lt, cy_gt, cy_le, cy_ge. rewrite (cy_cmp_flip_all a b Ha Hb).
    split; symmetry; apply apply_flip; now intros [].
  Qed.

  (* < is the negation of >= and > of <= whenever the comparison is not the NaN answer;
     in particular for all lists *)
  Theorem cmp_neg_all a b :
    cy_cmp tp a b <> CFalse ->
    cy_lt tp a b = t_not (cy_ge tp a b) /\ cy_gt tp a b = t_not (cy_le tp a b).
  Proof.
    unfold cy_lt, cy_gt, cy_le, cy_ge. destruct (cy_cmp tp a b) as [| |c]; intros H; try congruence.
    - split; reflexivity.
    - destruct c; split; reflexivity.
  Qed.
  Corollary cmp_neg_lists l r :
    cy_lt tp (VList l) (VList r) = t_not (cy_ge tp (VList l) (VList r)) /\
    cy_gt tp (VList l) (VList r) = t_not (cy_le tp (VList l) (VList r)).
  Proof. apply cmp_neg_all. cbn [cy_cmp]. apply list_range_not_false. Qed.
End ListCmp.

(* ---------- min / max are extremal ---------- *)
Section MinMax.
  Variable tp : toracle.
  Notation oc := (order_cmp tp).
  Notation le := (fun a b => cle' oc a b = true).

  Lemma og_le_refl a : og tp a -> le a a.
  Proof. intros H. unfold cle'. now rewrite (good_refl oc (og tp) a H (order_cmp_good tp a H)). Qed.
  Lemma og_le_trans a b c : og tp a -> og tp b -> og tp c -> le a b -> le b c -> le a c.
  Proof. intros Ha Hb Hc. exact (good_trans oc (og tp) a b c Ha Hb Hc (order_cmp_good tp a Ha)). Qed.
  Lemma og_le_total a b : og tp a -> og tp b -> le a b \/ le b a.
  Proof. intros Ha Hb. exact (good_total oc (og tp) a b Ha Hb (order_cmp_good tp a Ha)). Qed.

  Definition min_step (m x : value) : value := match oc m x with Gt => x | _ => m end.
  Definition max_step (m x : value) : value := match oc m x with Gt => m | _ => x end.

  Lemma min_fold l : forall m, og tp m -> Forall (og tp) l ->
    og tp (fold_left min_step l m) /\ le (fold_left min_step l m) m /\
    Forall (fun x => le (fold_left min_step l m) x) l.
  Proof.
    induction l as [|x t IH]; intros m Hm Fl; cbn [fold_left].
    - repeat split; auto. now apply og_le_refl.
    - inversion Fl as [|? ? Hx Ft]; subst.
      assert (Hs : og tp (min_step m x)) by (unfold min_step; destruct (oc m x); assumption).
      assert (Lm : le (min_step m x) m).
      { unfold min_step. destruct (oc m x) eqn:E; try now apply og_le_refl.
        unfold cle'. rewrite (gA oc (og tp) m (order_cmp_good tp m Hm) x Hx), E. reflexivity. }
      assert (Lx : le (min_step m x) x).
      { unfold min_step. destruct (oc m x) eqn:E; try now apply og_le_refl.
        - unfold cle'. now rewrite E.
        - unfold cle'. now rewrite E. }
      destruct (IH (min_step m x) Hs Ft) as (G & L1 & L2). repeat split; auto.
      + now apply (og_le_trans _ (min_step m x) m).
      + constructor; [|exact L2]. now apply (og_le_trans _ (min_step m x) x).
  Qed.

  Lemma max_fold l : forall m, og tp m -> Forall (og tp) l ->
    og tp (fold_left max_step l m) /\ le m (fold_left max_step l m) /\
    Forall (fun x => le x (fold_left max_step l m)) l.
  Proof.
    induction l as [|x t IH]; intros m Hm Fl; cbn [fold_left].
    - repeat split; auto. now apply og_le_refl.
    - inversion Fl as [|? ? Hx Ft]; subst.
      assert (Hs : og tp (max_step m x)) by (unfold max_step; destruct (oc m x); assumption).
      assert (Lm : le m (max_step m x)).
      { unfold max_step. destruct (oc m x) eqn:E; try now apply og_le_refl.
        - unfold cle'. now rewrite E.
        - unfold cle'. now rewrite E. }
      assert (Lx : le x (max_step m x)).
      { unfold max_step. destruct (oc m x) eqn:E; try now apply og_le_refl.
        unfold cle'. rewrite (gA oc (og tp) m (order_cmp_good tp m Hm) x Hx), E. reflexivity. }
      destruct (IH (max_step m x) Hs Ft) as (G & L1 & L2). repeat split; auto.
      + now apply (og_le_trans _ (max_step m x)).
      + constructor; [|exact L2]. now apply (og_le_trans _ (max_step m x)).
  Qed.

  (* min(v) is <= and max(v) is >= every non-null value of the group, in the ORDER BY order *)
  Theorem min_max_extremal vs :
    Forall (og tp) (non_null vs) ->
    Forall (fun x => le (agg_min tp vs) x) (non_null vs) /\
    Forall (fun x => le x (agg_max tp vs)) (non_null vs).
  Proof.
    unfold agg_min, agg_max. destruct (non_null vs) as [|v t]; intros F; [split; constructor|].
    inversion F as [|? ? Hv Ft]; subst.
    destruct (min_fold t v Hv Ft) as (_ & A1 & A2). destruct (max_fold t v Hv Ft) as (_ & B1 & B2).
    split; constructor; assumption.
  Qed.
End MinMax.

(* ---------- the ORDER BY order agrees with = : Eq exactly on equal values ---------- *)
Lemma lex_eq_rel {A B} (c : A -> A -> comparison) (k : A -> B) (Py : A -> Prop) l :
  Forall (fun x => forall y, Py y -> (c x y = Eq <-> k x = k y)) l ->
  forall r, Forall Py r -> (lex_by c l r = Eq <-> map k l = map k r).
Proof.
  induction 1 as [|x t Hx _ IH]; intros [|y ty] Fr; cbn; try (split; discriminate); try (split; reflexivity).
  inversion Fr as [|? ? Hy Fty]; subst. specialize (Hx y Hy). specialize (IH ty Fty).
  destruct (c x y) eqn:E.
  - rewrite IH. destruct Hx as [Hx _]. specialize (Hx eq_refl). split; [intros ->; now rewrite Hx|intros [= _ H]; exact H].
  - split; [discriminate|]. intros [= H _]. apply Hx in H. discriminate.
  - split; [discriminate|]. intros [= H _]. apply Hx in H. discriminate.
Qed.

Section OrderEq.
  Variable tp : toracle.
  Notation oc := (order_cmp tp).
  Definition both (v : value) : Prop := eo v /\ og tp v.

  Lemma eo_float f : eo (VFloat f) -> exists k, fkey f = Some k.
  Proof. unfold eo. cbn. unfold f_is_nan. destruct (fkey f); [eauto|discriminate]. Qed.
  Lemma og_str s : og tp (VStr s) -> tp s = None.
  Proof. unfold og. cbn. now destruct (tp s). Qed.

  Lemma oc_Eq_rank a b : oc a b = Eq -> order_rank a = order_rank b.
  Proof.
    intros H. rewrite order_cmp_class in H.
    destruct (N.compare_spec (order_rank a) (order_rank b)) as [E|L|L]; [exact E|discriminate H|discriminate H].
  Qed.

  Ltac cross :=
    split;
    [ let X := fresh "X" in intro X; exfalso; apply oc_Eq_rank in X; vm_compute in X; discriminate X
    | let X := fresh "X" in intro X; exfalso; revert X; cbn [ekey];
      try (match goal with |- context [fkey ?f] => destruct (fkey f) end); discriminate ].

  Theorem order_decided a : forall b, both a -> both b -> (oc a b = Eq <-> ekey a = ekey b).
  Proof.
    induction a using value_ind'; intros y [Ea Oa] [Eb Ob].
    - discriminate Ea.
    - (* bool *) destruct y; try discriminate Eb; try cross.
      cbn. destruct b, b0; cbn; split; congruence.
    - (* int *) destruct y; try discriminate Eb; try cross.
      + cbn. rewrite Z.compare_eq_iff. split; [now intros ->|intros [= H]; now apply ikey_inj].
      + destruct (eo_float f Eb) as [k Hk]. cbn. unfold num_order, num_key. rewrite Hk.
        rewrite Z.compare_eq_iff. split; congruence.
    - (* float *) destruct (eo_float f Ea) as [k Hk]. destruct y; try discriminate Eb;
        try (split; [let X := fresh "X" in intro X; exfalso; apply oc_Eq_rank in X; vm_compute in X; discriminate X|let X := fresh "X" in intro X; exfalso; revert X; cbn [ekey]; rewrite Hk; discriminate]).
      + cbn. unfold num_order, num_key. rewrite Hk. rewrite Z.compare_eq_iff. split; congruence.
      + destruct (eo_float f0 Eb) as [j Hj]. cbn. unfold num_order, num_key. rewrite Hk, Hj.
        rewrite Z.compare_eq_iff. split; congruence.
    - (* string *) destruct y; try discriminate Eb; try cross.
      cbn. rewrite (str_cmp_clean tp s s0 (og_str s Oa)), lex_cmp_eq. split; congruence.
    - (* list *) destruct y; try discriminate Eb; try cross.
      apply eo_list in Ea, Eb. apply ogood_list in Oa, Ob.
      change (oc (VList l) (VList l0)) with (order_t tp (VList l) (VList l0)).
      rewrite order_t_list, !ekey_list.
      rewrite (lex_eq_rel oc ekey both l); [split; congruence| |].
      + rewrite Forall_forall in *. intros x Hx y Hy. apply H; auto. split; auto.
      + rewrite Forall_forall in *. intros x Hx. split; auto.
    - (* map *) destruct y; try discriminate Eb; try cross.
      apply eo_map in Ea, Eb. apply ogood_map in Oa, Ob.
      change (oc (VMap m) (VMap m0)) with (order_t tp (VMap m) (VMap m0)).
      rewrite order_t_map, !ekey_map.
      rewrite (lex_eq_rel (entry_cmp tp) (fun kv => (fst kv, ekey (snd kv))) (fun kv => both (snd kv)) m); [split; congruence| |].
      + rewrite Forall_forall in *. intros [k x] Hx [k' y] Hy. unfold entry_cmp, plex. cbn [fst snd].
        destruct (lex_cmp k k') eqn:E.
        * apply lex_cmp_eq in E. subst k'. rewrite (H (k, x) Hx y (conj (Ea _ Hx) (Oa _ Hx)) Hy). cbn. split; [now intros ->|now intros [= ->]].
        * split; [discriminate|]. intros [= -> _]. rewrite lex_cmp_refl in E. discriminate.
        * split; [discriminate|]. intros [= -> _]. rewrite lex_cmp_refl in E. discriminate.
      + rewrite Forall_forall in *. intros x Hx. split; auto.
    - (* node *) destruct y; try discriminate Eb; try cross.
      cbn. rewrite N.compare_eq_iff. split; congruence.
    - (* rel *) destruct y; try discriminate Eb; try cross.
      cbn [order_cmp order_t ekey]. rewrite n3_cmp_eq. split; congruence.
    - (* path *) destruct y; try discriminate Eb; try cross.
      cbn [order_cmp order_t ekey].
      destruct (lex_by N.compare n nodes) eqn:E1.
      + apply (lex_by_eq N.compare N.compare_eq_iff) in E1. subst.
        rewrite (lex_by_eq n3_cmp n3_cmp_eq). split; congruence.
      + split; [discriminate|]. intros [= -> _]. rewrite (proj2 (lex_by_eq N.compare N.compare_eq_iff _ _) eq_refl) in E1. discriminate.
      + split; [discriminate|]. intros [= -> _]. rewrite (proj2 (lex_by_eq N.compare N.compare_eq_iff _ _) eq_refl) in E1. discriminate.
  Qed.

  (* the order says Eq exactly when = says true *)
  Corollary order_eq_iff_cy_eq a b : both a -> both b -> (oc a b = Eq <-> cy_eq a b = Some true).
  Proof.
    intros Ha Hb. rewrite (order_decided a b Ha Hb). symmetry. apply cy_eq_iff_key; [apply Ha|apply Hb].
  Qed.

  (* lists without nulls: the range comparison is the lexicographic ORDER BY order *)
  Lemma eo_not_null x : eo x -> is_null x = false.
  Proof. destruct x; auto; discriminate. Qed.
  Lemma list_range_lex l : Forall eo l -> forall r, Forall eo r ->
    list_range_cmp tp l r = COrd (lex_by oc l r).
  Proof.
    induction 1 as [|x t Hx _ IH]; intros [|y ty] Fr; try reflexivity.
    inversion Fr as [|? ? Hy Fty]; subst. rewrite list_range_cons, (eo_not_null x Hx), (eo_not_null y Hy). cbn [lex_by].
    destruct (oc x y); auto.
  Qed.

  (* <= is (< or =), >= is (> or =), and = holds exactly when <= and >= hold: for lists (nested
     arbitrarily) without null, NaN and temporal strings *)
  Theorem cmp_eq_consistent_lists l r :
    both (VList l) -> both (VList r) ->
    cy_le tp (VList l) (VList r) = t_or (cy_lt tp (VList l) (VList r)) (cy_eq (VList l) (VList r)) /\
    cy_ge tp (VList l) (VList r) = t_or (cy_gt tp (VList l) (VList r)) (cy_eq (VList l) (VList r)) /\
    (cy_eq (VList l) (VList r) = Some true <->
       cy_le tp (VList l) (VList r) = Some true /\ cy_ge tp (VList l) (VList r) = Some true).
  Proof.
    intros Hl Hr. pose proof (order_eq_iff_cy_eq _ _ Hl Hr) as K.
    change (oc (VList l) (VList r)) with (order_t tp (VList l) (VList r)) in K. rewrite order_t_list in K.
    unfold cy_lt, cy_le, cy_gt, cy_ge. cbn [cy_cmp].
    rewrite (list_range_lex l (proj1 (eo_list l) (proj1 Hl)) r (proj1 (eo_list r) (proj1 Hr))).
    destruct (cy_eq_decided (VList l) (VList r) (proj1 Hl) (proj1 Hr)) as [[E _]|[E _]]; rewrite E in *; cbn.
    - assert (C : lex_by oc l r = Eq) by now apply K. rewrite C. cbn. repeat split; auto.
    - destruct (lex_by oc l r) eqn:C; cbn.
      + exfalso. assert (X : Some false = Some true) by now apply K. discriminate.
      + repeat split; try discriminate; intros [? ?]; discriminate.
      + repeat split; try discriminate; intros [? ?]; discriminate.
  Qed.
End OrderEq.

Example list_cmp_instance :
  cy_lt no_temporal (VList [VFloat 0x1p+53%float]) (VList [VInt 9007199254740993]) = Some true /\
  cy_gt no_temporal (VList [VList [VInt 9007199254740993]]) (VList [VList [VFloat 0x1p+53%float]]) = Some true.
Proof. vm_compute. split; reflexivity. Qed.
