(* Cypher/Value.v — runtime values of the query engine (nervusdb-query
   executor/core_types.rs `enum Value`) and the two comparisons Rust derives
   for them (`==` = derive(PartialEq), `partial_cmp` = derive(PartialOrd)).
   Model file: executable definitions only.

   Modelled variants            Rust
     VNull                      Value::Null
     VBool b                    Value::Bool
     VInt z   (in_i64 z)        Value::Int(i64)
     VFloat f (PrimFloat)       Value::Float(f64)      all NaNs are one value
     VStr s   (UTF-8 bytes)     Value::String
     VList l                    Value::List(Vec<Value>)
     VMap m   (key-sorted)      Value::Map(BTreeMap<String, Value>)
     VNode id                   Value::NodeId(u32)
     VRel src rel dst           Value::EdgeKey(EdgeKey{src,rel,dst})
     VPath nodes edges          Value::Path(PathValue{nodes,edges})
   Not modelled: ExternalId, DateTime, Blob, Node/Relationship/ReifiedPath
   (reified values carrying labels and property maps), and maps used as
   durations (a map with key "__kind" = "duration" changes + - * /). *)
From Coq Require Export List ZArith NArith Bool Floats.
From NDB Require Export Base.Bytes.
From NDB Require Import Gen.Consts.
Export ListNotations.
Open Scope N_scope.

Inductive value : Type :=
| VNull
| VBool (b : bool)
| VInt (z : Z)
| VFloat (f : float)
| VStr (s : bytes)
| VList (l : list value)
| VMap (m : list (bytes * value))
| VNode (id : N)
| VRel (src rel dst : N)
| VPath (nodes : list N) (edges : list (N * N * N)).

(* ---------- floats: exact value of a double ----------
   Every finite double is an integer multiple of 2^-1074.  `fkey f` is that
   integer (value * 2^1074); the infinities get keys beyond every finite double
   and every i64; NaN has no key.  Both zeros have key 0.  Comparison of
   doubles (Rust `partial_cmp`, IEEE-754) is comparison of keys; that this is
   what the hardware does is validated by the correspondence check, not proved
   (same trust as C27). *)
Definition fscale : Z := 1074.
Definition finf_key : Z := Z.pow 2 2200.
Definition fkey (f : float) : option Z :=
  match Prim2SF f with
  | S754_zero _ => Some 0%Z
  | S754_infinity false => Some finf_key
  | S754_infinity true => Some (- finf_key)%Z
  | S754_nan => None
  | S754_finite s m e =>
      let v := Z.shiftl (Zpos m) (e + fscale) in Some (if s then (- v)%Z else v)
  end.
(* an i64 on the same scale *)
Definition ikey (z : Z) : Z := Z.shiftl z fscale.

Definition f_is_nan (f : float) : bool :=
  match fkey f with None => true | Some _ => false end.

(* identity of doubles as bit patterns, NaN payload ignored: +0 <> -0, NaN = NaN *)
Definition sf_eqb (a b : spec_float) : bool :=
  match a, b with
  | S754_zero s, S754_zero t => Bool.eqb s t
  | S754_infinity s, S754_infinity t => Bool.eqb s t
  | S754_nan, S754_nan => true
  | S754_finite s m e, S754_finite t n g => Bool.eqb s t && Pos.eqb m n && Z.eqb e g
  | _, _ => false
  end.
Definition f_same (a b : float) : bool := sf_eqb (Prim2SF a) (Prim2SF b).

(* Rust `a == b` on f64: IEEE equality (NaN <> NaN, +0 = -0) *)
Definition f_ieee_eqb (a b : float) : bool :=
  match fkey a, fkey b with Some x, Some y => Z.eqb x y | _, _ => false end.
(* Rust `a.partial_cmp(&b)` on f64 *)
Definition f_partial_cmp (a b : float) : option comparison :=
  match fkey a, fkey b with Some x, Some y => Some (Z.compare x y) | _, _ => None end.

(* Rust `z as f64` for an i64 (round to nearest even) *)
Definition f_of_nonneg (z : Z) : float :=
  if (z <? 9223372036854775808)%Z then PrimFloat.of_uint63 (Uint63.of_Z z)
  else 0x1p+63%float.
Definition f_of_int (z : Z) : float :=
  if (z <? 0)%Z then PrimFloat.opp (f_of_nonneg (- z)) else f_of_nonneg z.

(* ---------- small comparisons ---------- *)
Definition bool_cmp (a b : bool) : comparison :=
  match a, b with false, true => Lt | true, false => Gt | _, _ => Eq end.

Definition n3_cmp (a b : N * N * N) : comparison :=
  let '(a1, a2, a3) := a in let '(b1, b2, b3) := b in
  match a1 ?= b1 with Eq => match a2 ?= b2 with Eq => a3 ?= b3 | c => c end | c => c end.
Definition n3_eqb (a b : N * N * N) : bool :=
  match n3_cmp a b with Eq => true | _ => false end.

(* Rust Ord on Vec<T> for totally ordered T *)
Fixpoint lex_by {A} (c : A -> A -> comparison) (a b : list A) : comparison :=
  match a, b with
  | [], [] => Eq
  | [], _ :: _ => Lt
  | _ :: _, [] => Gt
  | x :: a', y :: b' => match c x y with Eq => lex_by c a' b' | o => o end
  end.

(* ---------- derive(PartialEq): Rust `==` on Value ---------- *)
Fixpoint deq (a b : value) {struct a} : bool :=
  match a, b with
  | VNull, VNull => true
  | VBool x, VBool y => Bool.eqb x y
  | VInt x, VInt y => Z.eqb x y
  | VFloat x, VFloat y => f_ieee_eqb x y
  | VStr x, VStr y => bytes_eqb x y
  | VList l, VList r =>
      (fix go (l r : list value) {struct l} : bool :=
         match l, r with
         | [], [] => true
         | x :: l', y :: r' => deq x y && go l' r'
         | _, _ => false
         end) l r
  | VMap l, VMap r =>
      (fix go (l r : list (bytes * value)) {struct l} : bool :=
         match l, r with
         | [], [] => true
         | (k, x) :: l', (k', y) :: r' => bytes_eqb k k' && deq x y && go l' r'
         | _, _ => false
         end) l r
  | VNode x, VNode y => N.eqb x y
  | VRel a1 a2 a3, VRel b1 b2 b3 => n3_eqb (a1, a2, a3) (b1, b2, b3)
  | VPath n1 e1, VPath n2 e2 =>
      cmp_eqb (lex_by N.compare n1 n2) Eq && cmp_eqb (lex_by n3_cmp e1 e2) Eq
  | _, _ => false
  end.

(* ---------- derive(PartialOrd): Rust `partial_cmp` on Value ----------
   Variants compare by declaration index first (generated from the source),
   equal variants by their fields; floats by IEEE partial_cmp (None on NaN);
   Vec and BTreeMap lexicographically, the first non-Equal element result
   (None included) decides. *)
Definition variant_index (v : value) : N :=
  match v with
  | VNode _ => cy_variant_NodeId
  | VRel _ _ _ => cy_variant_EdgeKey
  | VInt _ => cy_variant_Int
  | VFloat _ => cy_variant_Float
  | VStr _ => cy_variant_String
  | VBool _ => cy_variant_Bool
  | VNull => cy_variant_Null
  | VList _ => cy_variant_List
  | VMap _ => cy_variant_Map
  | VPath _ _ => cy_variant_Path
  end.

Fixpoint dcmp (a b : value) {struct a} : option comparison :=
  match a, b with
  | VNull, VNull => Some Eq
  | VBool x, VBool y => Some (bool_cmp x y)
  | VInt x, VInt y => Some (Z.compare x y)
  | VFloat x, VFloat y => f_partial_cmp x y
  | VStr x, VStr y => Some (lex_cmp x y)
  | VList l, VList r =>
      (fix go (l r : list value) {struct l} : option comparison :=
         match l, r with
         | [], [] => Some Eq
         | [], _ :: _ => Some Lt
         | _ :: _, [] => Some Gt
         | x :: l', y :: r' => match dcmp x y with Some Eq => go l' r' | o => o end
         end) l r
  | VMap l, VMap r =>
      (fix go (l r : list (bytes * value)) {struct l} : option comparison :=
         match l, r with
         | [], [] => Some Eq
         | [], _ :: _ => Some Lt
         | _ :: _, [] => Some Gt
         | (k, x) :: l', (k', y) :: r' =>
             match lex_cmp k k' with
             | Eq => match dcmp x y with Some Eq => go l' r' | o => o end
             | c => Some c
             end
         end) l r
  | VNode x, VNode y => Some (N.compare x y)
  | VRel a1 a2 a3, VRel b1 b2 b3 => Some (n3_cmp (a1, a2, a3) (b1, b2, b3))
  | VPath n1 e1, VPath n2 e2 =>
      Some (match lex_by N.compare n1 n2 with Eq => lex_by n3_cmp e1 e2 | c => c end)
  | _, _ => Some (N.compare (variant_index a) (variant_index b))
  end.

(* ---------- well-formedness (what the Rust types guarantee) ---------- *)
Fixpoint keys_sorted (ks : list bytes) : bool :=
  match ks with
  | [] => true
  | k :: t => match t with [] => true | k' :: _ => cmp_eqb (lex_cmp k k') Lt && keys_sorted t end
  end.

Definition is_u32 (n : N) : bool := n <? 4294967296.

Fixpoint wf_value (v : value) : bool :=
  match v with
  | VNull | VBool _ | VFloat _ => true
  | VInt z => in_i64 z
  | VStr s => wf_bytes s
  | VList l => (fix go (l : list value) : bool := match l with [] => true | x :: t => wf_value x && go t end) l
  | VMap m =>
      keys_sorted (map fst m) &&
      (fix go (m : list (bytes * value)) : bool :=
         match m with [] => true | (k, x) :: t => wf_bytes k && wf_value x && go t end) m
  | VNode id => is_u32 id
  | VRel a b c => is_u32 a && is_u32 b && is_u32 c
  | VPath ns es => forallb is_u32 ns && forallb (fun e => let '(a, b, c) := e in is_u32 a && is_u32 b && is_u32 c) es
  end.

(* ---------- structural identity (used to compare model and implementation
   results; floats as bit patterns with NaN payload masked) ---------- *)
Fixpoint value_same (a b : value) {struct a} : bool :=
  match a, b with
  | VNull, VNull => true
  | VBool x, VBool y => Bool.eqb x y
  | VInt x, VInt y => Z.eqb x y
  | VFloat x, VFloat y => f_same x y
  | VStr x, VStr y => bytes_eqb x y
  | VList l, VList r =>
      (fix go (l r : list value) {struct l} : bool :=
         match l, r with
         | [], [] => true
         | x :: l', y :: r' => value_same x y && go l' r'
         | _, _ => false
         end) l r
  | VMap l, VMap r =>
      (fix go (l r : list (bytes * value)) {struct l} : bool :=
         match l, r with
         | [], [] => true
         | (k, x) :: l', (k', y) :: r' => bytes_eqb k k' && value_same x y && go l' r'
         | _, _ => false
         end) l r
  | VNode x, VNode y => N.eqb x y
  | VRel a1 a2 a3, VRel b1 b2 b3 => n3_eqb (a1, a2, a3) (b1, b2, b3)
  | VPath n1 e1, VPath n2 e2 =>
      cmp_eqb (lex_by N.compare n1 n2) Eq && cmp_eqb (lex_by n3_cmp e1 e2) Eq
  | _, _ => false
  end.

(* three-valued results: the engine returns Value::Bool / Value::Null *)
Definition v_of_tri (t : option bool) : value :=
  match t with Some b => VBool b | None => VNull end.
Definition is_null (v : value) : bool := match v with VNull => true | _ => false end.
