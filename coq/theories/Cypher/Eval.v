(* Cypher/Eval.v — a small expression language over the operators of
   Logic/Compare/Arith and its evaluator, mirroring
   evaluator.rs evaluate_expression_value for: literals/parameters, variables,
   list construction, NOT, unary minus, abs(), IS NULL / IS NOT NULL,
   = <> < <= > >=, AND OR XOR, + - * / %, reduce().
   Model file: executable definitions only.  `None` = outside the model. *)
From NDB Require Export Cypher.Value Cypher.Compare Cypher.Logic Cypher.Arith.
Open Scope N_scope.

Inductive unop := UNot | UNeg | UAbs | UIsNull | UIsNotNull.
Inductive binop :=
| BEq | BNeq | BLt | BLe | BGt | BGe
| BAnd | BOr | BXor
| BAdd | BSub | BMul | BDiv | BMod.

Inductive expr :=
| EVal (v : value)                      (* literal or parameter *)
| EVar (i : nat)                        (* variable: position in the environment *)
| EList (es : list expr)
| EUn (o : unop) (e : expr)
| EBin (o : binop) (l r : expr)
| EReduce (init lst step : expr).       (* reduce(acc = init, x IN lst | step); step sees acc = EVar 0, x = EVar 1 *)

Definition apply_un (o : unop) (v : value) : value :=
  match o with
  | UNot => v_not v
  | UNeg => v_neg v
  | UAbs => v_abs v
  | UIsNull => VBool (is_null v)
  | UIsNotNull => VBool (negb (is_null v))
  end.

Definition apply_bin (tp : toracle) (o : binop) (l r : value) : option value :=
  match o with
  | BEq => Some (v_of_tri (cy_eq l r))
  | BNeq => Some (v_of_tri (cy_neq l r))
  | BLt => Some (v_of_tri (cy_lt tp l r))
  | BLe => Some (v_of_tri (cy_le tp l r))
  | BGt => Some (v_of_tri (cy_gt tp l r))
  | BGe => Some (v_of_tri (cy_ge tp l r))
  | BAnd => Some (v_and l r)
  | BOr => Some (v_or l r)
  | BXor => Some (v_xor l r)
  | BAdd => Some (v_add l r)
  | BSub => Some (v_sub l r)
  | BMul => Some (v_mul l r)
  | BDiv => Some (v_div l r)
  | BMod => v_mod l r
  end.

Fixpoint eval (tp : toracle) (env : list value) (e : expr) {struct e} : option value :=
  match e with
  | EVal v => Some v
  | EVar i => Some (nth i env VNull)
  | EList es =>
      (fix go (es : list expr) : option value :=
         match es with
         | [] => Some (VList [])
         | x :: t =>
             match eval tp env x, go t with
             | Some v, Some (VList vs) => Some (VList (v :: vs))
             | _, _ => None
             end
         end) es
  | EUn o x => option_map (apply_un o) (eval tp env x)
  | EBin o l r =>
      match eval tp env l, eval tp env r with
      | Some a, Some b => apply_bin tp o a b
      | _, _ => None
      end
  | EReduce init lst step =>
      match eval tp env init, eval tp env lst with
      | Some a0, Some (VList items) =>
          fold_left (fun acc x => match acc with
                                  | Some a => eval tp (a :: x :: env) step
                                  | None => None
                                  end) items (Some a0)
      | Some _, Some _ => Some VNull
      | _, _ => None
      end
  end.
