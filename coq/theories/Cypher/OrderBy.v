(* Cypher/OrderBy.v — ORDER BY / SKIP / LIMIT (executor/plan_mid.rs execute_order_by,
   plan_tail.rs execute_skip / execute_limit).  Model file: executable definitions only.

   The engine evaluates the sort keys of every row, then `sort_by` (Rust's stable
   sort, algorithm unspecified) with the comparator `keys_cmp` of Compare.v
   (per key: order_compare, reversed for DESC, first non-Equal decides), then
   `Iterator::skip` and `take`.  The model is the stable insertion sort by the same
   comparator: every stable sort returns exactly this list whenever the comparator
   is a total preorder on the keys that occur (`preorder_on`, decidable, computed
   per case); otherwise only the multiset of rows is predicted. *)
From NDB Require Export Cypher.Value Cypher.Compare.
Open Scope N_scope.

Section Sort.
  Context {A : Type} (c : A -> A -> comparison).

  (* insert x before the first element that is not smaller than x; x is an earlier row than
     every row of l, so equal rows keep their input order (stability) *)
  Fixpoint ins (x : A) (l : list A) : list A :=
    match l with
    | [] => [x]
    | y :: t => match c x y with Gt => y :: ins x t | _ => x :: y :: t end
    end.
  Fixpoint isort (l : list A) : list A :=
    match l with
    | [] => []
    | x :: t => ins x (isort t)
    end.

  Definition cle (a b : A) : bool := match c a b with Gt => false | _ => true end.

  (* the comparator is a total preorder on the elements of l, and compatible:
     antisymmetric results, transitive <= ; checked by enumeration *)
  Definition preorder_on (l : list A) : bool :=
    forallb (fun x => forallb (fun y =>
      match c x y, c y x with Lt, Gt | Gt, Lt | Eq, Eq => true | _, _ => false end &&
      forallb (fun z => implb (cle x y && cle y z) (cle x z)) l) l) l.
End Sort.

(* a row to be sorted: its sort keys (value, ascending?) and its payload (the returned columns) *)
Definition srow := (list (value * bool) * list value)%type.
Definition srow_cmp (tp : toracle) (a b : srow) : comparison := keys_cmp tp (fst a) (fst b).

Definition order_by (tp : toracle) (rows : list srow) : list srow := isort (srow_cmp tp) rows.
Definition slice {A} (s l : nat) (rows : list A) : list A := firstn l (skipn s rows).
Definition order_by_slice (tp : toracle) (s l : nat) (rows : list srow) : list (list value) :=
  map snd (slice s l (order_by tp rows)).
