(* Cypher/Equality_proofs.v — `=` is an equivalence (and never null) on ALL values that contain
   no null and no NaN at any depth: nested lists and maps of booleans, integers, floats, strings,
   node/relationship ids and paths (C23).  Method: cy_eq a b = Some true iff the canonical keys
   of a and b (numbers replaced by their exact value) are equal. *)
From NDB Require Import Base.Bytes Base.Bytes_proofs Cypher.Value Cypher.Compare Cypher.Compare_proofs Cypher.Order_proofs.
From Coq Require Import Lia.
Local Open Scope Z_scope.

Inductive ek : Type :=
| EB (b : bool) | EN (z : Z) | ES (s : bytes) | EL (l : list ek) | EM (m : list (bytes * ek))
| ENode (n : N) | ERel (a b c : N) | EPath (n : list N) (e : list (N * N * N)) | EBad.

Fixpoint ekey (v : value) : ek :=
  match v with
  | VNull => EBad
  | VBool b => EB b
  | VInt z => EN (ikey z)
  | VFloat f => match fkey f with Some k => EN k | None => EBad end
  | VStr s => ES s
  | VList l => EL ((fix go (l : list value) : list ek := match l with [] => [] | x :: t => ekey x :: go t end) l)
  | VMap m => EM ((fix go (m : list (bytes * value)) : list (bytes * ek) :=
                     match m with [] => [] | kv :: t => (fst kv, ekey (snd kv)) :: go t end) m)
  | VNode n => ENode n
  | VRel a b c => ERel a b c
  | VPath n e => EPath n e
  end.

(* no null and no NaN at any depth *)
Fixpoint eq_ok (v : value) : bool :=
  match v with
  | VNull => false
  | VFloat f => negb (f_is_nan f)
  | VList l => (fix go (l : list value) : bool := match l with [] => true | x :: t => eq_ok x && go t end) l
  | VMap m => (fix go (m : list (bytes * value)) : bool :=
                 match m with [] => true | kv :: t => eq_ok (snd kv) && go t end) m
  | _ => true
  end.
Definition eo (v : value) : Prop := eq_ok v = true.

Lemma ekey_list l : ekey (VList l) = EL (map ekey l).
Proof. reflexivity. Qed.
Lemma ekey_map m : ekey (VMap m) = EM (map (fun kv => (fst kv, ekey (snd kv))) m).
Proof. reflexivity. Qed.
Lemma eo_list l : eo (VList l) <-> Forall eo l.
Proof.
  unfold eo. cbn. induction l as [|x t IH]; [split; constructor|].
  rewrite Bool.andb_true_iff, IH. split; [intros []; now constructor|intros H; inversion H; auto].
Qed.
Lemma eo_map m : eo (VMap m) <-> Forall (fun kv => eo (snd kv)) m.
Proof.
  unfold eo. cbn. induction m as [|x t IH]; [split; constructor|].
  rewrite Bool.andb_true_iff, IH. split; [intros []; now constructor|intros H; inversion H; auto].
Qed.

(* the element loops of cypher_equals_sequence / cypher_equals_map *)
Fixpoint eq_seq (l r : list value) : option bool :=
  match l, r with
  | x :: l', y :: r' => tri_step (cy_eq x y) (eq_seq l' r')
  | _, _ => Some true
  end.
Fixpoint eq_entries (l r : list (bytes * value)) : option bool :=
  match l, r with
  | (k, x) :: l', (k', y) :: r' => if bytes_eqb k k' then tri_step (cy_eq x y) (eq_entries l' r') else Some false
  | _, _ => Some true
  end.
Lemma cy_eq_list l r :
  cy_eq (VList l) (VList r) = if negb (Nat.eqb (length l) (length r)) then Some false else eq_seq l r.
Proof.
  cbn [cy_eq]. destruct (negb _); [reflexivity|]. revert r.
  induction l as [|x t IH]; intros [|y ty]; try reflexivity; cbn [eq_seq]; now rewrite <- IH.
Qed.
Lemma cy_eq_map l r :
  cy_eq (VMap l) (VMap r) = if negb (Nat.eqb (length l) (length r)) then Some false else eq_entries l r.
Proof.
  cbn [cy_eq]. destruct (negb _); [reflexivity|]. revert r.
  induction l as [|[k x] t IH]; intros [|[k' y] ty]; try reflexivity; cbn [eq_entries]; now rewrite <- IH.
Qed.

Definition decided (a b : value) : Prop :=
  (cy_eq a b = Some true /\ ekey a = ekey b) \/ (cy_eq a b = Some false /\ ekey a <> ekey b).

Lemma eq_seq_decided l : Forall (fun x => forall b, eo x -> eo b -> decided x b) l ->
  forall r, Forall eo l -> Forall eo r -> length l = length r ->
  (eq_seq l r = Some true /\ map ekey l = map ekey r) \/ (eq_seq l r = Some false /\ map ekey l <> map ekey r).
Proof.
  induction 1 as [|x t Hx _ IH]; intros [|y ty] Fl Fr Len; try discriminate Len.
  - left. split; reflexivity.
  - inversion Fl; subst. inversion Fr; subst. cbn in Len. injection Len as Len. cbn.
    destruct (Hx y H1 H3) as [[E K]|[E K]]; rewrite E; cbn.
    + destruct (IH ty H2 H4 Len) as [[E' K']|[E' K']]; rewrite E'; [left|right]; split; try reflexivity; congruence.
    + right. split; [reflexivity|]. congruence.
Qed.
Lemma eq_entries_decided l : Forall (fun kv => forall b, eo (snd kv) -> eo b -> decided (snd kv) b) l ->
  forall r, Forall (fun kv => eo (snd kv)) l -> Forall (fun kv => eo (snd kv)) r -> length l = length r ->
  let f := map (fun kv : bytes * value => (fst kv, ekey (snd kv))) in
  (eq_entries l r = Some true /\ f l = f r) \/ (eq_entries l r = Some false /\ f l <> f r).
Proof.
  induction 1 as [|[k x] t Hx _ IH]; intros [|[k' y] ty] Fl Fr Len; try discriminate Len; cbn.
  - left. split; reflexivity.
  - inversion Fl; subst. inversion Fr; subst. cbn in Len. injection Len as Len. cbn in *.
    destruct (bytes_eqb k k') eqn:Ek.
    + apply bytes_eqb_eq in Ek. subst k'.
      destruct (Hx y H1 H3) as [[E K]|[E K]]; rewrite E; cbn.
      * destruct (IH ty H2 H4 Len) as [[E' K']|[E' K']]; rewrite E'; [left|right]; split; try reflexivity; congruence.
      * right. split; [reflexivity|]. congruence.
    + right. split; [reflexivity|]. intros [= -> _]. assert (bytes_eqb k' k' = true) by now apply bytes_eqb_eq. congruence.
Qed.

Lemma lex_by_eq {A} (c : A -> A -> comparison) :
  (forall a b, c a b = Eq <-> a = b) -> forall l r, lex_by c l r = Eq <-> l = r.
Proof.
  intros H. induction l as [|x t IH]; intros [|y ty]; cbn; split; try discriminate; try reflexivity.
  - destruct (c x y) eqn:E; try discriminate. apply H in E. subst. intros Ht. apply IH in Ht. now subst.
  - intros [= -> ->]. assert (E : c y y = Eq) by now apply H. rewrite E. now apply IH.
Qed.
Lemma n3_cmp_eq s t : n3_cmp s t = Eq <-> s = t.
Proof.
  destruct s as [[a b] c], t as [[a' b'] c']. cbn. split.
  - destruct (N.compare_spec a a'); try discriminate. destruct (N.compare_spec b b'); try discriminate.
    intros Hc. apply N.compare_eq in Hc. now subst.
  - intros [= -> -> ->]. now rewrite !N.compare_refl.
Qed.
Lemma cmp_eqb_Eq c : cmp_eqb c Eq = true <-> c = Eq.
Proof. destruct c; cbn; split; congruence. Qed.

Lemma scalar_of_eo v : eo v -> match v with VBool _ | VInt _ | VFloat _ | VStr _ => scalar_ok v = true | _ => True end.
Proof. destruct v; auto. Qed.

Lemma ekey_scalar v : scalar_ok v = true ->
  ekey v = match sc_key v with KB b => EB b | KN z => EN z | KS s => ES s | KNone => EBad end.
Proof. destruct v; try discriminate; cbn; auto. intros _. now destruct (fkey f). Qed.

Theorem cy_eq_decided a : forall b, eo a -> eo b -> decided a b.
Proof.
  induction a using value_ind'; intros y Ha Hb.
  - discriminate Ha.
  - (* bool *) destruct y; try discriminate Hb; try (right; split; [reflexivity|cbn; try destruct (fkey f); discriminate]).
    destruct (cy_eq_scalar (VBool b) (VBool b0) eq_refl eq_refl) as [[E K]|[E K]]; [left|right]; (split; [exact E|]); cbn in *; congruence.
  - (* int *) destruct y; try discriminate Hb; try (right; split; [reflexivity|cbn; discriminate]).
    + destruct (cy_eq_scalar (VInt z) (VInt z0) eq_refl eq_refl) as [[E K]|[E K]]; [left|right]; (split; [exact E|]); cbn in *; congruence.
    + destruct (cy_eq_scalar (VInt z) (VFloat f) eq_refl Hb) as [[E K]|[E K]]; [left|right]; (split; [exact E|]);
        rewrite (ekey_scalar (VFloat f) Hb); cbn in *; destruct (fkey f); congruence.
  - (* float *) destruct y; try discriminate Hb;
      try (right; split; [reflexivity|rewrite (ekey_scalar (VFloat f) Ha); cbn; destruct (fkey f); discriminate]).
    + destruct (cy_eq_scalar (VFloat f) (VInt z) Ha eq_refl) as [[E K]|[E K]]; [left|right]; (split; [exact E|]);
        rewrite (ekey_scalar (VFloat f) Ha); cbn in *; destruct (fkey f); congruence.
    + destruct (cy_eq_scalar (VFloat f) (VFloat f0) Ha Hb) as [[E K]|[E K]]; [left|right]; (split; [exact E|]);
        rewrite (ekey_scalar (VFloat f) Ha), (ekey_scalar (VFloat f0) Hb); cbn in *; destruct (fkey f), (fkey f0); congruence.
  - (* string *) destruct y; try discriminate Hb; try (right; split; [reflexivity|cbn; try destruct (fkey f); discriminate]).
    destruct (cy_eq_scalar (VStr s) (VStr s0) eq_refl eq_refl) as [[E K]|[E K]]; [left|right]; (split; [exact E|]); cbn in *; congruence.
  - (* list *) destruct y; try discriminate Hb; try (right; split; [reflexivity|rewrite ekey_list; cbn; try destruct (fkey f); discriminate]).
    unfold decided. rewrite cy_eq_list, !ekey_list. apply eo_list in Ha, Hb.
    destruct (Nat.eqb_spec (length l) (length l0)) as [Len|Len]; cbn [negb].
    + destruct (eq_seq_decided l H l0 Ha Hb Len) as [[E K]|[E K]]; [left|right]; (split; [exact E|]); congruence.
    + right. split; [reflexivity|]. intros [= K]. apply Len. now rewrite <- (map_length ekey l), K, map_length.
  - (* map *) destruct y; try discriminate Hb; try (right; split; [reflexivity|rewrite ekey_map; cbn; try destruct (fkey f); discriminate]).
    unfold decided. rewrite cy_eq_map, !ekey_map. apply eo_map in Ha, Hb.
    destruct (Nat.eqb_spec (length m) (length m0)) as [Len|Len]; cbn [negb].
    + destruct (eq_entries_decided m H m0 Ha Hb Len) as [[E K]|[E K]]; [left|right]; (split; [exact E|]); congruence.
    + right. split; [reflexivity|]. intros [= K]. apply Len.
      now rewrite <- (map_length (fun kv => (fst kv, ekey (snd kv))) m), K, map_length.
  - (* node *) destruct y; try discriminate Hb; try (right; split; [reflexivity|cbn; try destruct (fkey f); discriminate]).
    unfold decided. cbn [cy_eq deq ekey]. destruct (N.eqb_spec n id) as [->|Ne]; [left|right]; split; try reflexivity. intros [= K]. contradiction.
  - (* rel *) destruct y; try discriminate Hb; try (right; split; [reflexivity|cbn; try destruct (fkey f); discriminate]).
    unfold decided. cbn [cy_eq deq ekey]. unfold n3_eqb.
    destruct (n3_cmp (a, b, c) (src, rel, dst)) eqn:E.
    + apply n3_cmp_eq in E. injection E as -> -> ->. left. split; reflexivity.
    + right. split; [reflexivity|]. intros [= -> -> ->]. rewrite (proj2 (n3_cmp_eq _ _) eq_refl) in E. discriminate.
    + right. split; [reflexivity|]. intros [= -> -> ->]. rewrite (proj2 (n3_cmp_eq _ _) eq_refl) in E. discriminate.
  - (* path *) destruct y; try discriminate Hb; try (right; split; [reflexivity|cbn; try destruct (fkey f); discriminate]).
    unfold decided. cbn [cy_eq deq ekey].
    destruct (lex_by N.compare n nodes) eqn:E1; cbn [cmp_eqb andb].
    + apply (lex_by_eq N.compare N.compare_eq_iff) in E1. subst.
      destruct (lex_by n3_cmp e edges) eqn:E2; cbn [cmp_eqb].
      * apply (lex_by_eq n3_cmp n3_cmp_eq) in E2. subst. left. split; reflexivity.
      * right. split; [reflexivity|]. intros [= ->]. rewrite (proj2 (lex_by_eq n3_cmp n3_cmp_eq _ _) eq_refl) in E2. discriminate.
      * right. split; [reflexivity|]. intros [= ->]. rewrite (proj2 (lex_by_eq n3_cmp n3_cmp_eq _ _) eq_refl) in E2. discriminate.
    + right. split; [reflexivity|]. intros [= -> ->]. rewrite (proj2 (lex_by_eq N.compare N.compare_eq_iff _ _) eq_refl) in E1. discriminate.
    + right. split; [reflexivity|]. intros [= -> ->]. rewrite (proj2 (lex_by_eq N.compare N.compare_eq_iff _ _) eq_refl) in E1. discriminate.
Qed.

Lemma cy_eq_iff_key a b : eo a -> eo b -> (cy_eq a b = Some true <-> ekey a = ekey b).
Proof.
  intros Ha Hb. destruct (cy_eq_decided a b Ha Hb) as [[E K]|[E K]]; rewrite E; split; intros; try easy; try congruence.
Qed.

Theorem eq_equivalence_all :
  (forall a, eo a -> cy_eq a a = Some true) /\
  (forall a b, eo a -> eo b -> cy_eq a b = cy_eq b a) /\
  (forall a b c, eo a -> eo b -> eo c -> cy_eq a b = Some true -> cy_eq b c = Some true -> cy_eq a c = Some true) /\
  (forall a b, eo a -> eo b -> cy_eq a b <> None).
Proof.
  repeat split.
  - intros a Ha. now apply cy_eq_iff_key.
  - intros a b Ha Hb.
    destruct (cy_eq_decided a b Ha Hb) as [[E K]|[E K]], (cy_eq_decided b a Hb Ha) as [[E' K']|[E' K']]; congruence.
  - intros a b c Ha Hb Hc H1 H2. apply cy_eq_iff_key in H1, H2; trivial. apply cy_eq_iff_key; trivial. congruence.
  - intros a b Ha Hb. destruct (cy_eq_decided a b Ha Hb) as [[E _]|[E _]]; rewrite E; discriminate.
Qed.

Example eo_instance :
  eo (VList [VMap [([97]%N, VFloat 0x1p+53%float)]; VInt 9007199254740993; VPath [1%N] []; VStr []]).
Proof. reflexivity. Qed.
Example eq_nested_int_float :
  cy_eq (VList [VInt 1; VMap [([97]%N, VFloat 0x1p+1%float)]]) (VList [VFloat 0x1p+0%float; VMap [([97]%N, VInt 2)]]) = Some true.
Proof. vm_compute. reflexivity. Qed.
