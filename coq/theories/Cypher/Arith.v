(* Cypher/Arith.v — arithmetic operators of the evaluator
   (evaluator_arithmetic.rs add/subtract/multiply/divide_values,
   evaluator_numeric.rs numeric_binop / numeric_div / numeric_mod,
   evaluator.rs unary minus, evaluator_scalars.rs abs).
   Model file: executable definitions only.

   Integer arithmetic is exact (the code computes in i128); a result outside
   i64 is replaced by the float operation on the operands converted to f64.
   Not modelled: duration maps, temporal-string +/- duration, `^` (no pow in PrimFloat).
   `%` on floats is C fmod, which is exact: computed on the exact keys of Value.v. *)
From NDB Require Export Cypher.Value.
Open Scope N_scope.

Definition num_binop (iop : Z -> Z -> Z) (fop : float -> float -> float) (l r : value) : value :=
  match l, r with
  | VNull, _ | _, VNull => VNull
  | VInt x, VInt y =>
      let z := iop x y in
      if in_i64 z then VInt z else VFloat (fop (f_of_int x) (f_of_int y))
  | VInt x, VFloat g => VFloat (fop (f_of_int x) g)
  | VFloat f, VInt y => VFloat (fop f (f_of_int y))
  | VFloat f, VFloat g => VFloat (fop f g)
  | _, _ => VNull
  end.

Definition v_add (l r : value) : value :=
  match l, r with
  | VNull, _ | _, VNull => VNull
  | VStr a, VStr b => VStr (a ++ b)
  | VList a, VList b => VList (a ++ b)
  | VList a, x => VList (a ++ [x])
  | x, VList b => VList (x :: b)
  | _, _ => num_binop Z.add PrimFloat.add l r
  end.
Definition v_sub (l r : value) : value := num_binop Z.sub PrimFloat.sub l r.
Definition v_mul (l r : value) : value := num_binop Z.mul PrimFloat.mul l r.

Definition v_div (l r : value) : value :=
  match l, r with
  | VNull, _ | _, VNull => VNull
  | VInt x, VInt y =>
      if (y =? 0)%Z then VNull
      else let q := Z.quot x y in
           if in_i64 q then VInt q else VFloat (PrimFloat.div (f_of_int x) (f_of_int y))
  | VInt x, VFloat g => VFloat (PrimFloat.div (f_of_int x) g)
  | VFloat f, VInt y => VFloat (PrimFloat.div f (f_of_int y))
  | VFloat f, VFloat g => VFloat (PrimFloat.div f g)
  | _, _ => VNull
  end.

(* the double with exact value r * 2^-1074 (r > 0, assumed representable) *)
Definition f_of_key_pos (r : Z) : float :=
  let l := Z.log2 r in
  let sh := (if l <? 53 then 0 else l - 52)%Z in
  Z.ldexp (PrimFloat.of_uint63 (Uint63.of_Z (Z.shiftr r sh))) (sh - 1074).
(* Rust `x % y` on f64 (C fmod; always exact): NaN if x is not finite, y is NaN or y = 0;
   x if x = +-0 or y is infinite; otherwise sign(x) * (|x| mod |y|), computed on the exact keys *)
Definition f_rem (x y : float) : float :=
  match Prim2SF x, Prim2SF y with
  | S754_nan, _ | _, S754_nan | S754_infinity _, _ | _, S754_zero _ => nan
  | S754_zero _, _ => x
  | _, S754_infinity _ => x
  | S754_finite sx _ _, S754_finite _ _ _ =>
      match fkey x, fkey y with
      | Some kx, Some ky =>
          let r := Z.rem (Z.abs kx) (Z.abs ky) in
          if (r =? 0)%Z then (if sx then (-0)%float else 0%float)
          else if sx then PrimFloat.opp (f_of_key_pos r) else f_of_key_pos r
      | _, _ => nan
      end
  end.

(* numeric_mod; the result is always Some (the option type is kept for callers that
   treat None as "outside the model") *)
Definition v_mod (l r : value) : option value :=
  match l, r with
  | VNull, _ | _, VNull => Some VNull
  | _, VInt 0 => Some VNull
  | VInt x, VInt y => Some (VInt (Z.rem x y))
  | VInt x, VFloat g =>
      match fkey g with Some 0%Z => Some VNull | _ => Some (VFloat (f_rem (f_of_int x) g)) end
  | VFloat f, VFloat g =>
      match fkey g with Some 0%Z => Some VNull | _ => Some (VFloat (f_rem f g)) end
  | VFloat f, VInt y => Some (VFloat (f_rem f (f_of_int y)))
  | _, _ => Some VNull
  end.

Definition v_neg (v : value) : value :=
  match v with
  | VInt x => let z := (- x)%Z in if in_i64 z then VInt z else VFloat (PrimFloat.opp (f_of_int x))
  | VFloat f => VFloat (PrimFloat.opp f)
  | _ => VNull
  end.

Definition v_abs (v : value) : value :=
  match v with
  | VInt x => let z := Z.abs x in if in_i64 z then VInt z else VFloat (PrimFloat.abs (f_of_int x))
  | VFloat f => VFloat (PrimFloat.abs f)
  | _ => VNull
  end.
