(* Cypher/Arith.v — arithmetic operators of the evaluator
   (evaluator_arithmetic.rs add/subtract/multiply/divide_values,
   evaluator_numeric.rs numeric_binop / numeric_div / numeric_mod,
   evaluator.rs unary minus, evaluator_scalars.rs abs).
   Model file: executable definitions only.

   Integer arithmetic is exact (the code computes in i128); a result outside
   i64 is replaced by the float operation on the operands converted to f64.
   Not modelled: duration maps, temporal-string +/- duration, `%` and `^` with
   a float operand (no fmod/pow in PrimFloat): `v_mod` returns None there. *)
From NDB Require Export Cypher.Value.
Open Scope N_scope.

Definition num_binop (iop : Z -> Z -> Z) (fop : float -> float -> float) (l r : value) : value :=
  match l, r with
  | VNull, _ | _, VNull => VNull
  | VInt x, VInt y =>
      let z := iop x y in
      if in_i64 z then VInt z else VFloat (fop (f_of_int x) (f_of_int y))
  | VInt x, VFloat g => VFloat (fop (f_of_int x) g)
  | VFloat f, VInt y => VFloat (fop f (f_of_int y))
  | VFloat f, VFloat g => VFloat (fop f g)
  | _, _ => VNull
  end.

Definition v_add (l r : value) : value :=
  match l, r with
  | VNull, _ | _, VNull => VNull
  | VStr a, VStr b => VStr (a ++ b)
  | VList a, VList b => VList (a ++ b)
  | VList a, x => VList (a ++ [x])
  | x, VList b => VList (x :: b)
  | _, _ => num_binop Z.add PrimFloat.add l r
  end.
Definition v_sub (l r : value) : value := num_binop Z.sub PrimFloat.sub l r.
Definition v_mul (l r : value) : value := num_binop Z.mul PrimFloat.mul l r.

Definition v_div (l r : value) : value :=
  match l, r with
  | VNull, _ | _, VNull => VNull
  | VInt x, VInt y =>
      if (y =? 0)%Z then VNull
      else let q := Z.quot x y in
           if in_i64 q then VInt q else VFloat (PrimFloat.div (f_of_int x) (f_of_int y))
  | VInt x, VFloat g => VFloat (PrimFloat.div (f_of_int x) g)
  | VFloat f, VInt y => VFloat (PrimFloat.div f (f_of_int y))
  | VFloat f, VFloat g => VFloat (PrimFloat.div f g)
  | _, _ => VNull
  end.

(* None = outside the model (float remainder) *)
Definition v_mod (l r : value) : option value :=
  match l, r with
  | VNull, _ | _, VNull => Some VNull
  | _, VInt 0 => Some VNull
  | VInt x, VInt y => Some (VInt (Z.rem x y))
  | (VInt _ | VFloat _), VFloat g =>
      match fkey g with Some 0%Z => Some VNull | _ => None end
  | VFloat _, VInt _ => None
  | _, VFloat g => Some VNull
  | _, _ => Some VNull
  end.

Definition v_neg (v : value) : value :=
  match v with
  | VInt x => let z := (- x)%Z in if in_i64 z then VInt z else VFloat (PrimFloat.opp (f_of_int x))
  | VFloat f => VFloat (PrimFloat.opp f)
  | _ => VNull
  end.

Definition v_abs (v : value) : value :=
  match v with
  | VInt x => let z := Z.abs x in if in_i64 z then VInt z else VFloat (PrimFloat.abs (f_of_int x))
  | VFloat f => VFloat (PrimFloat.abs f)
  | _ => VNull
  end.
