(* Cypher/OrderBy_proofs.v — ORDER BY returns a sorted permutation; SKIP/LIMIT slice it;
   the comparator is a total preorder on flat keys (C20). *)
From NDB Require Import Base.Bytes Base.Bytes_proofs Cypher.Value Cypher.Compare Cypher.OrderBy Cypher.Compare_proofs Cypher.Order_proofs.
From Coq Require Import Lia Sorting.Permutation Sorting.Sorted.
Local Open Scope Z_scope.

Section SortProofs.
  Context {A : Type} (c : A -> A -> comparison).
  Notation le := (fun a b => cle c a b = true).

  Lemma ins_perm x l : Permutation (x :: l) (ins c x l).
  Proof.
    induction l as [|y t IH]; cbn; [reflexivity|].
    destruct (c x y); try reflexivity.
    rewrite perm_swap. now apply perm_skip.
  Qed.
  Theorem isort_perm l : Permutation l (isort c l).
  Proof.
    induction l as [|x t IH]; cbn; [constructor|].
    rewrite <- ins_perm. now apply perm_skip.
  Qed.

  (* what sortedness needs from the comparator, on the elements that occur *)
  Definition total_on (P : A -> Prop) := forall a b, P a -> P b -> cle c a b = true \/ cle c b a = true.
  Definition trans_on (P : A -> Prop) :=
    forall a b d, P a -> P b -> P d -> cle c a b = true -> cle c b d = true -> cle c a d = true.

  Lemma ins_in x l y : In y (ins c x l) -> y = x \/ In y l.
  Proof. intros H. apply (Permutation_in _ (Permutation_sym (ins_perm x l))) in H. destruct H; auto. Qed.

  Lemma ins_sorted (P : A -> Prop) x l :
    total_on P -> trans_on P -> P x -> Forall P l ->
    StronglySorted le l -> StronglySorted le (ins c x l).
  Proof.
    intros T R Px Pl S. induction S as [|y t S IH F]; cbn.
    - constructor; constructor.
    - inversion Pl as [|? ? Py Pt]; subst.
      destruct (c x y) eqn:E.
      + constructor; [now constructor|]. constructor.
        * unfold cle. now rewrite E.
        * rewrite Forall_forall in *. intros z Hz. apply (R x y z); auto. unfold cle. now rewrite E.
      + constructor; [now constructor|]. constructor.
        * unfold cle. now rewrite E.
        * rewrite Forall_forall in *. intros z Hz. apply (R x y z); auto. unfold cle. now rewrite E.
      + constructor; [now apply IH|].
        rewrite Forall_forall in *. intros z Hz. apply ins_in in Hz. destruct Hz as [->|Hz]; [|now apply F].
        destruct (T x y Px Py) as [H|H]; [|exact H]. unfold cle in H. now rewrite E in H.
  Qed.

  Theorem isort_sorted (P : A -> Prop) l :
    total_on P -> trans_on P -> Forall P l -> StronglySorted le (isort c l).
  Proof.
    intros T R Pl. induction l as [|x t IH]; cbn; [constructor|].
    inversion Pl as [|? ? Px Pt]; subst.
    apply (ins_sorted P); auto.
    rewrite Forall_forall in *. intros y Hy. apply Pt.
    now apply (Permutation_in _ (Permutation_sym (isort_perm t))).
  Qed.

  (* stability: the sort never reorders two rows that compare Equal — stated as: the output
     restricted to any class of mutually equal... kept simple: sorting a sorted list is the identity *)
  Lemma ins_head x l : Forall (fun y => cle c x y = true) l -> ins c x l = x :: l.
  Proof.
    destruct l as [|y t]; cbn; [reflexivity|]. intros F. inversion F as [|? ? H _]; subst.
    unfold cle in H. destruct (c x y); try reflexivity. discriminate.
  Qed.
  Theorem isort_sorted_id l : StronglySorted le l -> isort c l = l.
  Proof.
    induction 1 as [|x t S IH F]; cbn; [reflexivity|]. rewrite IH. now apply ins_head.
  Qed.

  (* the decidable per-case check implies the hypotheses of isort_sorted on that list *)
  Lemma preorder_on_sound l :
    preorder_on c l = true -> total_on (fun x => In x l) /\ trans_on (fun x => In x l).
  Proof.
    unfold preorder_on. rewrite forallb_forall. intros H. split.
    - intros a b Ha Hb. specialize (H a Ha). rewrite forallb_forall in H. specialize (H b Hb).
      apply andb_prop in H. destruct H as [H _]. unfold cle.
      destruct (c a b), (c b a); auto; discriminate.
    - intros a b d Ha Hb Hd H1 H2. specialize (H a Ha). rewrite forallb_forall in H. specialize (H b Hb).
      apply andb_prop in H. destruct H as [_ H]. rewrite forallb_forall in H. specialize (H d Hd).
      rewrite H1, H2 in H. cbn in H. exact H.
  Qed.
End SortProofs.

(* ---------- SKIP / LIMIT ---------- *)
Lemma nth_skipn' {A} (s i : nat) (l : list A) d : nth i (skipn s l) d = nth (s + i) l d.
Proof.
  revert l. induction s as [|s IH]; intros l; [reflexivity|].
  destruct l as [|x t]; cbn; [now destruct i|]. apply IH.
Qed.
Lemma nth_firstn' {A} (n i : nat) (l : list A) d : (i < n)%nat -> nth i (firstn n l) d = nth i l d.
Proof.
  revert i l. induction n as [|n IH]; intros i l H; [lia|].
  destruct l as [|x t]; cbn; [reflexivity|]. destruct i; [reflexivity|]. apply IH. lia.
Qed.
(* SKIP s LIMIT l returns exactly the rows at positions s .. s+l-1 *)
Theorem slice_positions {A} (s l : nat) (rows : list A) (i : nat) (d : A) :
  (i < l)%nat -> nth i (slice s l rows) d = nth (s + i) rows d.
Proof. intros Hi. unfold slice. rewrite nth_firstn' by exact Hi. apply nth_skipn'. Qed.
Theorem slice_length {A} (s l : nat) (rows : list A) :
  length (slice s l rows) = Nat.min l (length rows - s).
Proof. unfold slice. now rewrite firstn_length, skipn_length. Qed.

(* ---------- the ORDER BY comparator on flat keys ---------- *)
(* flat keys: null, booleans, integers, floats (NaN included), strings the temporal parser rejects *)
Definition flat_ok (tp : toracle) (v : value) : bool :=
  match v with
  | VNull | VBool _ | VInt _ | VFloat _ => true
  | VStr s => match tp s with None => true | Some _ => false end
  | _ => false
  end.

(* an order-embedding of flat keys: (rank, key) compared lexicographically *)
Inductive fkey3 := FB (b : bool) | FZ (z : Z) | FNaN | FS (s : bytes) | FNull.
Definition flat_key (v : value) : fkey3 :=
  match v with
  | VBool b => FB b
  | VInt z => FZ (ikey z)
  | VFloat f => match fkey f with Some k => FZ k | None => FNaN end
  | VStr s => FS s
  | _ => FNull
  end.
Definition fk_rank (k : fkey3) : Z :=
  match k with FS _ => 5 | FB _ => 6 | FZ _ => 7 | FNaN => 8 | FNull => 10 end.
Definition fk_cmp (a b : fkey3) : comparison :=
  match a, b with
  | FB x, FB y => bool_cmp x y
  | FZ x, FZ y => Z.compare x y
  | FS x, FS y => lex_cmp x y
  | _, _ => Z.compare (fk_rank a) (fk_rank b)
  end.

Lemma order_cmp_flat tp a b :
  flat_ok tp a = true -> flat_ok tp b = true -> order_cmp tp a b = fk_cmp (flat_key a) (flat_key b).
Proof.
  intros Ha Hb.
  destruct a as [|x|x|f|s| | | | |]; try discriminate Ha;
  destruct b as [|y|y|g|t| | | | |]; try discriminate Hb; try reflexivity;
    cbn [flat_key]; unfold order_cmp; cbn [order_t]; unfold num_order, num_key;
    try (destruct (fkey f)); try (destruct (fkey g)); try reflexivity.
  - cbn. now rewrite ikey_compare.
  - cbn in Ha. unfold str_cmp. cbn. destruct (tp s); [discriminate|reflexivity].
Qed.

Lemma fk_cmp_antisym a b : fk_cmp b a = CompOpp (fk_cmp a b).
Proof.
  destruct a, b; cbn; try reflexivity.
  - apply bool_cmp_antisym.
  - apply Z.compare_antisym.
  - apply lex_cmp_antisym.
Qed.

Definition fk_le a b := match fk_cmp a b with Gt => false | _ => true end.
Lemma bool_cmp_le_trans x y z : bool_cmp x y <> Gt -> bool_cmp y z <> Gt -> bool_cmp x z <> Gt.
Proof. destruct x, y, z; cbn; congruence. Qed.
Lemma lex_cmp_le_trans x y z : lex_cmp x y <> Gt -> lex_cmp y z <> Gt -> lex_cmp x z <> Gt.
Proof.
  intros H1 H2.
  destruct (lex_cmp x y) eqn:E1; try congruence; destruct (lex_cmp y z) eqn:E2; try congruence.
  - apply lex_cmp_eq in E1, E2. subst. rewrite lex_cmp_refl. discriminate.
  - apply lex_cmp_eq in E1. subst. rewrite E2. discriminate.
  - apply lex_cmp_eq in E2. subst. rewrite E1. discriminate.
  - rewrite (lex_lt_trans _ _ _ E1 E2). discriminate.
Qed.
Lemma fk_le_trans a b d : fk_le a b = true -> fk_le b d = true -> fk_le a d = true.
Proof.
  unfold fk_le.
  destruct a, b, d; cbn; try (intros; reflexivity); try discriminate;
    intros H1 H2;
    match goal with
    | |- context [bool_cmp ?x ?z] =>
        match type of H1 with context [bool_cmp x ?y] =>
          pose proof (bool_cmp_le_trans x y z) as T; destruct (bool_cmp x y), (bool_cmp y z), (bool_cmp x z);
          try reflexivity; try discriminate; exfalso; apply T; congruence end
    | |- context [lex_cmp ?x ?z] =>
        match type of H1 with context [lex_cmp x ?y] =>
          pose proof (lex_cmp_le_trans x y z) as T; destruct (lex_cmp x y), (lex_cmp y z), (lex_cmp x z);
          try reflexivity; try discriminate; exfalso; apply T; congruence end
    | |- context [Z.compare ?x ?z] =>
        match type of H1 with context [Z.compare x ?y] =>
          destruct (Z.compare_spec x y), (Z.compare_spec y z), (Z.compare_spec x z);
          try reflexivity; try discriminate; lia end
    end.
Qed.

(* order_cmp is a total preorder on flat keys: antisymmetric results, reflexive, total, transitive *)
Theorem order_cmp_total_preorder_flat tp :
  (forall a b, flat_ok tp a = true -> flat_ok tp b = true -> order_cmp tp b a = CompOpp (order_cmp tp a b)) /\
  (forall a, flat_ok tp a = true -> order_cmp tp a a = Eq) /\
  (forall a b, flat_ok tp a = true -> flat_ok tp b = true ->
     cle (order_cmp tp) a b = true \/ cle (order_cmp tp) b a = true) /\
  (forall a b d, flat_ok tp a = true -> flat_ok tp b = true -> flat_ok tp d = true ->
     cle (order_cmp tp) a b = true -> cle (order_cmp tp) b d = true -> cle (order_cmp tp) a d = true).
Proof.
  repeat split.
  - intros a b Ha Hb. rewrite !order_cmp_flat by assumption. apply fk_cmp_antisym.
  - intros a Ha. rewrite order_cmp_flat by assumption.
    pose proof (fk_cmp_antisym (flat_key a) (flat_key a)) as H. destruct (fk_cmp (flat_key a) (flat_key a)); cbn in H; congruence.
  - intros a b Ha Hb. unfold cle. rewrite (order_cmp_flat tp b a), (order_cmp_flat tp a b) by assumption.
    rewrite (fk_cmp_antisym (flat_key a) (flat_key b)). destruct (fk_cmp (flat_key a) (flat_key b)); cbn; auto.
  - intros a b d Ha Hb Hd. unfold cle. rewrite !order_cmp_flat by assumption. apply fk_le_trans.
Qed.

(* ---------- ORDER BY with one flat key, ascending or descending ---------- *)
Definition one_key (tp : toracle) (asc : bool) (r : srow) : Prop :=
  exists v, fst r = [(v, asc)] /\ flat_ok tp v = true.

Lemma srow_cmp_one tp asc v w p q :
  srow_cmp tp ([(v, asc)], p) ([(w, asc)], q) =
  match order_cmp tp v w with Eq => Eq | c => if asc then c else CompOpp c end.
Proof. unfold srow_cmp. cbn. now destruct (order_cmp tp v w). Qed.

Lemma srow_cle_one tp asc v w p q :
  flat_ok tp v = true -> flat_ok tp w = true ->
  cle (srow_cmp tp) ([(v, asc)], p) ([(w, asc)], q) =
  if asc then cle (order_cmp tp) v w else cle (order_cmp tp) w v.
Proof.
  intros Hv Hw. unfold cle at 1. rewrite srow_cmp_one.
  destruct (order_cmp_total_preorder_flat tp) as (AS & _).
  unfold cle. rewrite (AS v w Hv Hw). destruct asc, (order_cmp tp v w); reflexivity.
Qed.

Theorem order_by_sorted_one_key tp asc rows :
  Forall (one_key tp asc) rows ->
  StronglySorted (fun a b => cle (srow_cmp tp) a b = true) (order_by tp rows) /\
  Permutation rows (order_by tp rows).
Proof.
  intros F. split; [|apply isort_perm].
  destruct (order_cmp_total_preorder_flat tp) as (_ & _ & TOT & TR).
  apply (isort_sorted (srow_cmp tp) (one_key tp asc)); [| |exact F].
  - intros [ka pa] [kb pb] (v & Ev & Hv) (w & Ew & Hw). cbn in Ev, Ew. subst.
    rewrite !srow_cle_one by assumption. destruct asc; [apply TOT|rewrite or_comm; apply TOT]; assumption.
  - intros [ka pa] [kb pb] [kd pd] (v & Ev & Hv) (w & Ew & Hw) (u & Eu & Hu). cbn in Ev, Ew, Eu. subst.
    rewrite !srow_cle_one by assumption. destruct asc.
    + apply TR; assumption.
    + intros H1 H2. apply (TR u w v); assumption.
Qed.

(* ---------- refutations: where the comparator is not a preorder ---------- *)
(* K-C20-temporal: "20200101" < "2020-01-02" as dates, the other two pairs as strings: a cycle *)
Definition temporal_cycle_tp : toracle :=
  fun s => if bytes_eqb s [50;48;50;48;48;49;48;49]%N then Some (0%N, 2020001)
           else if bytes_eqb s [50;48;50;48;45;48;49;45;48;50]%N then Some (0%N, 2020002) else None.
Lemma temporal_cycle :
  exists tp a b d, order_cmp tp a b = Lt /\ order_cmp tp b d = Lt /\ order_cmp tp d a = Lt.
Proof.
  exists temporal_cycle_tp, (VStr [50;48;50;48;48;49;48;49]%N), (VStr [50;48;50;48;45;48;49;45;48;50]%N),
         (VStr [50;48;50;48;45;120]%N).
  vm_compute. repeat split.
Qed.
Example order_by_temporal_unsorted :
  let rows := [([(VStr [50;48;50;48;45;120]%N, true)], [VInt 0]);
               ([(VStr [50;48;50;48;45;48;49;45;48;50]%N, true)], [VInt 1]);
               ([(VStr [50;48;50;48;48;49;48;49]%N, true)], [VInt 2])] in
  preorder_on (srow_cmp temporal_cycle_tp) rows = false.
Proof. vm_compute. reflexivity. Qed.
(* the old witness of the repaired int/float defect is sorted now *)
Example order_by_i2f_witness :
  map snd (order_by no_temporal
    [([(VInt 9007199254740993, true)], [VInt 0]); ([(VFloat 0x1p+53%float, true)], [VInt 1]); ([(VInt 9007199254740992, true)], [VInt 2])])
  = [[VInt 1]; [VInt 2]; [VInt 0]].
Proof. vm_compute. reflexivity. Qed.

(* ---------- ORDER BY on any keys: nested lists, maps, ids, several keys, ASC/DESC ---------- *)
(* all rows carry the sort keys of one ORDER BY clause (same directions), and no key contains,
   at any depth, a string the temporal parser accepts *)
Definition row_ok (tp : toracle) (dirs : list bool) (r : srow) : Prop := keys_ok tp dirs (fst r).

Theorem order_by_sorted_all tp dirs rows :
  Forall (row_ok tp dirs) rows ->
  StronglySorted (fun a b => cle (srow_cmp tp) a b = true) (order_by tp rows) /\
  Permutation rows (order_by tp rows).
Proof.
  intros F. split; [|apply isort_perm].
  apply (isort_sorted (srow_cmp tp) (row_ok tp dirs)); [| |exact F].
  - intros a b Ha Hb.
    exact (good_total (keys_cmp tp) (keys_ok tp dirs) (fst a) (fst b) Ha Hb (keys_cmp_good tp dirs (fst a) Ha)).
  - intros a b d Ha Hb Hd.
    exact (good_trans (keys_cmp tp) (keys_ok tp dirs) (fst a) (fst b) (fst d) Ha Hb Hd (keys_cmp_good tp dirs (fst a) Ha)).
Qed.

(* non-vacuity: a row with nested keys (a NaN inside a map inside a list, a null, a path) is ok *)
Example row_ok_instance :
  row_ok no_temporal [true; false]
    ([(VList [VMap [([97]%N, VFloat nan)]; VNull; VPath [1%N] []], true); (VStr [50;48;50;48]%N, false)], []).
Proof. split; [reflexivity|]. repeat constructor. Qed.
(* the old witness of the repaired map ordering defect (K-C20-mapnan) is sorted now: 1.0, 2.0, NaN *)
Example order_by_mapnan_witness :
  map snd (order_by no_temporal
    [([(VMap [([97]%N, VFloat 0x1p+1%float)], true)], [VInt 0]); ([(VMap [([97]%N, VFloat nan)], true)], [VInt 1]);
     ([(VMap [([97]%N, VFloat 0x1p+0%float)], true)], [VInt 2])])
  = [[VInt 2]; [VInt 0]; [VInt 1]].
Proof. vm_compute. reflexivity. Qed.
