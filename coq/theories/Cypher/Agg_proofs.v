(* Cypher/Agg_proofs.v — aggregates agree with their definitions (C21). *)
From NDB Require Import Base.Bytes Cypher.Value Cypher.Compare Cypher.Arith Cypher.Agg Cypher.Arith_proofs.
From Coq Require Import Lia Sorting.Permutation.
Local Open Scope Z_scope.

(* ---------- count / collect ---------- *)
Theorem count_star_length tp d vs : agg tp ACountStar d vs = VInt (Z.of_nat (length vs)).
Proof. reflexivity. Qed.
Theorem count_non_null tp vs : agg tp ACount false vs = VInt (Z.of_nat (length (non_null vs))).
Proof. reflexivity. Qed.
Theorem collect_non_null tp vs : agg tp ACollect false vs = VList (non_null vs).
Proof. reflexivity. Qed.
Theorem distinct_variants tp f vs :
  f <> ACountStar -> agg tp f true vs = agg tp f false (distinct_vals vs).
Proof. destruct f; intros H; try reflexivity. congruence. Qed.

(* DISTINCT keeps non-null values only, each `==`-class once (first occurrence) *)
Lemma dedup_from_spec seen vs x :
  In x (dedup_from seen vs) -> In x vs /\ existsb (fun e => deq e x) seen = false.
Proof.
  revert seen. induction vs as [|v t IH]; intros seen; cbn; [tauto|].
  destruct (existsb (fun e => deq e v) seen) eqn:E.
  - intros H. apply IH in H. tauto.
  - intros [->|H]; [auto|]. apply IH in H. destruct H as [H1 H2]. split; [auto|].
    rewrite existsb_app in H2. apply Bool.orb_false_elim in H2. tauto.
Qed.
Theorem distinct_vals_sub vs x : In x (distinct_vals vs) -> In x vs /\ x <> VNull.
Proof.
  unfold distinct_vals, non_null. intros H. apply dedup_from_spec in H. destruct H as [H _].
  apply filter_In in H. destruct H as [H1 H2]. split; [exact H1|]. intros ->. discriminate.
Qed.

(* ---------- sum never wraps ---------- *)
Definition int_sum (vs : list value) : Z :=
  fold_left (fun s v => match v with VInt i => s + i | _ => s end) vs 0.
Definition has_float (vs : list value) : bool :=
  existsb (fun v => match v with VFloat _ => true | _ => false end) vs.

Lemma sum_fold_inv vs saw i f :
  exists g, fold_left sum_step vs (saw, i, f) =
    (saw || has_float vs, fold_left (fun s v => match v with VInt i => s + i | _ => s end) vs i, g).
Proof.
  revert saw i f. induction vs as [|v t IH]; intros saw i f; cbn [fold_left has_float existsb].
  - exists f. now rewrite Bool.orb_false_r.
  - destruct v; cbn [sum_step]; try (destruct (IH saw i f) as [g ->]; exists g; reflexivity).
    + destruct (IH saw (i + z) (PrimFloat.add f (f_of_int z))) as [g ->]. exists g. reflexivity.
    + destruct (IH true i (PrimFloat.add f f0)) as [g ->]. exists g. cbn. now rewrite Bool.orb_true_r.
Qed.

(* the result of sum is: a float if a float occurs; otherwise the exact integer sum when it is
   an i64 and a float when it is not — an integer result is always the exact sum *)
Theorem sum_exact_or_float vs :
  (has_float vs = false -> in_i64 (int_sum vs) = true -> agg_sum vs = VInt (int_sum vs)) /\
  (has_float vs = false -> in_i64 (int_sum vs) = false -> exists g, agg_sum vs = VFloat g) /\
  (has_float vs = true -> exists g, agg_sum vs = VFloat g) /\
  (forall z, agg_sum vs = VInt z -> z = int_sum vs /\ in_i64 z = true /\ has_float vs = false).
Proof.
  unfold agg_sum, int_sum. destruct (sum_fold_inv vs false 0 0%float) as [g ->]. cbn [orb].
  destruct (has_float vs); repeat split; try discriminate; intros.
  - eauto.
  - now rewrite H0.
  - rewrite H0. eauto.
  - destruct (in_i64 _) eqn:E; inversion H; subst; auto.
  - destruct (in_i64 _) eqn:E; inversion H; subst; auto.
Qed.

(* ---------- min / max are elements ---------- *)
Lemma fold_pick {A} (f : A -> A -> A) (l : list A) a :
  (forall m x, f m x = m \/ f m x = x) -> fold_left f l a = a \/ In (fold_left f l a) l.
Proof.
  intros H. revert a. induction l as [|x t IH]; intros a; cbn; [auto|].
  destruct (IH (f a x)) as [E|E]; [|auto]. rewrite E. destruct (H a x) as [->| ->]; auto.
Qed.
Theorem min_max_member tp vs :
  (non_null vs = [] -> agg_min tp vs = VNull /\ agg_max tp vs = VNull) /\
  (non_null vs <> [] -> In (agg_min tp vs) (non_null vs) /\ In (agg_max tp vs) (non_null vs)).
Proof.
  unfold agg_min, agg_max. destruct (non_null vs) as [|v t]; split; intros H; try congruence; auto.
  split.
  - destruct (fold_pick (fun m x => match order_cmp tp m x with Gt => x | _ => m end) t v) as [->|E]; cbn; auto.
    intros m x. destruct (order_cmp tp m x); auto.
  - destruct (fold_pick (fun m x => match order_cmp tp m x with Gt => m | _ => x end) t v) as [->|E]; cbn; auto.
    intros m x. destruct (order_cmp tp m x); auto.
Qed.

(* ---------- grouping: one row per distinct key ---------- *)
Definition keys_of (gs : list (list value * list value)) := map fst gs.

Lemma add_to_group_keys k v gs :
  keys_of (add_to_group k v gs) = keys_of gs /\ existsb (fun k' => key_eq k' k) (keys_of gs) = true
  \/ keys_of (add_to_group k v gs) = keys_of gs ++ [k] /\ existsb (fun k' => key_eq k' k) (keys_of gs) = false.
Proof.
  induction gs as [|[k' vs] t IH]; cbn; [right; auto|].
  destruct (key_eq k' k) eqn:E; cbn; [left; auto|].
  destruct IH as [[H1 H2]|[H1 H2]]; [left|right]; unfold keys_of in *; rewrite H1; auto.
Qed.

(* no two groups have equal keys (grouping equality of the implementation: earlier key vs later key) *)
Inductive keys_distinct : list (list value) -> Prop :=
| kd_nil : keys_distinct []
| kd_snoc ks k : keys_distinct ks -> existsb (fun k' => key_eq k' k) ks = false -> keys_distinct (ks ++ [k]).

Lemma group_fold_distinct rows gs :
  keys_distinct (keys_of gs) ->
  keys_distinct (keys_of (fold_left (fun gs r => add_to_group (fst r) (snd r) gs) rows gs)).
Proof.
  revert gs. induction rows as [|[k v] t IH]; intros gs H; cbn; [exact H|].
  apply IH. destruct (add_to_group_keys k v gs) as [[-> _]|[-> E]]; [exact H|]. now constructor.
Qed.
Theorem groups_keys_distinct rows : keys_distinct (keys_of (group_rows rows)).
Proof. apply group_fold_distinct. constructor. Qed.

(* every row is in exactly one group: the groups' values are a permutation of the rows' values,
   and the sizes of the groups add up to the number of rows *)
Lemma add_to_group_vals k v gs :
  Permutation (concat (map snd (add_to_group k v gs))) (v :: concat (map snd gs)).
Proof.
  induction gs as [|[k' vs] t IH]; cbn; [reflexivity|].
  destruct (key_eq k' k); cbn.
  - rewrite <- app_assoc. cbn. symmetry. apply Permutation_middle.
  - rewrite IH. symmetry. apply Permutation_middle.
Qed.
Lemma group_fold_vals rows gs :
  Permutation (concat (map snd (fold_left (fun gs r => add_to_group (fst r) (snd r) gs) rows gs)))
              (rev (map snd rows) ++ concat (map snd gs)).
Proof.
  revert gs. induction rows as [|[k v] t IH]; intros gs; cbn; [reflexivity|].
  rewrite IH, add_to_group_vals. rewrite <- app_assoc. cbn. reflexivity.
Qed.
Theorem groups_partition rows :
  Permutation (concat (map snd (group_rows rows))) (map snd rows).
Proof.
  unfold group_rows. rewrite group_fold_vals. cbn. rewrite app_nil_r. symmetry. apply Permutation_rev.
Qed.

(* every row's key is the key of some group (the row's own key or one equal to it) *)
Lemma add_to_group_has k v gs : exists k', In k' (keys_of (add_to_group k v gs)) /\ (k' = k \/ key_eq k' k = true).
Proof.
  induction gs as [|[k0 vs] t IH]; cbn; [exists k; auto|].
  destruct (key_eq k0 k) eqn:E; cbn; [exists k0; auto|].
  destruct IH as (k' & H1 & H2). exists k'. auto.
Qed.
Lemma add_to_group_keeps k v gs k' : In k' (keys_of gs) -> In k' (keys_of (add_to_group k v gs)).
Proof.
  destruct (add_to_group_keys k v gs) as [[-> _]|[-> _]]; [auto|]. intros H. apply in_or_app. auto.
Qed.
Theorem groups_cover rows k v :
  In (k, v) rows -> exists k', In k' (keys_of (group_rows rows)) /\ (k' = k \/ key_eq k' k = true).
Proof.
  unfold group_rows. generalize (@nil (list value * list value)) as gs.
  induction rows as [|[k0 v0] t IH]; intros gs H; [destruct H|]. cbn.
  destruct H as [[= -> ->]|H]; [|now apply IH].
  destruct (add_to_group_has k v gs) as (k' & H1 & H2). exists k'. split; [|exact H2].
  clear IH H2. revert H1. generalize (add_to_group k v gs) as g0. induction t as [|[k1 v1] t IHt]; intros g0 H1; cbn; [exact H1|].
  apply IHt. now apply add_to_group_keeps.
Qed.

(* ---------- concrete instances ---------- *)
Example sum_wrap_witness : agg_sum [VInt 9223372036854775807; VInt 1] = VFloat 0x1p+63%float.
Proof. vm_compute. reflexivity. Qed.
Example sum_partial_overflow_exact : agg_sum [VInt 9223372036854775807; VInt 1; VInt (-2)] = VInt 9223372036854775806.
Proof. vm_compute. reflexivity. Qed.
(* K-C21-nankey: NaN keys are never grouped together *)
Lemma nan_keys_separate :
  exists rows, length (group_rows rows) = 2%nat /\
    forall k v, In (k, v) rows -> k = [VFloat nan].
Proof.
  exists [([VFloat nan], VInt 1); ([VFloat nan], VInt 2)]. split; [vm_compute; reflexivity|].
  intros k v [[= <- _]|[[= <- _]|[]]]; reflexivity.
Qed.

(* K-C21-zerokey: the grouping equality is finer than Rust's == (and than Cypher's =): 0.0 and
   -0.0 are == but are different grouping keys *)
Lemma zero_keys_separate :
  exists k1 k2, deq k1 k2 = true /\ cy_eq k1 k2 = Some true /\ key_eq [k1] [k2] = false.
Proof. exists (VFloat 0%float), (VFloat (-0)%float). vm_compute. repeat split. Qed.
