import importlib.util, os
_s = importlib.util.spec_from_file_location("c19spec", os.path.join(os.path.dirname(os.path.abspath(__file__)), "C19.py"))
_m = importlib.util.module_from_spec(_s); _s.loader.exec_module(_m)

SPEC = {
    "id": "C22",
    "props_module": "NDB.Props.C22",
    "corr_modules": ["NDB.Corr.C22"],
    "theorems": ["C22_errors_propagate", "C22_errors_raised", "C22_exists_refuted"],
    "allowed_axioms": _m.ALLOWED,
    "harness_pkg": "hx_query",
    "harness_bin": "c22",
    "n": {"quick": 900, "thorough": 15000},
    "harness_timeout": {"quick": 600, "thorough": 3000},
    "trusted_base": [
        "Coq 8.16.1 kernel + vm_compute (no native_compute); coqchk re-check in the thorough tier",
        "axioms: none declared; Print Assumptions lists only the kernel's primitive float/int63 operations (the value type mentions them)",
        "hand-written model Query/Rows.v of the executor's row-stream operators (a failing row is an Err item in the stream; the caller's "
        "collect reports the first one) and Query/Clauses.v of the plans built for WITH/RETURN, as they are after the repair 5cbdabf; "
        "tied to the code by the sampled correspondence, not by proof",
        "Rust harness harness/hx_query (lib.rs, bin/c22.rs) and lib/vcheck.py",
    ],
    "assumptions": [
        "operators covered: WHERE, projection, UNWIND, DISTINCT, UNION / UNION ALL, SKIP, LIMIT (for the rows it pulls), ORDER BY, aggregation",
        "not covered by the theorem: errors raised inside an EXISTS { } subquery (known finding K-C22-exists), CALL subqueries / Apply, "
        "procedure calls, OPTIONAL MATCH WHERE fix-up; write clauses belong to C12/C13",
    ],
    "manifest": {
        "category": "proof",
        "text": "Theorems over the faithful stream model: every operator of the read pipeline (WHERE, projection, UNWIND, DISTINCT, UNION, SKIP, "
                "LIMIT for the rows it pulls, ORDER BY, aggregation) reports an error item of its input, and an error it raises itself on a "
                "consumed row. On the pinned tree DISTINCT and UNION dropped error rows, SKIP counted them as skipped rows and ORDER BY sorted "
                "them among the rows where a following LIMIT cut them off; repaired by one fix commit (5cbdabf), the model follows the repaired "
                "code and the old witnesses run first in the harness. Remaining known finding K-C22-exists (an error inside an EXISTS { } "
                "subquery becomes NULL and the row is dropped), with a refutation witness. Correspondence and direct search: generated queries "
                "in which exactly one row raises a runtime error, in 30 operator contexts (incl. multi-aggregate projections with count(*) before the failing aggregate and ORDER BY keys that are not projected), with 1, 2 or several input rows and the failing row first, last or only; oracle: the engine must report an error when the "
                "failing row is consumed; the faithful model must predict the engine's outcome.",
        "design_ref": "DESIGN.md §5 C22, §8",
        "level_note": "Trusted: Coq kernel; hand-written operator model tied to the engine by sampled correspondence. Operators outside the "
                      "list above (Apply/CALL, procedures, OPTIONAL MATCH WHERE fix-up) are neither modelled nor sampled.",
        "technique": "Rocq proof (induction over row streams) + vm_compute model/implementation correspondence + direct error-propagation check on the engine",
    },
}
