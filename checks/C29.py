SPEC = {
    "id": "C29",
    "props_module": "NDB.Props.C29",
    "corr_modules": ["NDB.Corr.C29"],
    "theorems": ["C29_quiescent", "C29_quiescent_files", "C29_concurrent_refuted", "C29_concurrent_nocompact", "C29_inplace"],
    "allowed_axioms": [],
    "harness_pkg": "hx_store",
    "harness_bin": "c29",
    "n": {"quick": 400, "thorough": 8000},
    "harness_timeout": {"quick": 600, "thorough": 3000},
    "trusted_base": [
        "Coq 8.16.1 kernel + vm_compute; coqchk in the thorough tier; axioms: none",
        "hand-written model Store/Backup.v: writer I/O step stream (page writes, log appends), backup = page file as of step i + log as of step j, open = last manifest + replay above its checkpoint; "
        "granularity whole pages / whole log records; compaction modelled as fresh segment pages, then the property-tree root rewritten in place, then the manifest record; label creations and the close-time log rewrite (one atomic step) are writer operations; torn reads inside one io::copy are not modelled",
        "tie to the code: every generated backup (quiescent and interleaved at the hook point between copy_ndb_file and copy_wal_file) is restored with BackupManager::restore_from_backup, opened and dumped; "
        "opens / number of visible transactions compared with the model inside Coq",
        "hook commit 4bb07ea (--cfg nervusdb_verif): verif_io::point(\"backup:between_copies\") in BackupManager::execute_backup; the interleaved writer ops run on the same thread at that point (deterministic)",
        "Rust harness harness/hx_store and lib/vcheck.py",
    ],
    "assumptions": [
        "the schedule is controlled at one point only (between the two file copies); writes racing with a copy in progress are not explored",
    ],
    "manifest": {
        "category": "proof",
        "text": "Proved over the step-stream model, for every history: a backup whose two copies see the same moment restores exactly the source files (any step index) and, at operation boundaries, opens and shows every transaction committed before it (C29_quiescent). "
                "The concurrent statement is refuted (C29_concurrent_refuted, K-C29-concurrent): a compaction between the page-file copy and the log copy leaves the copied log's manifest pointing at segment pages the copied page file lacks - reproduced on the real code through the schedule point (restored database fails to open: 'page N not allocated'). "
                "Conditional: with commits, label creations and close-time log rewrites but no compaction between the copies the backup equals the source at the moment of the log copy (C29_concurrent_nocompact; observed on the code as well). The in-place rewrite of the property-tree root adds no failure class of its own at this granularity (C29_inplace).",
        "design_ref": "DESIGN.md §5 C29",
        "level_note": "Partial: concurrency is modelled at step granularity with one controlled schedule point; torn reads inside a copy are not modelled; the log rewrite is one atomic step. Trusted: Coq kernel, hand-written model tied by sampled correspondence.",
        "technique": "Rocq proof (writer invariant over operation sequences) + vm_compute refutation witness + deterministic interleaving on the real code via a cfg-guarded schedule point",
    },
}
