PRIMS = [
    "abs", "add", "sub", "mul", "div", "opp", "eqb", "ltb", "leb", "float", "frshiftexp", "normfr_mantissa",
    "of_uint63", "ldshiftexp", "compare", "classify", "sqrt", "next_up", "next_down",
    "int", "land", "lor", "lsl", "lsr", "lxor",
]
# primitive float / int63 operations listed by Print Assumptions for C15_oeq_is_cy_eq (it evaluates
# Cypher/Compare.v's cy_eq on primitive floats by vm_compute); no FloatAxioms lemma is used
ALLOWED_PRIMITIVES = sorted(set(
    ["PrimFloat." + n for n in PRIMS] + ["PrimInt63." + n for n in PRIMS] + ["Uint63." + n for n in PRIMS] + PRIMS
    + ["PrimInt63.sub", "PrimInt63.add", "PrimInt63.mul", "PrimInt63.eqb", "PrimInt63.ltb", "PrimInt63.leb",
       "PrimInt63.int", "PrimInt63.mod", "PrimInt63.div", "PrimInt63.compare", "PrimInt63.head0", "PrimInt63.tail0"]))

SPEC = {
    "id": "C15",
    "props_module": "NDB.Props.C15",
    "corr_modules": ["NDB.Corr.C15"],
    "theorems": ["C15_refuted_label", "C15_refuted", "C15_fixed_backfill", "C15_fixed_numeric",
                 "C15_seek_scan_state", "C15_index_transparent", "C15_twin_complete", "C15_nonvacuous", "C15_oeq_is_cy_eq"],
    "allowed_axioms": ALLOWED_PRIMITIVES,
    "harness_pkg": "hx_update",
    "harness_bin": "c15",
    "n": {"quick": 300, "thorough": 12000},
    "harness_timeout": {"quick": 600, "thorough": 3000},
    "trusted_base": [
        "Coq 8.16.1 kernel + vm_compute (no native_compute); coqchk re-check in the thorough tier",
        "axioms: none; C15_oeq_is_cy_eq lists the kernel's primitive float / int63 operations (it computes Cypher/Compare.v's cy_eq on primitive floats); all other theorems are closed under the global context",
        "hand-written model IndexSem/Model.v of WriteTxn::commit's index maintenance, create_index with its backfill, lookup_index, the IndexSeek plan with the numeric twin lookup, "
        "with its residual filters and fallback, and of the label scan; tied to the code by the correspondence check (every generated "
        "history replayed by vm_compute: seek_eval = rows with the index, scan_eval = rows without, lookup = raw lookup_index)",
        "Index/OrderedKey.v (C27) for the value encoding; its constants are regenerated from ordered_key.rs on every run",
        "Cypher equality on scalars `oeq` (float = float as sign-magnitude key equality with both zeros identified, as in C27; "
        "int = float exact) validated against the engine by the same correspondence; tied to Cypher/Compare.v cy_eq by theorem on "
        "null/bool/int/string and by vm_compute on every compared pair (floats: bit pattern -> primitive float by SF2Prim)",
        "numeric_twin exactness and completeness are proved for every i64 and every double (IndexSem/Twin_proofs.v, C15_twin_complete); Corr/C15.v still evaluates `k_numeric` on every query as a redundant check",
        "the index B-tree behaves as a multiset of (key, node id) entries (C26's subject); most histories keep the tree within one leaf, one history in 25 (quick; 150 thorough) grows it to 290-390 live and dead entries so that the root leaf splits while an update of an existing node is applied, followed by duplicate-value writes, a reopen and a lookup sweep",
        "Rust harness harness/hx_update/src/bin/c15.rs (generator, two-database runner, store dump, Rust mirror used for classification) and lib/vcheck.py",
    ],
    "assumptions": [
        "queries: MATCH (n:L) WHERE n.p = v [AND n.q = w] RETURN id(n) and the inline form MATCH (n:L {p: v, ...}); values null/bool/int/float/string; lists, maps, datetime and blobs are outside the model",
        "histories: one committed transaction per step: CREATE of one node with labels and properties, SET/REMOVE items on one node or (one statement) on every node of a label / every node, SET/REMOVE label, DETACH DELETE; create_index at a random point, compaction, close+reopen; no relationships. The order of index operations inside one commit follows a HashMap; since the entries of different nodes are distinct keys (fix 02653ee) that order does not reach lookup results, and the model applies one OProps per node",
        "when compaction/reopen changes the logical store itself (C04/C05 findings) the model continues from the observed store (OResync); such histories are outside the theorem",
    ],
    "manifest": {
        "category": "proof",
        "text": "Model of the property index (maintenance at commit by creation label, backfill at creation, entries of deleted nodes kept, prefix lookup of the value and of its numeric twin, seek with residual filters, fallback when the lookup is empty) and of the label scan. Proved for every history: outside the recorded classes (indexed label not the creation label, store resynchronisation) the index holds exactly one entry per indexed node and value — also when it is created over existing data (backfill) — and the seek plan returns exactly the rows of the scan plan; the numeric twin conversion is proved exact and complete (bit-level arithmetic on binary64 fields), so no arithmetic side condition is left. The unrestricted statement is refuted in Coq by a witness that the harness reproduces on the code (known finding K-C15-label). Four defects were repaired in /repo (duplicate rows from undeletable equal-value entries; deleted nodes returned through stale entries; no backfill; int/float lookups across encodings). The model's scalar equality is tied to Cypher/Compare.v's cy_eq. Model = implementation is checked on generated histories run on two databases, with compaction and reopen.",
        "design_ref": "DESIGN.md §5 C15",
        "level_note": "Trusted: Coq kernel; hand-written model tied to the code by sampled correspondence (not by proof); B-tree as a multiset (C26).",
        "technique": "Rocq proof (invariant over histories: index sound, complete and duplicate-free; sorted-list extensionality) + vm_compute witnesses + two-database differential run with model replay",
    },
}
