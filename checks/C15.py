SPEC = {
    "id": "C15",
    "props_module": "NDB.Props.C15",
    "corr_modules": ["NDB.Corr.C15"],
    "theorems": ["C15_refuted_backfill", "C15_refuted_label", "C15_refuted_numeric", "C15_refuted",
                 "C15_seek_scan_state", "C15_index_transparent", "C15_nonvacuous"],
    "allowed_axioms": [],
    "harness_pkg": "hx_update",
    "harness_bin": "c15",
    "n": {"quick": 300, "thorough": 12000},
    "harness_timeout": {"quick": 600, "thorough": 3000},
    "trusted_base": [
        "Coq 8.16.1 kernel + vm_compute (no native_compute); coqchk re-check in the thorough tier",
        "axioms: none (Print Assumptions: Closed under the global context for all theorems)",
        "hand-written model IndexSem/Model.v of WriteTxn::commit's index maintenance, create_index, lookup_index, the IndexSeek plan "
        "with its residual filters and fallback, and of the label scan; tied to the code by the correspondence check (every generated "
        "history replayed by vm_compute: seek_eval = rows with the index, scan_eval = rows without, lookup = raw lookup_index)",
        "Index/OrderedKey.v (C27) for the value encoding; its constants are regenerated from ordered_key.rs on every run",
        "Cypher equality on scalars `oeq` (float = float as sign-magnitude key equality with both zeros identified, as in C27; "
        "int = float as `f == i as f64`) validated against the engine by the same correspondence, not proved against IEEE-754",
        "the index B-tree behaves as a multiset of (key, node id) entries (C26's subject; histories here keep the tree within one leaf)",
        "Rust harness harness/hx_update/src/bin/c15.rs (generator, two-database runner, store dump, Rust mirror used for classification) and lib/vcheck.py",
    ],
    "assumptions": [
        "queries: MATCH (n:L) WHERE n.p = v [AND n.q = w] RETURN id(n) and the inline form MATCH (n:L {p: v, ...}); values null/bool/int/float/string; lists, maps, datetime and blobs are outside the model",
        "histories: one committed transaction per step: CREATE of one node with labels and properties, SET/REMOVE items on one node or (one statement) on every node of a label / every node, SET/REMOVE label, DETACH DELETE; create_index at a random point, compaction, close+reopen; no relationships. The order of index operations inside one commit follows a HashMap; since the entries of different nodes are distinct keys (fix 02653ee) that order does not reach lookup results, and the model applies one OProps per node",
        "when compaction/reopen changes the logical store itself (C04/C05 findings) the model continues from the observed store (OResync); such histories are outside the theorem",
    ],
    "manifest": {
        "category": "proof",
        "text": "Model of the property index (maintenance at commit by creation label, no backfill, entries of deleted nodes kept, prefix lookup, seek with residual filters, fallback when the lookup is empty) and of the label scan. Proved for every history: outside the recorded classes (index created over existing data, indexed label not the creation label, int/float equality across kinds, store resynchronisation) the index holds exactly one entry per indexed node and value, and the seek plan returns exactly the rows of the scan plan. The unrestricted statement is refuted in Coq by three witnesses that the harness reproduces on the code (known findings K-C15-backfill, -label, -numeric). Two defects were repaired in /repo (duplicate rows from undeletable equal-value entries; deleted nodes returned through stale entries). Model = implementation is checked on generated histories run on two databases, with compaction and reopen.",
        "design_ref": "DESIGN.md §5 C15",
        "level_note": "Trusted: Coq kernel; hand-written model tied to the code by sampled correspondence (not by proof); B-tree as a multiset (C26).",
        "technique": "Rocq proof (invariant over histories: index sound, complete and duplicate-free; sorted-list extensionality) + vm_compute witnesses + two-database differential run with model replay",
    },
}
