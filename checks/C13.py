SPEC = {
    "id": "C13",
    "props_module": "NDB.Props.C13",
    "corr_modules": ["NDB.Corr.C13"],
    "theorems": ["C13_autocommit_atomic", "C13_txn_refuted", "C13_full_refuted", "C13_txn_atomic_unless_dirty"],
    "allowed_axioms": [],
    "harness_pkg": "hx_txn",
    "harness_bin": "c13",
    "n": {"quick": 1500, "thorough": 20000},
    "harness_timeout": {"quick": 900, "thorough": 3000},
    "trusted_base": [
        "Coq 8.16.1 kernel + vm_compute (no native_compute); coqchk re-check in the thorough tier",
        "axioms: none (Print Assumptions: Closed under the global context for all theorems)",
        "hand-written model Txn/Model.v of statement evaluation (row-at-a-time writes into the transaction buffer, "
        "views, commit) for a family of six statement shapes; tied to nervusdb-capi + executor by the correspondence "
        "(model evaluated by vm_compute on the harness's cases; per-statement statuses and the full dump compared)",
        "the dump goes through ndb_query itself (MATCH (n) RETURN id/labels/properties; MATCH (a)-[r]->(b)); relationships "
        "with a deleted end are not shown (C14's subject)",
        "Rust harness harness/hx_txn (lib.rs, bin/c13.rs) and lib/vcheck.py",
    ],
    "assumptions": [
        "statement family: UNWIND-CREATE and UNWIND-MATCH-SET with a per-row toInteger() that raises at a chosen row, "
        "plain DELETE (refused on connected nodes), DETACH DELETE, MATCH-CREATE relationship, MERGE, syntax errors; "
        "integer properties; one label, one relationship type",
        "resource-limit violations are not in the family: the C API exposes no way to set limits per call, and the default collection-size "
        "limit is not enforced for range() inside a CREATE / SET property expression (tried: the statement succeeds)",
        "explicit transactions are the C API's (ndb_begin_write / ndb_txn_query / ndb_txn_commit); the Rust-level "
        "Db::begin_write + execute_mixed path is the same code and shows the same behaviour",
    ],
    "manifest": {
        "category": "proof",
        "text": "Model of what the code does: in auto-commit mode a failing statement's buffer is dropped (theorem: database unchanged, for every database and statement of the family); inside an explicit C API transaction statements write row by row into the shared buffer, so a statement failing at row i leaves rows < i in the buffer and a later commit persists them — refuted with a vm_compute witness (K-C13-buffer), and proved atomic for every transaction in which no statement fails after having written (clean failures: refused DELETE, syntax errors). Correspondence: the model predicts statuses and full dump of every generated case, both modes; direct oracle: re-run without the failed statements on an identical database.",
        "design_ref": "DESIGN.md §5 C13 / C24 / C07 transactions",
        "level_note": "Trusted: Coq kernel; hand-written model tied to the code by sampled correspondence; statement family is a fragment (six shapes); limit violations not covered.",
        "technique": "Rocq proof (induction over statement sequences) + vm_compute witnesses + model/implementation correspondence through the C API linked as a Rust library",
    },
}
