import importlib.util, os
_p = os.path.join(os.path.dirname(os.path.abspath(__file__)), "C23.py")
_s = importlib.util.spec_from_file_location("check_C23_common", _p)
_m = importlib.util.module_from_spec(_s)
_s.loader.exec_module(_m)

SPEC = {
    "id": "C21",
    "props_module": "NDB.Props.C21",
    "corr_modules": ["NDB.Corr.C21"],
    "theorems": ["C21_count_collect", "C21_sum_exact_or_float", "C21_min_max", "C21_one_row_per_key", "C21_nankey_refuted", "C21_zerokey_refuted", "C21_min_max_extremal"],
    "allowed_axioms": _m.ALLOWED_PRIMITIVES,
    "harness_pkg": "hx_cypher",
    "harness_bin": "c21",
    "n": {"quick": 1200, "thorough": 30000},
    "trusted_base": _m.TRUSTED_COMMON + [
        "grouping equality = Rust `==` plus identical float bit patterns (what HashMap<Vec<Value>,_> with the hand-written "
        "Hash does, up to hash-tag collisions between 0.0 and -0.0, which the generator keeps out of grouping keys)",
    ],
    "assumptions": [
        "avg and the float branch of sum are modelled (PrimFloat, same summation order) and compared by correspondence; no "
        "theorem is stated about their rounding",
        "min/max: proved to be elements of the group and extremal (<= / >= every non-null value in the ORDER BY order) for "
        "values without temporal strings; also tested on the engine against an independent exact comparator (flat values)",
        "percentileDisc/percentileCont are outside the model",
    ],
    "manifest": {
        "category": "proof",
        "text": "Theorems over the model of execute_aggregate: count(*) = number of rows; count/collect = the non-null values; "
                "every DISTINCT variant = the plain aggregate of the distinct non-null values; sum never wraps (an integer result "
                "is the exact sum, and the exact sum is returned whenever it is an i64; otherwise a float); min/max are null or "
                "elements of the group and extremal in the ORDER BY order (values without temporal strings); grouping yields pairwise different keys, covers every row's key and partitions the rows. "
                "Refuted with a witness: NaN grouping keys are never merged (one row per NaN). All 13 aggregates are run "
                "through the engine on generated groups, the model is evaluated on the same rows in Coq, and the definitions "
                "(exact bignum sum, independent grouping, counts, collect, extremal min/max) are tested directly.",
        "design_ref": "DESIGN.md §5 C21",
        "level_note": "Trusted: Coq kernel incl. primitive floats; hand-written model tied to the code by sampled correspondence; "
                      "HashMap grouping taken as `==` + float bits.",
        "technique": "Rocq proof (fold invariants, Permutation) + vm_compute correspondence on aggregate queries run through the "
                     "engine + direct search",
    },
}
