COMMON_TB = [
    "Coq 8.16.1 kernel + vm_compute (no native_compute); coqchk re-check in the thorough tier",
    "axioms: none (Print Assumptions: Closed under the global context)",
    "hook nervusdb_storage::verif_io (commit 'verif hook: I/O interposition', --cfg nervusdb_verif): every WAL/pager write, set_len, sync, rename is reported with its bytes before it is performed; crash images are materialised from that recording by harness/hx_crash (process death: all written bytes, log appends cut at any byte; power loss strict: each file as of its last fsync; rename durable at once or not)",
    "abstraction of the recorded I/O events to the alphabet of Crash/Protocol.v (grouping Begin..Commit records into one item as Wal::replay_committed does) is done by the Rust harness (abstract_trace) and trusted; its result is cross-checked per crash point against the real log scanner (Wal::replay_committed_from_path) by the correspondence",
    "that the engine's I/O traces satisfy the protocol monitor for ALL histories is validated on generated histories (monitor evaluated inside Coq on every recorded trace), not proved: the Rust code is modelled, not verified",
    "content level (recovered graph = state before or after the interrupted operation) is a direct differential check on the real engine against its own clean-run reopen, not a theorem; power loss with partial persistence of unsynced writes (neither none nor all) and torn page writes are not explored",
]
SPEC = {
    "id": "C01",
    "props_module": "NDB.Props.C01",
    "corr_modules": ["NDB.Corr.Crash"],
    "theorems": ["C01_acked_survive", "C01_ckpt_backed", "C01_logged_replayed"],
    "allowed_axioms": [],
    "harness_pkg": "hx_crash",
    "harness_bin": "c01",
    "n": {"quick": 10, "thorough": 150},
    "harness_timeout": {"quick": 1200, "thorough": 6000},
    "trusted_base": COMMON_TB,
    "assumptions": [
        "histories: transactions over nodes/edges/properties/labels, compaction, close+reopen, drop+reopen; no property indexes or vectors (their page updates happen before the commit record and are derived state)",
    ],
    "manifest": {
        "category": "proof",
        "text": "Theorem (all traces accepted by the protocol monitor, all crash steps, process death and power loss): every transaction whose commit was acknowledged is recoverable from the crash image - replayed from the surviving log or skipped under a checkpoint whose page-file prerequisites are on disk; proved by an invariant over I/O steps (acknowledge only after the log is synced, checkpoint only over a synced page file and only covering acknowledged transactions, log rewrite only to such a checkpoint). The monitor runs inside Coq on the recorded I/O trace of every generated history of the real engine (it found the unsynced statistics page before the manifest record in compact(), repaired in /repo). Crash images at sampled I/O steps of ALL operations incl. compaction and close are opened by the real engine and compared with the reopened clean-run states; a sample of recovered databases is continued with further commits and crashed again (round 2).",
        "design_ref": "DESIGN.md §5 C01/C02",
        "level_note": "Proved about the durability-protocol model; the engine's adherence to the protocol and the content-level equality are checked on generated histories (fault enumeration), not proved. Trusted: Coq kernel, I/O hook, event abstraction in the harness.",
        "technique": "Rocq proof (trace invariant by induction over I/O steps) + monitor/recovery model evaluated by vm_compute on recorded traces + exhaustive crash-image enumeration on the real engine",
    },
}
