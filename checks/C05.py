SPEC = {
    "id": "C05",
    "props_module": "NDB.Props.C05",
    "corr_modules": ["NDB.Corr.C05"],
    "theorems": ["C05_refuted", "C05_nodes_partial", "C05_compact_partial"],
    "allowed_axioms": [],
    "harness_pkg": "hx_engine",
    "harness_bin": "engine",
    "n": {"quick": 400, "thorough": 20000},
    "harness_args": {"quick": ["--prop", "C05"], "thorough": ["--prop", "C05"]},
    "harness_timeout": {"quick": 900, "thorough": 6000},
    "trusted_base": [
        "Coq 8.16.1 kernel + vm_compute (no native_compute); coqchk re-check in the thorough tier",
        "axioms: none (Print Assumptions: Closed under the global context for every listed theorem)",
        "hand-written model Engine/Model.v of GraphEngine (memtable, L0 runs, segments, sunk property store as an insertion list, i2e/i2l, interner, WAL record order, open = replay, iterator/overlay/store read algorithms) and spec Engine/Graph.v, tied to the code by the correspondence check: every generated history is run on the real engine (half through nervusdb::Db, half through GraphEngine), the canonical dump after every step is compared with the model evaluated by vm_compute inside Coq; the Rust reference graph used as direct-search oracle is compared with Engine/Graph.v the same way; the harness's class predicates are compared with Engine/Known.v",
        "property values are opaque codes of a 14-value palette (all nine kinds); B-tree, CSR encoding, pager, HNSW internals are not in the model (single-leaf behaviour of the property tree assumed: histories stay far below one page)",
        "Rust harness harness/hx_engine/src/bin/engine.rs and lib/vcheck.py"
],
    "assumptions": [
        "histories: <= 12 transactions over <= 6 nodes (external ids != 0, never reused), 3 labels, 2 relationship types, 3 keys; writes address existing live nodes / existing relationships (wf_hist), plus a small malformed stream (duplicate external id)",
        "no crash, single handle, single thread (C01/C02/C03/C10 are separate properties)"
],
    "manifest": {
        "category": "proof",
        "text": "Proved for ALL engine states, reachable or not, whose published runs hold no node/relationship tombstone and no property-removal marker (executable compactable_b: no committed delete or removal since the last compaction; C05_compact_partial): compaction (= checkpoint) changes neither nodes(), nor neighbors / incoming_neighbors as multisets, nor node_property / edge_property, nor labels, external ids, lookup \u2014 the segment built from the runs and the sunk store answer like the runs did (older segments and an older store included; non-vacuity Example). C05_nodes_partial: node enumeration unchanged whenever no run holds a node tombstone. Refuted in general: C05_refuted exhibits four histories on which compaction changes reads of the model (= implementation): K-C05-tomb, K-C05-remove, K-C05-dups, K-C05-recreate (new). The edge-free-segment panic (K-C05-edgefree) was repaired (3cec098, corpus regression). One history in twenty is a many-properties history: 400-900 property values with distinct keys (160 keys x 4 nodes and 2 relationships) in 2-3 transactions, compaction, more values, compaction again, reopen, a small transaction, checkpoint, so that the sunk property store outgrows one page (root split of the property B-tree); for these every single-key read of the whole key space and every whole-map read is compared before/after each compaction and the reopen in the direct oracle (the Coq dump carries the whole-map reads and the single-key reads of keys 0..2; the model keeps the store as an insertion list). NOT proved: the two whole-map reads (node_properties / edge_properties; they differ exactly in K-C05-dups) and states with tombstones / removals outside the classes \u2014 sampled only (compaction steps must not change the dump; the run without compaction/checkpoint steps must give the same dumps at every transaction).",
        "design_ref": "DESIGN.md §5 C05 (Storage: logical content)",
        "level_note": "Trusted: Coq kernel; hand-written model tied to the code by sampled correspondence (not by proof). The full statement is REFUTED on the pinned code (witness theorem, reproduced on the implementation, recorded as known findings); conditional theorems cover only the part stated in the text.",
        "technique": "Rocq: executable faithful model + spec graph, refutation witnesses by vm_compute, invariants by induction over histories; vm_compute model/implementation correspondence on generated histories; direct search against a reference graph / erased or stripped re-runs on the implementation",
    },
}
