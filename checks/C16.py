SPEC = {
    "id": "C16",
    "props_module": "NDB.Props.C16",
    "corr_modules": ["NDB.Corr.C16"],
    "theorems": ["C16_unguarded_depth_partial", "C16_guarded_depth_bounded"],
    "allowed_axioms": [],
    "harness_pkg": "hx_txn",
    "harness_bin": "c16",
    "n": {"quick": 1200, "thorough": 20000},
    "harness_timeout": {"quick": 900, "thorough": 3000},
    "trusted_base": [
        "Coq 8.16.1 kernel + vm_compute (no native_compute); coqchk re-check in the thorough tier",
        "axioms: none (Print Assumptions: Closed under the global context)",
        "hand-written model Parser/Depth.v of the recursion structure of parse_expression_bp / prefix / primary over abstract tokens; "
        "tied to the code by the hook nervusdb_query::parser::verif_depth (add-only, cfg nervusdb_verif): the recursion high-water mark "
        "of the real parser on nine nesting families is compared with the model's prediction",
        "observed, not proved: stack consumption per recursion level, the size of the thread stack (children run each query on a 2 MiB "
        "thread; harness build: opt-level 1, debug assertions), allocator behaviour, wall time (soft timeout 1 s, wall cap 20 s per query), "
        "panics inside extern \"C\" functions of the C API abort the process",
        "Rust harness harness/hx_txn (lib.rs, bin/c16.rs: generators, child-process runner, outcome classification) and lib/vcheck.py",
    ],
    "assumptions": [
        "the direct oracle is the child-process outcome enum {rows, error, panic, abort(signal), timeout}: only rows / error are allowed",
        "planner / evaluator / Drop recursion over deep ASTs and long clause chains is exercised (chains of + AND < . UNION WITH UNWIND MATCH) "
        "but has no model: where it overflows it is reported under the same known finding by a text-level predicate",
        "query text must be valid UTF-8 (the API takes &str / a C string): random bytes are converted lossily",
    ],
    "manifest": {
        "category": "proof",
        "text": "Partial. Proved over a model of the expression parser's recursion: with a nesting guard the recursion depth is <= limit+1 for ALL token streams (the candidate repair); the pinned parser has no such guard (its complexity guard bounds token advances, not depth) and the model reproduces recursion depth = nesting + 2 (2002 for the 2000-parenthesis probe), which the hook confirms on the real parser for nine productions. Observed in child processes (2 MiB thread stack, wall cap): every recursive production (parentheses, lists, maps, unary operators, function calls, CASE, indexing, comprehensions, CALL{}, EXISTS{}, FOREACH, shortestPath) and every long left-deep chain (+, AND, comparison, property access, UNION, WITH, UNWIND, MATCH) overflows the stack and kills the process at 3000 levels — K-C16-depth; a cartesian product runs past the configured soft timeout until the row limit stops it — K-C16-timeout-cartesian. No panic/abort/timeout on token soup, mutated queries, all functions with boundary arguments, random bytes/Unicode, huge literals, on empty/small/compacted graphs. Fixed: the C API aborted on a multi-byte character across byte 7 of the statement.",
        "design_ref": "DESIGN.md §5 C16",
        "level_note": "Partial: stack size, allocator failure and wall time are observed, not proved; the guard theorem is about the candidate repair, not the pinned code.",
        "technique": "Rocq proof (mutual induction on fuel) + vm_compute witnesses + recursion-depth hook correspondence + child-process execution with outcome enum",
    },
}
