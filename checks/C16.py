SPEC = {
    "id": "C16",
    "props_module": "NDB.Props.C16",
    "corr_modules": ["NDB.Corr.C16"],
    "theorems": ["C16_recursion_depth_bounded", "C16_ast_depth_bounded", "C16_nesting_threshold", "C16_unguarded_depth_partial"],
    "allowed_axioms": [],
    "harness_pkg": "hx_txn",
    "harness_bin": "c16",
    "n": {"quick": 1200, "thorough": 20000},
    "harness_timeout": {"quick": 900, "thorough": 3000},
    "trusted_base": [
        "Coq 8.16.1 kernel + vm_compute (no native_compute); coqchk re-check in the thorough tier",
        "axioms: none (Print Assumptions: Closed under the global context)",
        "gen/consts_txn.py: MAX_DEPTH_BUDGET (debug / release), EXPRESSION_NESTING_COST, QUERY_NESTING_COST re-read from parser.rs on every run; "
        "it also checks that the four recursive productions run under nested() and that the push_down call sites exist",
        "hand-written model Parser/Depth.v of parse_expression_bp / prefix / primary / postfix and of TokenParser::{nested, push_down} over abstract "
        "tokens, building an abstract AST; tied to the code by the correspondence: for nine nesting families at depths around and beyond the limit the "
        "real parser's accept/reject decision and (hook nervusdb_query::parser::verif_depth) its recursion high-water mark equal the model's prediction",
        "observed, not proved: stack consumption per recursion level, the size of the thread stack (children run each query on a 2 MiB "
        "thread; harness build: opt-level 1, debug assertions), allocator behaviour, wall time (soft timeout 1 s, wall cap 20 s per query), "
        "panics inside extern \"C\" functions of the C API abort the process",
        "Rust harness harness/hx_txn (lib.rs, bin/c16.rs: generators, child-process runner, outcome classification) and lib/vcheck.py",
    ],
    "assumptions": [
        "the direct oracle is the child-process outcome enum {rows, error, panic, abort(signal), timeout}: only rows / error are allowed",
        "the model covers the expression grammar; clause-level productions (CALL{}, EXISTS{}, FOREACH, shortestPath, UNION / WITH / UNWIND / pattern / "
        "comma-pattern chains) use the same nested()/push_down() accounting in the code but are only exercised (around and beyond their limits), not modelled",
        "that budget x (stack per level) fits the stack is measured, not proved: every family's deepest accepted input runs on a 2 MiB thread in an "
        "unoptimised build (and in the harness build) with the limit at 47-75% of the depth at which the process dies",
        "query text must be valid UTF-8 (the API takes &str / a C string): random bytes are converted lossily",
    ],
    "manifest": {
        "category": "proof",
        "text": "Partial. Proved over a model of the expression parser with the depth budget of the code (constants regenerated from parser.rs): for ALL token streams and every budget the parser's recursion depth is at most budget / nesting cost, and every accepted expression has an AST no deeper than the budget — nesting and left-deep operator / postfix chains alike (planner, evaluator and Drop recurse over that AST); the accept/reject threshold of nine nesting families is computed for every depth up to 400 (50 levels of brackets with the debug budget). The model's decisions and recursion high-water marks equal the real parser's on those families (hook). Observed in child processes (2 MiB thread stack, soft timeout 1 s, wall cap 20 s): 21 productions and chains from 1 to 50k levels — accepted ones run, deeper ones are rejected with a syntax error, none kills the process; no panic/abort/timeout on token soup, mutated queries, every function with boundary arguments, random bytes/Unicode, huge literals, on empty/small/compacted graphs, through the Rust API and ndb_query. Fixed in this work: unbounded nesting/chain depth (process abort), execute_mixed draining the plan iterator after a timeout (ran > 100 s past a 1 s timeout), C API abort on a multi-byte character across byte 7. Known: a cartesian product is stopped by the row limit, not by the soft timeout.",
        "design_ref": "DESIGN.md §5 C16",
        "level_note": "Partial: stack cost per level, stack size, allocator failure and wall time are observed, not proved; clause-level productions share the accounting code but are outside the model.",
        "technique": "Rocq proof (mutual induction on fuel) + vm_compute witnesses + recursion-depth hook correspondence + child-process execution with outcome enum",
    },
}
