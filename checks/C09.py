SPEC = {
    "id": "C09",
    "props_module": "NDB.Props.C09",
    "corr_modules": ["NDB.Corr.C09"],
    "theorems": ["C09_serializable", "C09_history_complete", "C09_no_lost_increment", "C09_old_order_refuted", "C09_early_unlock_refuted"],
    "allowed_axioms": [],
    "harness_pkg": "hx_conc",
    "harness_bin": "c09",
    "n": {"quick": 400, "thorough": 6000},
    "harness_args": {"quick": ["--stress", "200"], "thorough": ["--stress", "1000"]},
    "harness_timeout": {"quick": 900, "thorough": 2400},
    "trusted_base": [
        "Coq 8.16.1 kernel + vm_compute; coqchk re-check in the thorough tier",
        "axioms: none (Print Assumptions: Closed under the global context for all four theorems)",
        "hand-written model Conc/Sched.v + Conc/AutoCommit.v: one statement = five atomic steps (writer lock, read snapshot, "
        "compute-from-snapshot + WAL, publication of the run, unlock) over one shared cell; tied to nervusdb-capi execute_write_count by the "
        "correspondence: observed order of the four events of a statement at the schedule points = the model's program order, "
        "and for every driven schedule the event trace, the completion flag and the value read back = the model's run",
        "the position of the UNLOCK in the program order is not read off a schedule point but probed: with the first writer parked at each "
        "of capi.write.locked, capi.write.snapshot, commit.logged, commit.idmap, commit.node_labels, commit.run a second writer is "
        "released towards begin_write and must stay blocked (and both increments must be present afterwards); the order found this way is "
        "what Corr/C09.v compares with the model's [lock; snapshot; log; publish; unlock] (C09_early_unlock_refuted: with the unlock "
        "before the publication an increment is lost)",
        "schedule points nervusdb_storage::verif::point (commit 3c4c040, --cfg nervusdb_verif) and the baton scheduler of "
        "harness/hx_conc: one thread runs at a time between points; scheduling below the points (inside begin_write, snapshot, "
        "commit) is not explored",
        "the statement's effect is abstracted to a function of the value in its read snapshot (increments, conditional sets on one "
        "property); multi-property / structural statements are not in the model",
    ],
    "assumptions": [
        "quantifier: any number of threads, any list of read-modify-write statements per thread, every schedule of the four steps "
        "(blocked lock acquisitions consume a schedule entry without moving the thread)",
        "ndb_execute_write / prepared write statements (execute_write_count) and explicit transactions holding ONE statement "
        "(ndb_begin_write, ndb_txn_query, ndb_txn_commit): both run the four steps in the order lock, snapshot, commit, unlock (calibrated "
        "on the real code and compared with the model), so the same theorem covers any mix of them; explicit transactions with several "
        "statements hold the lock from begin to commit (serializable as a unit) but each statement reads the committed state, not the "
        "transaction's own earlier writes - that is C24's subject and is not in this model",
    ],
    "manifest": {
        "category": "proof",
        "text": "Theorem over all schedules (induction, any number of threads and statements): with the writer lock taken before "
                "the read snapshot (the code after fix 0b74042) the stored value always equals the committed statements applied one "
                "at a time in commit order, every thread's statements are committed exactly once in its order, and n increments add n. "
                "The pinned tree's order (snapshot before lock) is refuted by a two-increment schedule (vm_compute), which also "
                "reproduced on the real code before the fix and stays in the corpus. Correspondence: explicit schedules driven through "
                "cfg-guarded schedule points of the real C API (corpus, all 70 interleavings of 2x1 increments, generated; a third of the cases with two and a third with all threads using explicit single-statement transactions), trace / "
                "completion / value compared with the model inside Coq; search: 8 threads x 200 free-running increments.",
        "design_ref": "DESIGN.md §5 C09",
        "level_note": "Trusted: Coq kernel; the hand-written four-step model (tied by sampled correspondence, not by proof); "
                      "atomicity of the segments between schedule points; statements abstracted to functions of one cell.",
        "technique": "Rocq proof (invariant induction over all schedules of an interleaving semantics) + deterministic baton scheduler "
                     "over schedule points + vm_compute correspondence + thread stress",
    },
}
