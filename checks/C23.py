# ALLOWED_PRIMITIVES / TRUSTED_COMMON are also imported by checks/C20.py and checks/C21.py
PRIMS = [
    "abs", "add", "sub", "mul", "div", "opp", "eqb", "ltb", "leb", "float", "frshiftexp", "normfr_mantissa",
    "of_uint63", "ldshiftexp", "compare", "classify", "sqrt", "next_up", "next_down",
    "int", "land", "lor", "lsl", "lsr", "lxor",
]
ALLOWED_PRIMITIVES = sorted(set(
    ["PrimFloat." + n for n in PRIMS] + ["PrimInt63." + n for n in PRIMS] + ["Uint63." + n for n in PRIMS] + PRIMS
    + ["PrimInt63.sub", "PrimInt63.add", "PrimInt63.mul", "PrimInt63.eqb", "PrimInt63.ltb", "PrimInt63.leb",
       "PrimInt63.int", "PrimInt63.mod", "PrimInt63.div", "PrimInt63.compare", "PrimInt63.head0", "PrimInt63.tail0"]))

TRUSTED_COMMON = [
    "Coq 8.16.1 kernel + vm_compute (no native_compute), including its primitive 63-bit integers and IEEE-754 binary64 "
    "floats (PrimFloat/PrimInt63 operations are listed by Print Assumptions as primitives; no FloatAxioms lemma is used); "
    "coqchk re-check in the thorough tier",
    "gen/consts_cypher.py: declaration order of `enum Value` (derived PartialOrd) and the value_order_rank table, re-read on every run",
    "hand-written models Cypher/{Value,Compare,Logic,Arith,Eval,OrderBy,Agg}.v of the evaluator / ORDER BY / aggregation code, tied "
    "to the code by the correspondence check (real Cypher run through Db + prepare + execute_streaming; model evaluated by vm_compute)",
    "exact value of a double = Prim2SF decoding scaled by 2^1074 (`fkey`); that Rust's f64 comparisons are the order of these "
    "exact values is validated by the correspondence and by an independent integer-only comparator in the harness, not proved",
    "the temporal-string parser (chrono) is not modelled: its classification of the strings of each case is taken from the "
    "engine as data (temporal accessors through the public query API)",
    "Rust harness harness/hx_cypher and lib/vcheck.py",
]

SPEC = {
    "id": "C23",
    "props_module": "NDB.Props.C23",
    "corr_modules": ["NDB.Corr.C23"],
    "theorems": ["C23_truth_tables", "C23_de_morgan", "C23_null_propagates", "C23_eq_equivalence",
                 "C23_cmp_consistent", "C23_numeric_exact", "C23_temporal_refuted", "C23_overflow_rule",
                 "C23_eq_equivalence_all", "C23_cmp_consistent_lists"],
    "allowed_axioms": ALLOWED_PRIMITIVES,
    "harness_pkg": "hx_cypher",
    "harness_bin": "c23",
    "n": {"quick": 2400, "thorough": 60000},
    "trusted_base": TRUSTED_COMMON,
    "assumptions": [
        "quantifier: all values for the logic laws and null propagation; = is proved an equivalence on all values without null/NaN "
        "at any depth (nested lists and maps included); the laws relating < <= > >= to each other and to = are proved for "
        "booleans, all i64, all non-NaN doubles and all byte strings, and (C23_cmp_consistent_lists) for lists nested arbitrarily: "
        "flip laws for all values without temporal strings, negation laws for all lists, and the laws involving = for lists "
        "without null/NaN/temporal strings",
        "strings: laws relating < <= > >= to = are proved for every temporal classification except pairs of strings of the same "
        "temporal kind (K-C23-temporal, refuted by C23_temporal_refuted); transitivity of < for strings that are not temporal",
        "`^`, duration maps and temporal arithmetic are outside the model (`%` on floats is modelled exactly as C fmod)",
    ],
    "manifest": {
        "category": "proof",
        "text": "Theorems over the model of the evaluator: AND/OR/NOT are Kleene's min/max/flip and XOR is strict for all values, "
                "De Morgan for all values; null propagates through every comparison/arithmetic operator; = is reflexive, symmetric, "
                "transitive and never null on booleans, all i64, all non-NaN doubles and byte strings; < <= > >= are mutually "
                "consistent, consistent with = (outside the recorded temporal-string class, for which a refuting witness is proved) "
                "and exact between integers and doubles; the same mutual consistency and consistency with = on lists nested "
                "arbitrarily (the ORDER BY order says Equal exactly when = says true); + - * unary- abs and reduce follow one rule (exact if the result is an "
                "i64, else float). The engine is run on generated expressions (real Cypher through prepare/execute) and the model is "
                "evaluated on the same operands inside Coq; the laws are also searched directly on the engine's answers.",
        "design_ref": "DESIGN.md §5 C23",
        "level_note": "Trusted: Coq kernel incl. primitive floats; hand-written model tied to the code by sampled correspondence; "
                      "IEEE comparison taken as order of exact values; temporal parser taken as data.",
        "technique": "Rocq proof (case analysis over value kinds, exact integer keys for doubles) + vm_compute correspondence on "
                     "expressions run through the engine + direct law search",
    },
}
