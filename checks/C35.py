import os
import re


def _unhooked_lock_sites(repo):
    """lock()/read()/write() calls on the engine's locks (non-test code) that are not preceded by a
    verif::acquire / verif::touch line: such a site would be invisible to the lock-order observation"""
    files = []
    for crate in ("nervusdb-storage", "nervusdb", "nervusdb-capi"):
        base = os.path.join(repo, crate, "src")
        for d, _, fs in os.walk(base):
            for f in fs:
                if f.endswith(".rs") and f not in ("backup.rs", "verif.rs", "verif_io.rs") and os.sep + "bin" not in d:
                    files.append(os.path.relpath(os.path.join(d, f), os.path.join(repo, "nervusdb-storage", "src")))
    bad = []
    for f in files:
        path = os.path.join(repo, "nervusdb-storage", "src", f)
        if not os.path.exists(path):
            continue
        lines = open(path).read().split("\n")
        for i, l in enumerate(lines):
            if re.match(r"\s*mod tests \{", l) or re.match(r"\s*#\[cfg\(test\)\]", l):
                break
            if re.search(r"\.(lock|read|write)\(\)", l) and "verif::" not in l:
                ctx = " ".join(lines[max(0, i - 5):i])
                # accessor whose only caller (api.rs GraphStore::snapshot) reports the event and keeps the token
                if "fn publish_read" in ctx:
                    continue
                if "verif::acquire" not in ctx and "verif::touch" not in ctx:
                    bad.append("%s:%d: %s" % (f, i + 1, l.strip()))
    return bad


def _post(spec, res, work):
    import vcheck
    bad = _unhooked_lock_sites(vcheck.REPO)
    res.cov["lock_sites_without_event"] = bad
    if bad:
        res.broken.append(("lock acquisition site without a lock-event hook (the observed lock-order graph is incomplete)", "; ".join(bad[:10])))


SPEC = {
    "id": "C35",
    "props_module": "NDB.Props.C35",
    "corr_modules": ["NDB.Corr.C35"],
    "theorems": ["C35_ranked_no_deadlock", "C35_observed_patterns_partial", "C35_inversion_detected", "C35_reentrant_read_detected"],
    "allowed_axioms": [],
    "harness_pkg": "hx_conc",
    "harness_bin": "c35",
    "n": {"quick": 150, "thorough": 1500},
    "harness_timeout": {"quick": 600, "thorough": 2700},
    "post": _post,
    "trusted_base": [
        "Coq 8.16.1 kernel + vm_compute; coqchk re-check in the thorough tier",
        "axioms: none (Print Assumptions: Closed under the global context)",
        "wait-for semantics of Conc/LockOrder.v with modes (MR shared, MW exclusive, MTry non-blocking): a request is blocked by a "
        "thread holding the lock in a conflicting mode (readers do not block readers) and a read request also by a thread WAITING for "
        "the write lock (std's writer-preferring RwLock: the re-entrant-read deadlock is a theorem-level example); that std's Mutex / "
        "RwLock / File::try_lock behave like this is trusted",
        "lock-event hooks (commits 42ca586 and b4727fc: names carry .r/.w/.try modes; verif::acquire/touch before every lock()/read()/write() of the engine's mutexes and RwLocks in "
        "engine.rs, api.rs, read_path_engine_*.rs) and their completeness: a lock site without a hook is invisible; locks inside "
        "dependencies (std I/O, allocator) are not observed",
        "write_lock is a std Mutex (exclusive): hypothesis gate_exclusive of the theorem",
        "the watchdog (threads + timeout) as the only evidence about interleavings of patterns that were never observed",
    ],
    "assumptions": [
        "PARTIAL: 'all interleavings of the public operations' is reduced to 'all states whose blocked threads wait in one of the OBSERVED "
        "acquisition patterns'; an acquisition pattern that the generated workloads never exercise is not covered",
        "what 'observed acquisition patterns' covers (listed per run in the evidence sample `patterns_by_public_operation`): per round 9 threads - "
        "2 writer threads on one Db (Db::begin_write, WriteTxn::get_or_create_label incl. new labels, create_node, set_node_property on an "
        "indexed label/property incl. existing nodes, remove_node_property, create_edge, set_vector, commit, abandon), 2 reader threads on the "
        "same Db (Db::snapshot incl. a second live snapshot, begin_read, nodes, node_property, node_properties, resolve_node_labels, neighbors, "
        "incoming_neighbors, edge_property, lookup_index, node_count/edge_count), 2 maintenance threads on the same Db (compact, checkpoint, "
        "create_index, search_vector), 2 C API threads on a second Db (ndb_execute_write, ndb_query, ndb_begin_write/ndb_txn_query/"
        "ndb_txn_commit), 1 handles thread (Db::open, refused second open, close, nervusdb::vacuum refused and allowed, nervusdb::bulkload). "
        "Not exercised: backup, Cypher statements beyond CREATE/MATCH-SET/count through the C API, the Python/Node bindings",
        "progress of a thread that is not blocked on one of the named locks (I/O, fsync, CPU) is assumed",
    ],
    "manifest": {
        "category": "proof",
        "text": "PARTIAL. Proved in general (any threads, locks, shared or exclusive holders): if every blocked thread waits for a lock of "
                "higher rank than all locks it holds, no set of threads waits on each other forever; extended certificate theorem: the same "
                "holds when rank-violating acquisitions happen only under an exclusive gate lock (write_lock) for locks that are only ever "
                "held under the gate, and no acquisition is re-entrant. The run records every lock acquisition of the real code with the "
                "thread's held set over mixed workloads on 8 threads (writers incl. new labels/indexed properties/vectors, readers incl. index "
                "lookups/statistics/nested snapshots, compaction, checkpoint, index creation, vector search, C API incl. explicit "
                "transactions), and Coq checks by vm_compute that the observed pattern set passes the certificate check with the computed "
                "rank table (observed: the wal/label_interner inversion exists but only under write_lock; insert_vector's index_catalog -> pager -> vector_index chain and the non-blocking database file lock are in the set; no re-entrant read; the publication lock added by fix 68601a6 is in the set: taken for writing only around the publication steps of commit/compaction - after the WAL phase, so the index-maintenance snapshot inside WriteTxn::commit takes it for reading BEFORE and never while the write side is held - and for reading by snapshot creation; its rank is above write_lock/wal and below idmap, pager and the published_* locks). Read and write modes are distinguished: readers do not block readers, a queued writer blocks new readers; the re-entrant read under a waiting writer is proved to be a deadlock and every such pattern is rejected. Search: watchdog stress, "
                "re-entrancy and cycle detection. Not proved: that the observed patterns are all patterns of the code.",
        "design_ref": "DESIGN.md §5 C35",
        "level_note": "Trusted: Coq kernel; hook completeness; RwLock blocking abstracted to holders; 'all interleavings' reduced to "
                      "interleavings of observed acquisition patterns; wall-clock progress only observed.",
        "technique": "Rocq proof (maximal-rank argument on the wait-for relation, gate-lock extension) + lock-event instrumentation + "
                     "vm_compute certificate check + watchdog thread stress",
    },
}
