SPEC = {
    "id": "C18",
    "props_module": "NDB.Props.C18",
    "corr_modules": ["NDB.Corr.C18"],
    "theorems": ["C18_alloc_fresh", "C18_i2e_in_owned_pages", "C18_check_trace_sound", "C18_refuted", "C18_node_write", "C18_monitor_clean", "C18_history_monitor_exact", "C18_history_conditional"],
    "allowed_axioms": [],
    "harness_pkg": "hx_store",
    "harness_bin": "c18",
    "n": {"quick": 40, "thorough": 700},
    "harness_timeout": {"quick": 600, "thorough": 3000},
    "trusted_base": [
        "Coq 8.16.1 kernel + vm_compute; coqchk in the thorough tier; axioms: none",
        "gen/consts_store.py: PAGE_SIZE, FIRST_DATA_PAGE_ID, BITMAP_BITS, I2E_RECORD_SIZE, meta-page offsets, shape checks of allocate_page (lowest free bit in [2,next_page_id), else next_page_id), find_free_in_range, i2e_location, write_i2e_record (ensure_allocated)",
        "hand-written models Store/Pager.v, Store/IdMap.v tied to Pager/IdMap by correspondence on random allocate/free/create-node sequences (returned pages, final bitmap, next_page_id)",
        "hook (commits a16fed8 + 4bb07ea, --cfg nervusdb_verif): pager I/O events with tag = source file of the caller of allocate_page/ensure_allocated/free_page/write_page; "
        "the harness turns bitmap-page writes into alloc/free events by diffing consecutive bitmap images",
        "tag granularity is the structure kind (idmap, btree, blob, csr, catalog): two B-trees or two blob chains overwriting each other would be seen only as a double allocation (alloc_fresh), not as a foreign write",
        "Rust harness harness/hx_store and lib/vcheck.py",
    ],
    "assumptions": [
        "single process, single writer (as the engine enforces); traces start at database creation",
    ],
    "manifest": {
        "category": "proof",
        "text": "Proved: for every call sequence the pager hands out a page only while it is unallocated and never the meta/bitmap page (C18_alloc_fresh); node record n < 512k lies in the k pages from the table's start (C18_i2e_in_owned_pages); "
                "the page-ownership checker is sound (C18_check_trace_sound: accepted trace => every write/free hits a page owned by the writing structure, every allocation an unowned page). "
                "The full property is refuted in the model and on the code (C18_refuted, K-C18-spill): the node table allocates only its first page; record 512j is written to page start+j via ensure_allocated whoever owns it. "
                "Conditional part, history level (Store/Owners.v): for every sequence of allocate/write/free by structures that touch only pages they were given, and node appends as idmap.rs does them, "
                "the monitor reports nothing but spills and exactly the appends whose page is held by another structure (C18_history_monitor_exact); with no such append the whole trace is owner-correct (C18_history_conditional). For B-tree, blob, CSR, catalog and HNSW code the claim 'writes only pages it allocated' is not proved over models of those structures; "
                "it is monitored: every generated history's trace (thousands of nodes interleaved with compactions, index maintenance, vectors, reopen) is evaluated by the sound checker inside Coq; only idmap spills are tolerated.",
        "design_ref": "DESIGN.md §5 C18",
        "level_note": "Partial: owner discipline of the non-idmap structures rests on the proved-sound monitor over observed traces, not on a proof about their code. Trusted: Coq kernel, hook, harness event reconstruction.",
        "technique": "Rocq proof (invariant over call sequences; sound trace checker) + vm_compute refutation witness + correspondence of pager model and of the monitor on real traces",
    },
}
