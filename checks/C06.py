SPEC = {
    "id": "C06",
    "props_module": "NDB.Props.C06",
    "corr_modules": ["NDB.Corr.C06"],
    "theorems": ["C06_refuted", "C06_refines_partial"],
    "allowed_axioms": [],
    "harness_pkg": "hx_engine",
    "harness_bin": "engine",
    "n": {"quick": 600, "thorough": 30000},
    "harness_args": {"quick": ["--prop", "C06"], "thorough": ["--prop", "C06"]},
    "harness_timeout": {"quick": 900, "thorough": 6000},
    "trusted_base": [
        "Coq 8.16.1 kernel + vm_compute (no native_compute); coqchk re-check in the thorough tier",
        "axioms: none (Print Assumptions: Closed under the global context for every listed theorem)",
        "hand-written model Engine/Model.v of GraphEngine (memtable, L0 runs, segments, sunk property store as an insertion list, i2e/i2l, interner, WAL record order, open = replay, iterator/overlay/store read algorithms) and spec Engine/Graph.v, tied to the code by the correspondence check: every generated history is run on the real engine (half through nervusdb::Db, half through GraphEngine), the canonical dump after every step is compared with the model evaluated by vm_compute inside Coq; the Rust reference graph used as direct-search oracle is compared with Engine/Graph.v the same way; the harness's class predicates are compared with Engine/Known.v",
        "property values are opaque codes of a 14-value palette (all nine kinds); B-tree, CSR encoding, pager, HNSW internals are not in the model (single-leaf behaviour of the property tree assumed: histories stay far below one page)",
        "Rust harness harness/hx_engine/src/bin/engine.rs and lib/vcheck.py"
],
    "assumptions": [
        "histories: <= 12 transactions over <= 6 nodes (external ids != 0, never reused), 3 labels, 2 relationship types, 3 keys; writes address existing live nodes / existing relationships (wf_hist), plus a small malformed stream (duplicate external id)",
        "no crash, single handle, single thread (C01/C02/C03/C10 are separate properties)"
],
    "manifest": {
        "category": "proof",
        "text": "Proved for ALL histories of the executable fragment grow_hist (C06_refines_partial): commit-only histories of node creations with 0 or 1 label, relationship creations (parallel, self loops) and property sets/removals on nodes and relationships: nodes(), neighbors and incoming_neighbors (as multisets), node_property, edge_property, labels, external ids and external-id lookup of the faithful model equal those of the spec graph (relation Rel between memtable+runs and the graph, one commutation lemma per write kind, commit, induction over the history; non-vacuity Example). Refuted in general: C06_refuted exhibits three well-formed commit-only histories outside the fragment on which the model (= the implementation, by correspondence) disagrees with the spec graph (K-C06-eprops, K-C14-samerun, K-C06-labelorder). NOT proved: histories with deletes (tombstone overlay) and label changes outside the known classes, and the two whole-map reads (node_properties / edge_properties) \u2014 these are only sampled: every generated history is compared read-by-read with the reference graph after every commit and failures must fall into a known class whose executable predicate holds. Model = implementation and Coq spec = Rust reference are checked inside Coq on every case.",
        "design_ref": "DESIGN.md §5 C06 (Storage: logical content)",
        "level_note": "Trusted: Coq kernel; hand-written model tied to the code by sampled correspondence (not by proof). The full statement is REFUTED on the pinned code (witness theorem, reproduced on the implementation, recorded as known findings); conditional theorems cover only the part stated in the text.",
        "technique": "Rocq: executable faithful model + spec graph, refutation witnesses by vm_compute, invariants by induction over histories; vm_compute model/implementation correspondence on generated histories; direct search against a reference graph / erased or stripped re-runs on the implementation",
    },
}
