import importlib.util, os
_p = os.path.join(os.path.dirname(os.path.abspath(__file__)), "C23.py")
_s = importlib.util.spec_from_file_location("check_C23_common", _p)
_m = importlib.util.module_from_spec(_s)
_s.loader.exec_module(_m)

SPEC = {
    "id": "C20",
    "props_module": "NDB.Props.C20",
    "corr_modules": ["NDB.Corr.C20"],
    "theorems": ["C20_permutation", "C20_sorted", "C20_cmp_total_preorder", "C20_order_by_one_key", "C20_skip_limit",
                 "C20_temporal_refuted", "C20_cmp_total_preorder_all", "C20_order_by_sorted"],
    "allowed_axioms": _m.ALLOWED_PRIMITIVES,
    "harness_pkg": "hx_cypher",
    "harness_bin": "c20",
    "n": {"quick": 1200, "thorough": 30000},
    "trusted_base": _m.TRUSTED_COMMON + [
        "Rust's slice::sort_by is an unspecified stable sort: it is modelled as the stable insertion sort, which every stable "
        "sort agrees with when the comparator is a total preorder on the rows (checked per case by `preorder_on`)",
    ],
    "assumptions": [
        "the comparator is proved a total preorder on ALL modelled values without a temporal string at any depth (nested lists, "
        "maps, node/relationship ids, paths, all i64, all doubles incl. NaN, nulls), and ORDER BY with any number of ASC/DESC keys "
        "over such values is proved sorted (C20_order_by_sorted); rows must carry the keys of one ORDER BY clause (same directions)",
        "known class K-C20-temporal is refuted by a witness theorem; for such keys only the conditional theorem C20_sorted applies "
        "(hypothesis decided per case by `preorder_on`)",
    ],
    "manifest": {
        "category": "proof",
        "text": "Theorems over the model of execute_order_by/skip/limit: the output is a permutation of the input for all keys; "
                "it is sorted (StronglySorted w.r.t. the modelled comparator) whenever the comparator is total and transitive on "
                "the rows, and then it is the unique stable result; the comparator is a total preorder on all flat keys (null, "
                "booleans, every i64, every double, non-temporal strings), so ORDER BY on one flat key, ASC or DESC, is sorted "
                "unconditionally; more generally the comparator is a total preorder on all values (nested lists, maps, ids, paths) "
                "that contain no temporal string, so ORDER BY with any number of ASC/DESC keys over them is sorted; SKIP s LIMIT l = "
                "firstn l (skipn s ...), i.e. positions s..s+l-1. Refuted with a witness: temporal strings mixed with other "
                "strings (3-cycle). Real ORDER BY queries are run "
                "through the engine, the model is evaluated on the same rows in Coq, and sortedness/stability/slicing are "
                "tested directly against an independent exact comparator.",
        "design_ref": "DESIGN.md §5 C20",
        "level_note": "Trusted: Coq kernel incl. primitive floats; hand-written model tied to the code by sampled correspondence; "
                      "stable-sort uniqueness argument; temporal parser taken as data.",
        "technique": "Rocq proof (insertion sort: Permutation + StronglySorted; order embedding of flat keys into Z) + vm_compute "
                     "correspondence on ORDER BY queries run through the engine + direct search",
    },
}
