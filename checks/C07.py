SPEC = {
    "id": "C07",
    "props_module": "NDB.Props.C07",
    "corr_modules": ["NDB.Corr.C07"],
    "theorems": ["C07_refuted", "C07_abandon_state", "C07_erase_partial"],
    "allowed_axioms": [],
    "harness_pkg": "hx_engine",
    "harness_bin": "engine",
    "n": {"quick": 400, "thorough": 20000},
    "harness_args": {"quick": ["--prop", "C07"], "thorough": ["--prop", "C07"]},
    "harness_timeout": {"quick": 900, "thorough": 6000},
    "trusted_base": [
        "Coq 8.16.1 kernel + vm_compute (no native_compute); coqchk re-check in the thorough tier",
        "axioms: none (Print Assumptions: Closed under the global context for every listed theorem)",
        "hand-written model Engine/Model.v of GraphEngine (memtable, L0 runs, segments, sunk property store as an insertion list, i2e/i2l, interner, WAL record order, open = replay, iterator/overlay/store read algorithms) and spec Engine/Graph.v, tied to the code by the correspondence check: every generated history is run on the real engine (half through nervusdb::Db, half through GraphEngine), the canonical dump after every step is compared with the model evaluated by vm_compute inside Coq; the Rust reference graph used as direct-search oracle is compared with Engine/Graph.v the same way; the harness's class predicates are compared with Engine/Known.v",
        "property values are opaque codes of a 14-value palette (all nine kinds); B-tree, CSR encoding, pager, HNSW internals are not in the model (single-leaf behaviour of the property tree assumed: histories stay far below one page)",
        "Rust harness harness/hx_engine/src/bin/engine.rs and lib/vcheck.py"
],
    "assumptions": [
        "histories: <= 12 transactions over <= 6 nodes (external ids != 0, never reused), 3 labels, 2 relationship types, 3 keys; writes address existing live nodes / existing relationships (wf_hist), plus a small malformed stream (duplicate external id)",
        "no crash, single handle, single thread (C01/C02/C03/C10 are separate properties)"
],
    "manifest": {
        "category": "proof",
        "text": "Proved for ALL histories without reopen steps (C07_erase_partial): if no abandoned transaction calls set_vector or registers a new label/type name, erasing the abandoned transactions changes no read (dump and vector ids); C07_abandon_state: such a transaction leaves the whole engine state unchanged except the txid counter. Refuted in general (C07_refuted, K-C07-vector: set_vector acts on the index at call time). The model follows /repo's search_vector after b0237dc (ids of nodes tombstoned in a published run are filtered out of the result). Unsuccessful transactions of the generated histories end in two ways: dropped before commit, or commit() returning an error after part of their records reached the log (a 1.1 MiB property record above the WAL record limit, or an I/O fault injected at the first or second step of commit through the verif_io hook), followed by committed transactions and reopens; both are HTxn _ false for the model (whose log is the list of committed transactions recovery returns), so a recovery that merges leftover records is a correspondence mismatch and a direct failure against the erased history. NOT proved: histories with reopen steps after an abandoned transaction (needs invariance of recovery under a shift of transaction ids) and abandoned transactions that register new names (names persist in the interner; not visible in the dump) \u2014 both only sampled: the implementation is re-run on the erased history and compared step by step.",
        "design_ref": "DESIGN.md §5 C07 (Storage: logical content)",
        "level_note": "Trusted: Coq kernel; hand-written model tied to the code by sampled correspondence (not by proof). The full statement is REFUTED on the pinned code (witness theorem, reproduced on the implementation, recorded as known findings); conditional theorems cover only the part stated in the text.",
        "technique": "Rocq: executable faithful model + spec graph, refutation witnesses by vm_compute, invariants by induction over histories; vm_compute model/implementation correspondence on generated histories; direct search against a reference graph / erased or stripped re-runs on the implementation",
    },
}
