SPEC = {
    "id": "C24",
    "props_module": "NDB.Props.C24",
    "corr_modules": ["NDB.Corr.C24"],
    "theorems": ["C24_spec_is_sequential", "C24_refuted", "C24_full_refuted", "C24_creates_only", "C24_disjoint_footprints", "C24_code_txn_disjoint_footprints", "C24_label_order_refuted"],
    "allowed_axioms": [],
    "harness_pkg": "hx_txn",
    "harness_bin": "c24",
    "n": {"quick": 1000, "thorough": 12000},
    "harness_timeout": {"quick": 900, "thorough": 3000},
    "trusted_base": [
        "Coq 8.16.1 kernel + vm_compute (no native_compute); coqchk re-check in the thorough tier",
        "axioms: none (Print Assumptions: Closed under the global context for all theorems)",
        "hand-written model Txn/Model.v (shared with C13): each statement of an explicit C API transaction is evaluated "
        "against the committed snapshot (execute_write_in_txn takes db.snapshot()) and appends to the shared buffer; tied to "
        "the code by the correspondence (statuses and dump of every case, explicit and sequential runs)",
        "the dump goes through ndb_query; relationships with a deleted end are not shown (C14's subject)",
        "Rust harness harness/hx_txn (lib.rs, bin/c24.rs) and lib/vcheck.py",
    ],
    "assumptions": [
        "statement family as for C13; ndb_txn_query refuses read-only statements and returns no rows, so a transaction's "
        "own reads are observable only through MATCH-driven updates and the final dump",
        "the unlabelled scan MATCH (n) sees the nodes staged by earlier statements (with or without labels) and is modelled as such "
        "(Txn/Model.v scan_view); labelled scans, property predicates and MERGE read the committed snapshot only",
        "labels: :L on every initial node, :F1/:F2 never interned before the transaction; label removals are applied at commit after "
        "all other buffered writes (K-C24-label-order)",
        "Python and Node bindings are not exercised (they call the same execute_mixed path with db.snapshot())",
    ],
    "manifest": {
        "category": "proof",
        "text": "Spec: a transaction is the sequential composition of its statements (theorem C24_spec_is_sequential: S_txn = fold of auto-commit executions, for all databases and sequences). The code evaluates every statement of an explicit transaction against the last committed snapshot: refuted with a vm_compute witness (CREATE then MATCH..SET, both succeed, the SET is lost; MERGE after CREATE duplicates; DELETE of a node connected earlier in the transaction is not refused) — K-C24-snapshot; proved equal to the spec for every transaction in which no statement reads a key touched by the buffer of earlier statements (C24_disjoint_footprints; touched = keys of the nodes the buffered operations create, update, delete or connect), and for transactions of CREATE statements. Correspondence: model vs implementation on every generated transaction and on the same statements run one by one; direct oracle: transaction vs sequential run on identical databases.",
        "design_ref": "DESIGN.md §5 C13 / C24 / C07 transactions",
        "level_note": "Trusted: Coq kernel; hand-written model tied to the code by sampled correspondence; the harness's known-finding predicate is the syntactic over-approximation (keys mentioned) of the theorem's footprint (keys touched); touched ⊆ mentioned is not proved.",
        "technique": "Rocq proof (induction over statement sequences, fold_left_app) + vm_compute witnesses + differential run through the C API",
    },
}
