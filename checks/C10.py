SPEC = {
    "id": "C10",
    "props_module": "NDB.Props.C10",
    "corr_modules": ["NDB.Corr.C10"],
    "theorems": ["C10_exclusive", "C10_nolock_refuted", "C10_offline_nolock_refuted", "C10_locklate_refuted"],
    "allowed_axioms": [],
    "harness_pkg": "hx_conc",
    "harness_bin": "c10",
    "n": {"quick": 300, "thorough": 4000},
    "harness_timeout": {"quick": 900, "thorough": 2400},
    "trusted_base": [
        "Coq 8.16.1 kernel + vm_compute; coqchk re-check in the thorough tier",
        "axioms: none (Print Assumptions: Closed under the global context)",
        "hand-written model Conc/Handles.v: open takes the lock iff it is free, commit/compact/close act only on an open handle, "
        "close releases the lock; tied to Db::open/commit/compact/close by the correspondence (result of every call and the set "
        "of open handles, in-process handles and one handle in a child process)",
        "the OS advisory lock itself (flock via std File::try_lock on <ndb>.lock): exclusive between open file descriptions of one "
        "or several processes, released when the descriptor is closed or the process dies; this is trusted, not modelled further",
        "a refused request must not touch the files (clause 2 of C10_exclusive; C10_locklate_refuted shows the theorem sees a lock taken "
        "after open() has opened the files and cut the log's tail): checked on the real code (a) deterministically - while another handle "
        "is open and idle the driver appends a partial record (frame header without body) to the .wal, as if that handle were in the "
        "middle of an append, lets the other handle / the child process call open or vacuum, and requires .ndb and .wal to be byte-identical "
        "before and after; (b) as a stream - a holder commits 150 (thorough 600) multi-record transactions while 3 threads and a child "
        "process keep calling Db::open; every request must be refused and every acknowledged relationship present after close + reopen",
        "each API call is atomic at this level (calls are executed one at a time by the harness); interleavings inside a call "
        "are covered by the in-process writer mutex (C09/C35), not here",
    ],
    "assumptions": [
        "writers of the database files are handles (GraphEngine::open via Db::open / ndb_open) and the offline tools vacuum_in_place and "
        "BulkLoader::commit, which take the same lock since fix aa0c06d (model: HOffline = lock, rewrite, unlock in one call); the backup "
        "manager only reads",
        "the lock is advisory: a process that ignores it, or a file system without flock semantics (some network file systems), "
        "is outside the statement",
    ],
    "manifest": {
        "category": "proof",
        "text": "Theorem over all interleavings of any number of handles' open/commit/compact/close sequences under the open-time "
                "lock protocol (the code after fix 039246a): at most one handle is open, every write reaches the files while its "
                "writer holds the lock, and the trace of results is the history of a single handle opened and closed repeatedly "
                "(other opens are refused and act on nothing; an offline tool - vacuum, bulk load - runs only while no handle is open, fix aa0c06d), so the single-handle properties apply. The no-lock behaviour of the "
                "pinned tree is refuted by a two-handle witness, which reproduced on the real code (database no longer reopened). "
                "Correspondence and direct search on the real code with handles in one process and in a child process: results of "
                "every call = model; never two open handles; after closing everything the database reopens with exactly the "
                "acknowledged commits. Partial: the OS lock is trusted.",
        "design_ref": "DESIGN.md §5 C10",
        "level_note": "Trusted: Coq kernel; OS advisory lock semantics; the hand-written protocol model tied by sampled correspondence; "
                      "offline tools that bypass GraphEngine::open are not covered.",
        "technique": "Rocq proof (invariant induction over all schedules) + in-process and child-process handle interleavings + vm_compute correspondence",
    },
}
