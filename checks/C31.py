SPEC = {
    "id": "C31",
    "props_module": "NDB.Props.C31",
    "corr_modules": ["NDB.Corr.C31"],
    "theorems": ["C31_search_sound", "C31_search_keeps_sound", "C31_search_vector_sound", "C31_search_vector_live",
                 "C31_reopen_refuted", "C31_small_exact_checked", "C31_small_exact_full", "C31_reopen_same_checked", "C31_reopen_same_small"],
    "allowed_axioms": [],
    "harness_pkg": "hx_hnsw",
    "harness_bin": "c31",
    "n": {"quick": 80, "thorough": 1000},
    "harness_timeout": {"quick": 900, "thorough": 3000},
    "trusted_base": [
        "Coq 8.16.1 kernel + vm_compute (no native_compute); coqchk re-check in the thorough tier",
        "axioms: none (Print Assumptions: Closed under the global context for all listed theorems)",
        "gen/consts_hnsw.py: HNSW defaults (m, ef_construction, ef_search, also the env fallbacks), level cap, back-link truncation factor, "
        "storage key tags, vector cache capacity, B-tree page size / header sizes / cell-length formula re-read from the source on every run",
        "hand-written model Vector/Hnsw.v + Vector/PageTree.v (insert/search as written in logic.rs over page-level B-trees with duplicate keys as in "
        "btree.rs, Rust's slice::binary_search_by modelled literally for the split position), tied to the code by the correspondence check: the "
        "model replays each generated history with the levels the implementation drew (hook nervusdb_storage::index::hnsw::logic::verif) and must "
        "return the same (id, squared distance) list for every search, before and after reopen",
        "not modelled: f32 arithmetic (inputs restricted to integer vectors with d^2 <= 2^16, where sqrt is exact-rounded and order preserving; the "
        "harness checks each reported f32 against the integer), BlobStore (blob id = content), pager/real page numbers, cache eviction (< 1024 ids), WAL/transactions "
        "(set_vector bypasses them: C07)",
        "Rust harness harness/hx_hnsw/src/bin/c31.rs and lib/vcheck.py",
    ],
    "assumptions": [
        "theorem C31_search_sound quantifies over every history of the model (any levels, re-insertions, deletions, reopens) and every query/k for which the search answers (Ok); "
        "'stored vector' means a vector that was set for that node (the latest one as long as the cache holds it; see K-C31-stale-vector)",
        "exactness for <= 2m+1 vectors (C31_small_exact_full) and invariance under reopen (C31_reopen_same_small) are theorems for clean histories: no node gets a vector twice, no earlier reopen, "
        "ids are u32, and the graph tree (for reopen also the vector tree) still is a single page -- with the default m = 16 the graph tree reaches its second page after roughly 480 neighbour-list writes, "
        "i.e. inside the 33-vector regime only for histories with many layers; beyond one page the duplicate-key reads of the B-tree (K-C26-dups) make the general statements false or unproved, "
        "and the check falls back to the theorems for states passing the executable small_check / reopen_check, which the correspondence evaluates on every generated case",
    ],
    "manifest": {
        "category": "proof",
        "text": "Proved for all reachable states of the faithful HNSW model (any insert history with the drawn levels as input, re-insertions, deletions, reopens; page-level B-tree stores with duplicate keys): a search returns at most k results, pairwise different nodes, in non-decreasing distance, each node has a vector that was set and its squared distance is exact for such a vector. The engine-level search (all index candidates, deleted nodes left out, first k) has the same guarantees and returns no deleted node, for every reachable state (C31_search_vector_sound; the defect K-C31-deleted was repaired). Exactness for at most 2m+1 vectors is a theorem for every clean history (no node gets a vector twice, no reopen, graph tree not split): C31_small_exact_full. Unchanged-by-reopen is a theorem for the same clean small class while neither B-tree has split (C31_reopen_same_small). Refuted with witness: a reopen can change the result after a vector was set twice (K-C31-stale-vector, 511-insert witness replayed on the implementation). Proved for every state passing an executable check: the search equals the brute-force k nearest (small_check: connected layer 0, all vectors cached, |S| <= ef_search), and reopening changes no search result (reopen_check: meta and cached vectors read back from the trees). That reachable clean states pass these checks is sampled inside Coq on every generated case, not proved. Three defects repaired in /repo (stale B-tree roots after reopen; k = 0; deleted nodes returned).",
        "design_ref": "DESIGN.md §5 C31",
        "level_note": "Trusted: Coq kernel; hand-written model tied to the code by sampled correspondence (levels taken from a cfg-guarded hook); f32 rounding avoided by input restriction.",
        "technique": "Rocq proof (store invariant, search_layer loop invariants, BFS-closure completeness argument, relational cache-independence proof) + vm_compute witnesses + model/implementation correspondence on generated histories + direct brute-force search",
    },
}
