SPEC = {
    "id": "C31",
    "props_module": "NDB.Props.C31",
    "corr_modules": ["NDB.Corr.C31"],
    "theorems": ["C31_search_sound", "C31_search_keeps_sound", "C31_deleted_refuted", "C31_search_existing",
                 "C31_reopen_refuted", "C31_small_exact_checked", "C31_reopen_same_checked"],
    "allowed_axioms": [],
    "harness_pkg": "hx_hnsw",
    "harness_bin": "c31",
    "n": {"quick": 80, "thorough": 1000},
    "harness_timeout": {"quick": 900, "thorough": 3000},
    "trusted_base": [
        "Coq 8.16.1 kernel + vm_compute (no native_compute); coqchk re-check in the thorough tier",
        "axioms: none (Print Assumptions: Closed under the global context for all listed theorems)",
        "gen/consts_hnsw.py: HNSW defaults (m, ef_construction, ef_search, also the env fallbacks), level cap, back-link truncation factor, "
        "storage key tags, vector cache capacity, B-tree page size / header sizes / cell-length formula re-read from the source on every run",
        "hand-written model Vector/Hnsw.v + Vector/PageTree.v (insert/search as written in logic.rs over page-level B-trees with duplicate keys as in "
        "btree.rs, Rust's slice::binary_search_by modelled literally for the split position), tied to the code by the correspondence check: the "
        "model replays each generated history with the levels the implementation drew (hook nervusdb_storage::index::hnsw::logic::verif) and must "
        "return the same (id, squared distance) list for every search, before and after reopen",
        "not modelled: f32 arithmetic (inputs restricted to integer vectors with d^2 <= 2^16, where sqrt is exact-rounded and order preserving; the "
        "harness checks each reported f32 against the integer), BlobStore (blob id = content), pager/real page numbers, cache eviction (< 1024 ids), WAL/transactions "
        "(set_vector bypasses them: C07)",
        "Rust harness harness/hx_hnsw/src/bin/c31.rs and lib/vcheck.py",
    ],
    "assumptions": [
        "theorem C31_search_sound quantifies over every history of the model (any levels, re-insertions, deletions, reopens) and every query/k for which the search answers (Ok); "
        "'stored vector' means a vector that was set for that node (the latest one as long as the cache holds it; see K-C31-stale-vector)",
        "exactness for small indexes and invariance under reopen are proved for every state that passes an executable check (small_check / reopen_check); that the reachable states "
        "of clean histories (no id inserted twice; for exactness also no reopen, <= 2m+1 vectors, <= ef_search, graph tree not split) pass the check is evaluated inside Coq on every generated case, "
        "not proved (full statements kept as C31_small_exact_full_statement / C31_reopen_same_full_statement)",
    ],
    "manifest": {
        "category": "proof",
        "text": "Proved for all reachable states of the faithful HNSW model (any insert history with the drawn levels as input, re-insertions, deletions, reopens; page-level B-tree stores with duplicate keys): a search returns at most k results, pairwise different nodes, in non-decreasing distance, each node has a vector that was set and its squared distance is exact for such a vector. Refuted with witnesses: deleted nodes are returned (K-C31-deleted, conditional theorem for histories without deletion); a reopen can change the result after a vector was set twice (K-C31-stale-vector, 511-insert witness replayed on the implementation). Proved for every state passing an executable check: the search equals the brute-force k nearest (small_check: connected layer 0, all vectors cached, |S| <= ef_search), and reopening changes no search result (reopen_check: meta and cached vectors read back from the trees). That reachable clean states pass these checks is sampled inside Coq on every generated case, not proved. Two defects repaired in /repo (stale B-tree roots after reopen; k = 0).",
        "design_ref": "DESIGN.md §5 C31",
        "level_note": "Trusted: Coq kernel; hand-written model tied to the code by sampled correspondence (levels taken from a cfg-guarded hook); f32 rounding avoided by input restriction.",
        "technique": "Rocq proof (store invariant, search_layer loop invariants, BFS-closure completeness argument, relational cache-independence proof) + vm_compute witnesses + model/implementation correspondence on generated histories + direct brute-force search",
    },
}
