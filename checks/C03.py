SPEC = {
    "id": "C03",
    "props_module": "NDB.Props.C03",
    "corr_modules": ["NDB.Corr.C03"],
    "theorems": ["C03_snapshot_consistent", "C03_inplace_refuted", "C03_unlocked_torn_refuted"],
    "allowed_axioms": [],
    "harness_pkg": "hx_conc",
    "harness_bin": "c03",
    "n": {"quick": 700, "thorough": 6000},
    "harness_timeout": {"quick": 900, "thorough": 2400},
    "trusted_base": [
        "Coq 8.16.1 kernel + vm_compute; coqchk re-check in the thorough tier",
        "axioms: none (Print Assumptions: Closed under the global context)",
        "hand-written model Conc/Snapshot.v: commit = [WLog; WPublish], compaction = [CPersist; CSink; CLog; CPublish], snapshot = "
        "[RAcquire], reads through the copied fields and the live property heap; a publication section and an acquisition are atomic "
        "steps because both run under the engine's publish_lock (fix 68601a6). That the lock excludes the overlap is not part of the "
        "Coq model; it is probed on the real code in every run (three probes: reader released while the writer is parked inside a "
        "commit's / a compaction's publication section, writer released while a reader is parked inside its acquisition - the other "
        "thread must stay blocked) and std's RwLock semantics is trusted",
        "tied to engine.rs/api.rs by the correspondence: for every driven schedule every view every reader observed = the model's "
        "observation, the driver's safe/unsafe classification = the model's ghost o_safe, and the implementation's safe observations = the "
        "committed state, all evaluated inside Coq",
        "schedule points nervusdb_storage::verif::point (commit 3c4c040) and the baton scheduler of harness/hx_conc: one thread at a "
        "time between points; interleavings inside a segment (e.g. inside one B-tree insert) are not explored",
        "model restrictions: transactions create nodes, set one integer property per node and create relationships; no deletes, label "
        "changes, index lookups, statistics; the property B-tree is a first-match association list (in-place overwrite = prepend); "
        "compaction sinks the published runs (the code sinks its clone of them taken under write_lock)",
    ],
    "assumptions": [
        "one writer at a time (the engine's write_lock, see C09/C35); any number of readers",
        "C03_snapshot_consistent covers every schedule but only SAFE reads (no compaction sink step since the acquisition, or a snapshot "
        "without property root); unsafe reads are the known finding K-C03-inplace (design-level: snapshots read through a B-tree that "
        "compaction rewrites in place), recorded, not repaired",
        "checkpoint = compaction in this code base; index creation and label creation are not interleaved in the model",
    ],
    "manifest": {
        "category": "proof",
        "text": "K-C03-torn is REPAIRED (fix 68601a6: commit and compaction hold publish_lock for writing across their publication steps, "
                "snapshot creation holds it for reading while it copies the fields). Theorem for every history, every number of readers and "
                "EVERY schedule: each observation made while no compaction sink step ran since the snapshot was acquired (or through a "
                "snapshot without property root) is exactly the committed state after the j operations published at the acquisition, a "
                "prefix of the history - every transaction completely or not at all. Still REFUTED and recorded (K-C03-inplace): a held "
                "snapshot reads properties through a B-tree that a later compaction rewrites in place (5, 5, 6); witness by vm_compute, "
                "reproduced on the real engine, the model flags exactly those reads as unsafe. The torn witnesses of the old unlocked "
                "acquisition are kept as regression theorems (Conc/SnapshotUnlocked) and as lock probes on the real code. Correspondence: "
                "lock probes, corpus, interleavings of commit-compact-commit-compact with one reader (all 455 when n>=600), generated "
                "histories with 1-3 readers; views, safe flags and safe-read consistency compared inside Coq.",
        "design_ref": "DESIGN.md §5 C03",
        "level_note": "Trusted: Coq kernel; hand-written step model tied by sampled correspondence; atomicity of publication/acquisition "
                      "under publish_lock (probed, not proved); atomicity of segments between schedule points. Partial: no deletes/label "
                      "changes/index reads in the model.",
        "technique": "Rocq proof (invariant induction over all schedules with ghost history; refinement of runs/segments/heap to the abstract "
                     "graph) + vm_compute witnesses + deterministic baton scheduler with lock probes + vm_compute correspondence",
    },
}
