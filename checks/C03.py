SPEC = {
    "id": "C03",
    "props_module": "NDB.Props.C03",
    "corr_modules": ["NDB.Corr.C03"],
    "theorems": ["C03_quiescent_consistent", "C03_stable_without_compaction", "C03_quiescent_snapshot_schedules", "C03_torn_refuted",
                 "C03_torn_compaction_refuted", "C03_inplace_refuted"],
    "allowed_axioms": [],
    "harness_pkg": "hx_conc",
    "harness_bin": "c03",
    "n": {"quick": 700, "thorough": 6000},
    "harness_timeout": {"quick": 900, "thorough": 2400},
    "trusted_base": [
        "Coq 8.16.1 kernel + vm_compute; coqchk re-check in the thorough tier",
        "axioms: none (Print Assumptions: Closed under the global context)",
        "hand-written model Conc/Snapshot.v: commit = 4 publication steps, compaction = 7, snapshot acquisition = 7 field reads, "
        "reads through the copied fields and the live property heap; tied to engine.rs/api.rs by the correspondence: for every driven "
        "schedule every view every reader observed = the model's observation (torn and in-place effects included)",
        "schedule points nervusdb_storage::verif::point (commit 3c4c040) and the baton scheduler of harness/hx_conc: one thread at a "
        "time between points; interleavings inside a segment (e.g. inside one B-tree insert) are not explored",
        "model restrictions: transactions create nodes, set one integer property per node and create relationships; no deletes, label "
        "changes, index lookups, statistics; the property B-tree is a first-match association list (in-place overwrite = prepend)",
    ],
    "assumptions": [
        "one writer at a time (the engine's write_lock, see C09/C35); any number of readers",
        "the positive theorems hold on the sub-domains stated in Props/C03.v (acquisition with no writer step in flight; no compaction "
        "sink step during the snapshot's lifetime); outside them the property is refuted (known findings K-C03-torn, K-C03-inplace)",
        "Corr/C03.v `classify` decides the hypotheses of the conditional theorems per generated schedule INSIDE Coq (quiescent acquisition; "
        "no sink step between acquisition and the read unless the property root was unset) and `ok` requires every read classified safe to "
        "show exactly spec_of (firstn j h) on the implementation's own observations; the classifier itself is validated on the witnesses "
        "but not proved equivalent to the theorems' hypotheses for arbitrary schedules",
        "candidate repair of K-C03-torn prepared and tested but NOT applied (branch conc-c03-publish-lock-candidate in /repo, 20 unguarded "
        "lines: a publish_lock RwLock held for writing across the publication steps of commit/compaction and for reading while a snapshot "
        "copies the fields; nervusdb-storage, nervusdb lib, capi, smoke, t106 tests green): applying it requires the model and the driver to "
        "treat the acquisition as blocking, which was not finished",
        "schedule-level theorem C03_quiescent_snapshot_schedules: acquisition after j whole writer operations run alone, then EVERY "
        "continuation schedule, no compaction among the remaining operations; a quiescent acquisition in the middle of an arbitrary "
        "earlier interleaving with other readers is covered by the harness predicate but not by a Coq classifier over all schedules",
    ],
    "manifest": {
        "category": "proof",
        "text": "REFUTED on the pinned tree, recorded as known findings (design-level, not repaired): snapshot acquisition copies six "
                "fields without a common lock (K-C03-torn: node without labels/properties, relationships lost or doubled around "
                "compaction) and reads properties through a B-tree that compaction rewrites in place (K-C03-inplace: a held snapshot "
                "reads 5, 5, 6). Witness schedules by vm_compute, each reproduced on the real engine through cfg-guarded schedule points. "
                "Proved for all histories: a snapshot acquired while no writer operation is in flight shows exactly the committed state "
                "(refinement of runs/segments/heap to the abstract graph under every sequence of commits and compactions); proved for all "
                "schedules: while no compaction sink step remains, a held snapshot's view never changes; combined at schedule level (quiescent acquisition, then every schedule without compaction: every observation is the committed state). Correspondence: all 495 "
                "interleavings of one commit with one acquisition (thorough; every 4th in quick), sampled compaction interleavings, "
                "generated histories with 1-2 readers; every observed view compared with the model in Coq.",
        "design_ref": "DESIGN.md §5 C03",
        "level_note": "Trusted: Coq kernel; hand-written step model tied by sampled correspondence; atomicity of segments between schedule "
                      "points. Partial: no deletes/label changes/index reads in the model; checkpoint = compaction in this code base; "
                      "index creation not interleaved.",
        "technique": "Rocq proof (refinement invariant over all histories; invariant induction over all schedules) + vm_compute witnesses + "
                     "deterministic baton scheduler over schedule points + vm_compute correspondence",
    },
}
