SPEC = {
    "id": "C26",
    "props_module": "NDB.Props.C26",
    "corr_modules": ["NDB.Corr.C26", "NDB.Corr.C26bs"],
    "theorems": ["C26_refuted_delete", "C26_refuted_lookup", "C26_refuted_insert",
                 "C26_delete_exact", "C26_cursor_chain_partial", "C26_insert_fits_exact_partial", "C26_invariant_chain_partial", "C26_single_leaf_partial", "C26_single_leaf_dups_partial", "C26_leaf_insert_partial", "C26_leaf_delete_partial", "C26_leaf_split_partial",
                 "C26_descent_partial", "C26_binary_search_partial", "C26_dups_delete_general"],
    "allowed_axioms": [],
    "harness_pkg": "hx_btree",
    "harness_bin": "c26",
    "n": {"quick": 200, "thorough": 1500},
    "harness_timeout": {"quick": 600, "thorough": 3000},
    "trusted_base": [
        "Coq 8.16.1 kernel + vm_compute (no native_compute); coqchk re-check in the thorough tier",
        "axioms: none (Print Assumptions: Closed under the global context for every listed theorem)",
        "gen/consts_btree.py: PAGE_SIZE, leaf/internal header sizes, slot/payload/child widths, varint radix, first data page, "
        "page-id limit re-read from btree.rs / lib.rs / pager.rs on every run; the comparison operators of leaf_lower_bound (k < target) "
        "and internal_child_for_key (k <= target), both median expressions and both binary_search_by call sites are pinned by pattern",
        "hand-written model BTree/BTree.v (page heap, byte accounting, insert with splits as the recursion whose stack is the code's path "
        "vector, delete, cursor positioning, the callers' scan loop, lookup as read_node_property_from_store does it), tied to the code by "
        "the correspondence: per history every operation result, the final root id and every page (kind, cells in slot order, sibling / "
        "leftmost child, cell_content_begin) compared inside Coq",
        "model of core::slice::binary_search_by (rustc 1.95, the toolchain that builds the harness): validated separately against the real "
        "function on generated comparison lists (monotone, arbitrary, monotone with arbitrary equal-key run)",
        "pager: pages are handed out sequentially from FIRST_DATA_PAGE_ID on a fresh file (nothing is freed by the B-tree); reopening is the "
        "identity on the model state (checked: every history ends with, and many contain, a real close + Pager::open + BTree::load)",
        "Rust harness harness/hx_btree/src/bin/c26.rs (generators, reference multimap, raw page decoder, class mirrors) and lib/vcheck.py",
    ],
    "assumptions": [
        "one B-tree on a fresh pager file, single thread, no I/O errors; at most 65536 pages",
        "lookup = seek + key equality as read_node_property_from_store does; scan = the callers' loop `while is_valid { read; if !advance { break } }`",
        "the full refinement statement C26_full_statement (all histories outside the two known classes, any tree depth) is NOT proved; "
        "proved of it: every history that stays in one leaf (C26_single_leaf_partial, C26_single_leaf_dups_partial), the leaf-level and "
        "descent components of the multi-level algorithm, and delete's exactness for every heap; beyond one leaf the refinement is sampled by "
        "the correspondence (on every generated history outside the classes: model results = spec results, final scan = spec list, the executable "
        "invariant BTree/Inv.v wf_state holds — leaves strictly sorted and inside their separator bounds, sibling chain = in-order traversal, "
        "byte accounting consistent, no page visited twice — and in-order contents = spec list)",
    ],
    "manifest": {
        "category": "proof",
        "text": "Faithful page-heap model of btree.rs (code's byte accounting, its two hand-written binary searches, core::slice::binary_search_by, splits, sibling-walking cursor); model = implementation is checked inside Coq on generated histories: result of every op, final root and every page image, after real reopens. The property is REFUTED on the pinned code by machine-checked witnesses in the model, reproduced by the real code: K-C26-dups (with a key stored twice: delete misses a stored pair — proved for every key with three entries, C26_dups_delete_general; lookup returns an old payload and a seek sees 5 of 9 equal keys after a leaf split) and K-C26-splitfit (17 inserts of distinct keys of 2 and 900 bytes panic: a median split half exceeds a page). A third defect (a scan stopped at a leaf emptied by deletes, no duplicates needed) was repaired in /repo ff9d0a3; its witness is a regression. Proved for all inputs: C26_delete_exact (every heap: delete=true removes exactly one cell equal to the pair and changes nothing else; otherwise nothing changes); C26_single_leaf_partial (every history without a twice-stored key that never allocates a page: every insert/delete/lookup/seek/reopen result and the final scan equal the sorted multimap); C26_single_leaf_dups_partial (same with equal keys but no delete); C26_cursor_chain_partial (every heap, any depth: seek + scan over a well-formed sibling chain return the rest of the reached leaf and all following leaves; lookup is its head); C26_insert_fits_exact_partial (every heap, any depth: a non-splitting insert writes exactly the reached leaf, pair at the lower-bound slot); leaf insert position, delete search, median split + separator bounds, descent rule, binary_search_by on monotone lists. NOT proved: C26_full_statement for trees deeper than one leaf (separator/sibling-chain invariants across splits) — sampled by the correspondence only.",
        "design_ref": "DESIGN.md §5 C26",
        "level_note": "Trusted: Coq kernel; hand-written model tied to the code by sampled correspondence (strong: whole page images after every history); the conditional refinement over multi-level trees is not proved, only the single-leaf case and the leaf-level/descent components.",
        "technique": "Rocq: executable page-heap model, vm_compute refutation witnesses, invariant proofs by induction over histories (one-leaf domain) and over the binary-search loops; vm_compute model/implementation correspondence on generated histories",
    },
}
