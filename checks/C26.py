SPEC = {
    "id": "C26",
    "props_module": "NDB.Props.C26",
    "corr_modules": ["NDB.Corr.C26", "NDB.Corr.C26bs"],
    "theorems": ["C26_refuted_delete", "C26_refuted_lookup", "C26_refuted_insert",
                 "C26_single_leaf_partial", "C26_leaf_insert_partial", "C26_leaf_delete_partial", "C26_leaf_split_partial",
                 "C26_descent_partial", "C26_binary_search_partial"],
    "allowed_axioms": [],
    "harness_pkg": "hx_btree",
    "harness_bin": "c26",
    "n": {"quick": 200, "thorough": 1500},
    "harness_timeout": {"quick": 600, "thorough": 3000},
    "trusted_base": [
        "Coq 8.16.1 kernel + vm_compute (no native_compute); coqchk re-check in the thorough tier",
        "axioms: none (Print Assumptions: Closed under the global context for every listed theorem)",
        "gen/consts_btree.py: PAGE_SIZE, leaf/internal header sizes, slot/payload/child widths, varint radix, first data page, "
        "page-id limit re-read from btree.rs / lib.rs / pager.rs on every run; the comparison operators of leaf_lower_bound (k < target) "
        "and internal_child_for_key (k <= target), both median expressions and both binary_search_by call sites are pinned by pattern",
        "hand-written model BTree/BTree.v (page heap, byte accounting, insert with splits as the recursion whose stack is the code's path "
        "vector, delete, cursor positioning, the callers' scan loop, lookup as read_node_property_from_store does it), tied to the code by "
        "the correspondence: per history every operation result, the final root id and every page (kind, cells in slot order, sibling / "
        "leftmost child, cell_content_begin) compared inside Coq",
        "model of core::slice::binary_search_by (rustc 1.95, the toolchain that builds the harness): validated separately against the real "
        "function on generated comparison lists (monotone, arbitrary, monotone with arbitrary equal-key run)",
        "pager: pages are handed out sequentially from FIRST_DATA_PAGE_ID on a fresh file (nothing is freed by the B-tree); reopening is the "
        "identity on the model state (checked: every history ends with, and many contain, a real close + Pager::open + BTree::load)",
        "Rust harness harness/hx_btree/src/bin/c26.rs (generators, reference multimap, raw page decoder, class mirrors) and lib/vcheck.py",
    ],
    "assumptions": [
        "one B-tree on a fresh pager file, single thread, no I/O errors; at most 65536 pages",
        "lookup = seek + key equality as read_node_property_from_store does; scan = the callers' loop `while is_valid { read; if !advance { break } }`",
        "the full refinement statement C26_full_statement (all histories outside the three known classes) is NOT proved; it is sampled by the "
        "correspondence (model = spec on every generated history outside the classes) — see manifest text",
    ],
    "manifest": {
        "category": "proof",
        "text": "Faithful page-heap model of btree.rs with the code's byte accounting and binary searches; model = implementation is checked inside Coq on generated histories (results of every op, final root and every page image, after a real reopen). The property is REFUTED on the pinned code by four machine-checked witnesses (delete misses a stored pair among equal keys; lookup returns an old payload and a seek sees 5 of 9 equal keys after a leaf split; a scan stops at an emptied leaf with no duplicates at all; an insert of distinct keys panics when a median split half exceeds a page) = known findings K-C26-dups, K-C26-emptyleaf, K-C26-splitfit. Proved for all inputs (partial): see theorems named _partial. The refinement for all histories outside the classes is stated (C26_full_statement) but only sampled.",
        "design_ref": "DESIGN.md §5 C26",
        "level_note": "Trusted: Coq kernel; hand-written model tied to the code by sampled correspondence (strong: whole page images); the conditional refinement theorem over the page heap is not proved, only its leaf-level components.",
        "technique": "Rocq: executable page-heap model, vm_compute refutation witnesses, leaf-level invariant proofs; vm_compute model/implementation correspondence on generated histories",
    },
}
