SPEC = {
    "id": "C26",
    "props_module": "NDB.Props.C26",
    "corr_modules": ["NDB.Corr.C26", "NDB.Corr.C26bs"],
    "theorems": ["C26_refuted_delete", "C26_refuted_lookup",
                 "C26_height2_partial", "C26_delete_exact", "C26_cursor_chain_partial", "C26_insert_fits_exact_partial", "C26_invariant_chain_partial", "C26_single_leaf_partial", "C26_single_leaf_dups_partial", "C26_leaf_insert_partial", "C26_leaf_delete_partial", "C26_leaf_split_partial",
                 "C26_descent_partial", "C26_binary_search_partial", "C26_dups_delete_general"],
    "allowed_axioms": [],
    "harness_pkg": "hx_btree",
    "harness_bin": "c26",
    "n": {"quick": 200, "thorough": 1500},
    "harness_timeout": {"quick": 600, "thorough": 3000},
    "trusted_base": [
        "Coq 8.16.1 kernel + vm_compute (no native_compute); coqchk re-check in the thorough tier",
        "axioms: none (Print Assumptions: Closed under the global context for every listed theorem)",
        "gen/consts_btree.py: PAGE_SIZE, leaf/internal header sizes, slot/payload/child widths, varint radix, first data page, "
        "page-id limit re-read from btree.rs / lib.rs / pager.rs on every run; the comparison operators of leaf_lower_bound (k < target) "
        "and internal_child_for_key (k <= target), both median expressions and both binary_search_by call sites are pinned by pattern",
        "hand-written model BTree/BTree.v (page heap, byte accounting, insert with splits as the recursion whose stack is the code's path "
        "vector, delete, cursor positioning, the callers' scan loop, lookup as read_node_property_from_store does it), tied to the code by "
        "the correspondence: per history every operation result, the final root id and every page (kind, cells in slot order, sibling / "
        "leftmost child, cell_content_begin) compared inside Coq",
        "model of core::slice::binary_search_by (rustc 1.95, the toolchain that builds the harness): validated separately against the real "
        "function on generated comparison lists (monotone, arbitrary, monotone with arbitrary equal-key run)",
        "pager: pages are handed out sequentially from FIRST_DATA_PAGE_ID on a fresh file (nothing is freed by the B-tree); reopening is the "
        "identity on the model state (checked: every history ends with, and many contain, a real close + Pager::open + BTree::load)",
        "Rust harness harness/hx_btree/src/bin/c26.rs (generators, reference multimap, raw page decoder, class mirrors) and lib/vcheck.py",
    ],
    "assumptions": [
        "one B-tree on a fresh pager file, single thread, no I/O errors; at most 65536 pages",
        "key domain of insert: the leaf cell of a key takes at most half a page (keys up to ~4070 bytes); larger keys can make a leaf "
        "unsplittable in two and are refused with 'index page: no space' (modelled; executable class has_failed_op; corpus case 4)",
        "lookup = seek + key equality as read_node_property_from_store does; scan = the callers' loop `while is_valid { read; if !advance { break } }`",
        "C26_full_statement (all histories outside the known classes, any tree depth) is proved for histories in which the tree stays within "
        "height 2 (C26_height2_partial: the root is split at most once; any number of leaf splits). For deeper trees (a second root split, "
        "i.e. roughly > 8 leaves of 900-byte keys or > ~60000 short entries) it is sampled by the correspondence: on every generated history "
        "outside the classes model results = spec results, final scan = spec list, and the executable invariant BTree/Inv.v wf_state holds "
        "(leaves strictly sorted inside their separator bounds, sibling chain = in-order traversal, byte accounting, no page twice) with "
        "in-order contents = spec list. Components proved for every heap and any depth: delete exactness, non-splitting insert exactness, "
        "cursor over a sibling chain, invariant => chain",
    ],
    "manifest": {
        "category": "proof",
        "text": "Faithful page-heap model of btree.rs (code's byte accounting, its two hand-written binary searches, core::slice::binary_search_by, byte-aware split point, sibling-walking cursor); model = implementation is checked inside Coq on generated histories: result of every op, final root and every page image, after real reopens. REFUTED on the pinned code for histories with a key stored twice (known finding K-C26-dups; machine-checked witnesses reproduced by the real code: delete misses a stored pair — proved for every key with three entries, C26_dups_delete_general; lookup returns an old payload and a seek sees 5 of 9 equal keys after a leaf split). Two further defects were repaired in /repo and are regressions now: a scan stopped at a leaf emptied by deletes (ff9d0a3); the median split by cell count overflowed a page and panicked on 17 inserts of distinct keys of 2 and 900 bytes (0fc5a58: split point now chosen by bytes). PROVED for all histories outside the classes in which the tree stays within height 2 (C26_height2_partial: one leaf, then an internal root over any number of leaves; induction over the history with a heap representation invariant): every insert/delete/lookup/seek/reopen result and the final scan equal the sorted multimap. Also for every heap and any depth: C26_delete_exact, C26_insert_fits_exact_partial, C26_cursor_chain_partial, C26_invariant_chain_partial; single-leaf refinements; leaf insert position, delete search, split + separator bounds, descent rule, binary_search_by on monotone lists. NOT proved: C26_full_statement for trees of height >= 3 — sampled by the correspondence (results, page images, executable invariant wf_state).",
        "design_ref": "DESIGN.md §5 C26",
        "level_note": "Trusted: Coq kernel; hand-written model tied to the code by sampled correspondence (whole page images after every history). The conditional refinement theorem is proved up to height 2; height >= 3 (internal-node splits) is sampled only.",
        "technique": "Rocq: executable page-heap model, vm_compute refutation witnesses, refinement by induction over histories with a heap representation invariant (zipper over the root's children, frame lemmas, sibling chain), proofs of the binary-search loops; vm_compute model/implementation correspondence on generated histories",
    },
}
