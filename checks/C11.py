import importlib.util, os
_s = importlib.util.spec_from_file_location("c19spec", os.path.join(os.path.dirname(os.path.abspath(__file__)), "C19.py"))
_m = importlib.util.module_from_spec(_s); _s.loader.exec_module(_m)

SPEC = {
    "id": "C11",
    "props_module": "NDB.Props.C11",
    "corr_modules": ["NDB.Corr.C11"],
    "theorems": ["C11_optional_nonempty", "C11_window_lengths", "C11_reference_unique", "C11_crosspattern_refuted", "C11_projection_agrees", "C11_parallel_refuted"],
    "allowed_axioms": _m.ALLOWED,
    "harness_pkg": "hx_query",
    "harness_bin": "c11",
    "n": {"quick": 420, "thorough": 8400},
    "harness_timeout": {"quick": 600, "thorough": 3000},
    "trusted_base": [
        "Coq 8.16.1 kernel + vm_compute (no native_compute); coqchk re-check in the thorough tier",
        "axioms: none declared; Print Assumptions lists only the kernel's primitive float/int63 operations (the value type mentions them)",
        "hand-written clause semantics Query/Clauses.v in two modes (Faithful = the plans the engine builds, Reference = openCypher) over "
        "Query/Expr.v, Query/Rows.v and the Cypher value model; the engine is tied to Faithful only by the sampled correspondence",
        "the graph the model sees is dumped from the engine through GraphSnapshot",
        "Rust harness harness/hx_query (lib.rs, bin/c11.rs) and lib/vcheck.py",
    ],
    "assumptions": [
        "SAMPLED: that the implementation equals the model is checked on generated graph x query pairs only; this part of the quantifier is not proved",
        "NOT PROVED: C11_full_statement (Faithful = Reference up to permutation outside the known classes) - evaluated per generated case; "
        "invariance under permutation of the relationship list, WHERE/projection commutation",
        "fragment generated: one/two-hop patterns with labels, types and three directions, comma-separated patterns, OPTIONAL MATCH with WHERE, "
        "typed WHERE predicates, WITH, UNWIND, DISTINCT, grouped aggregation (count/min/max/collect), ORDER BY, SKIP, LIMIT. "
        "Variable-length patterns, named paths, pattern predicates and sum/avg are NOT in the model and are not generated",
        "graphs use plain scalar properties so that the known classes of C20/C21/C23 (int/float comparison, sum wrap) are not hit",
    ],
    "manifest": {
        "category": "proof",
        "text": "SAMPLED + PARTIAL. Query/Clauses.v gives the clause semantics twice: Faithful (the plans the engine builds) and Reference "
                "(openCypher). Proved: every match the Reference returns for one MATCH clause (all comma-separated patterns together) uses pairwise distinct relationships of the graph, one per hop; OPTIONAL MATCH returns at least one row per input row; LIMIT/SKIP lengths; and two refutations "
                "Faithful <> Reference by evaluation - the known findings: K-C11-crosspattern (relationship uniqueness is not applied across "
                "comma-separated patterns: 5 rows instead of 2 on two parallel relationships and a self loop), and K-C11-parallel (inside one "
                "pattern chain a relationship key of multiplicity m is blocked only after m uses while all m entries are enumerated each time: "
                "(a)-[r1]->(b)<-[r2]-(c) over two parallel relationships returns 4 rows, not 2). That the implementation equals Faithful - and "
                "Faithful equals Reference outside the two classes - is checked on generated graph x query pairs (multiset, sequence under a "
                "total ORDER BY): this part of the quantifier stays sampled; the general statement C11_full_statement is not proved.",
        "fixed_note": "DISTINCT was planned after SKIP/LIMIT (UNWIND [1,1,1,2] AS x RETURN DISTINCT x LIMIT 2 returned [1]): repaired by b18a8dc, the witness runs first in the harness",
        "design_ref": "DESIGN.md §5 C11/C12 reference semantics, §8",
        "level_note": "Implementation = model is sampled, not proved; variable-length patterns, named paths, pattern predicates and sum/avg are outside the model.",
        "technique": "executable reference semantics in Rocq + vm_compute correspondence on generated graph x query pairs + refutation witnesses + direct uniqueness / DISTINCT-window checks on the engine",
    },
}
