SPEC = {
    "id": "C34",
    "props_module": "NDB.Props.C34",
    "corr_modules": ["NDB.Corr.C34"],
    "theorems": ["C34_classifier_refuted", "C34_classifier_sound", "C34_classifier_correct", "C34_json_refuted", "C34_json_injective_plain"],
    "allowed_axioms": [],
    "harness_pkg": "hx_txn",
    "harness_bin": "c34",
    "n": {"quick": 1500, "thorough": 30000},  # + n/15 state-parity sequences
    "harness_timeout": {"quick": 900, "thorough": 3000},
    "trusted_base": [
        "Coq 8.16.1 kernel + vm_compute (no native_compute); coqchk re-check in the thorough tier",
        "axioms: none (Print Assumptions: Closed under the global context for all theorems)",
        "hand-written models CApi/Classifier.v (write_query_contains_write over an abstraction of ast.rs: expressions / "
        "reading / updating / FOREACH / CALL{} / UNION) and CApi/Json.v (value_to_json incl. serde_json's non-finite -> null); "
        "tied to the code by the correspondence: refusals of ndb_query / ndb_execute_write on generated statements, and the C API's "
        "JSON for every value the Rust API returned",
        "the harness's walk over the real parsed AST (nervusdb_query::parse) as the spec side of the classifier",
        "Rust harness harness/hx_txn (lib.rs, bin/c34.rs), serde_json (parsing the C API's output, float_roundtrip) and lib/vcheck.py",
    ],
    "assumptions": [
        "row/value/error parity itself is sampled (generated statements + parameters on byte-identical databases), not proved; "
        "state parity: sequences of write statements (incl. ones reporting 0 changes although they write) through ndb_execute_write and through "
        "prepare/execute_mixed/commit on byte-identical databases, results, change counts and a read-back compared",
        "paths (ReifiedPath) and raw EdgeKey values are not in the value model; relationship values are compared in Coq only",
        "error category: expected SYNTAX when the Rust API fails in prepare(), EXECUTION when it fails while executing",
        "ndb_prepare_* / ndb_stmt_* (prepared statements of the C API) are not exercised; they call the same execute_read_rows / execute_write_count",
    ],
    "manifest": {
        "category": "proof",
        "text": "Classifier (AST based: parse, then walk clauses, entering CALL{} and UNION, FOREACH counted as a write): proved sound for every AST (never calls a statement without updating clauses a write) and exactly \"contains an updating clause at any nesting\" for every AST with no update below an expression; refuted in general with a parser-accepted witness (update inside EXISTS { CALL { CREATE } }: ndb_query accepts it) — K-C34-exists-nested. Value->JSON conversion: proved injective on plain values (null, bool, int, finite double, string, nested lists/maps); refuted in general (NaN/inf -> null, maps shaped like tagged objects, blobs) — K-C34-nonfinite, K-C34-tagged-map. Parity of rows, values, error text and category between ndb_query/ndb_execute_write and prepare/execute_* is checked on generated statements on identical databases. Fixed: ndb_query/ndb_execute_write aborted the process on statements with a multi-byte character across byte 7.",
        "design_ref": "DESIGN.md §5 C34",
        "level_note": "Trusted: Coq kernel; models tied to the code by sampled correspondence; parity itself is sampled.",
        "technique": "Rocq proof (mutual induction over the AST model, nested induction over values) + vm_compute witnesses + differential run C API vs Rust API",
    },
}
