SPEC = {
    "id": "C04",
    "props_module": "NDB.Props.C04",
    "corr_modules": ["NDB.Corr.C04"],
    "theorems": ["C04_refuted", "C04_order_fixed", "C04_reopen_partial", "C04_replay_commit"],
    "allowed_axioms": [],
    "harness_pkg": "hx_engine",
    "harness_bin": "engine",
    "n": {"quick": 300, "thorough": 20000},
    "harness_args": {"quick": ["--prop", "C04"], "thorough": ["--prop", "C04"]},
    "harness_timeout": {"quick": 900, "thorough": 6000},
    "trusted_base": [
        "Coq 8.16.1 kernel + vm_compute (no native_compute); coqchk re-check in the thorough tier",
        "axioms: none (Print Assumptions: Closed under the global context for every listed theorem)",
        "hand-written model Engine/Model.v of GraphEngine (memtable, L0 runs, segments, sunk property store as an insertion list, i2e/i2l, interner, WAL record order, open = replay, iterator/overlay/store read algorithms) and spec Engine/Graph.v, tied to the code by the correspondence check: every generated history is run on the real engine (half through nervusdb::Db, half through GraphEngine), the canonical dump after every step is compared with the model evaluated by vm_compute inside Coq; the Rust reference graph used as direct-search oracle is compared with Engine/Graph.v the same way; the harness's class predicates are compared with Engine/Known.v",
        "property values are opaque codes of a 14-value palette (all nine kinds); B-tree, CSR encoding, pager, HNSW internals are not in the model (single-leaf behaviour of the property tree assumed: histories stay far below one page)",
        "Rust harness harness/hx_engine/src/bin/engine.rs and lib/vcheck.py"
],
    "assumptions": [
        "histories: <= 12 transactions over <= 6 nodes (external ids != 0, never reused), 3 labels, 2 relationship types, 3 keys; writes address existing live nodes / existing relationships (wf_hist), plus a small malformed stream (duplicate external id)",
        "no crash, single handle, single thread (C01/C02/C03/C10 are separate properties)"
],
    "manifest": {
        "category": "proof",
        "text": "Proved for ALL histories of the fragment grow_hist (see C06; C04_reopen_partial): close + reopen and drop + reopen leave the canonical dump unchanged \u2014 replaying the logged records of a commit rebuilds its memtable exactly (C04_replay_commit), recovery rebuilds the published runs, their transaction ids and the interner (invariant WalInv), and a close with nothing published rewrites the log as one snapshot transaction from which recovery yields the same state. Refuted in general: C04_refuted (labels added/removed after creation are lost once the transaction is at or below the checkpoint or the log is rewritten by close: K-C04-labels). Repaired: delete-then-recreate of a relationship in one transaction vanished after reopen (WAL record order, fix 060a936; C04_order_fixed replays the old witness in the model of the repaired code; corpus case 0). NOT proved: histories with compaction before the reopen, deletes, label changes, abandoned transactions \u2014 sampled only (every close/drop + reopen step must leave the dump unchanged; model = implementation incl. txid/checkpoint bookkeeping checked in Coq).",
        "design_ref": "DESIGN.md §5 C04 (Storage: logical content)",
        "level_note": "Trusted: Coq kernel; hand-written model tied to the code by sampled correspondence (not by proof). The full statement is REFUTED on the pinned code (witness theorem, reproduced on the implementation, recorded as known findings); conditional theorems cover only the part stated in the text.",
        "technique": "Rocq: executable faithful model + spec graph, refutation witnesses by vm_compute, invariants by induction over histories; vm_compute model/implementation correspondence on generated histories; direct search against a reference graph / erased or stripped re-runs on the implementation",
    },
}
