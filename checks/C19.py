# Kernel primitives only (no declared axiom, none of the FloatAxioms specification lemmas): the value type
# mentions PrimFloat / PrimInt63, so Print Assumptions lists the primitive operations the models use.
# The whole set of primitive operations is allowed because Cypher/*.v (another area) may start using more of them.
PRIMS = ["abs", "add", "classify", "compare", "div", "eqb", "float", "frshiftexp", "ldshiftexp", "leb", "ltb", "mul",
         "next_down", "next_up", "normfr_mantissa", "of_uint63", "opp", "sqrt", "sub"]
INTS = ["add", "addc", "addcarryc", "addmuldiv", "compare", "diveucl", "diveucl_21", "div", "divs", "eqb", "head0", "int",
        "land", "leb", "lebs", "lor", "lsl", "lsr", "asr", "ltb", "ltbs", "lxor", "mod", "mods", "mul", "mulc", "sub", "subc",
        "subcarryc", "tail0", "compares"]
ALLOWED = (["PrimFloat." + p for p in PRIMS] + ["PrimInt63." + p for p in INTS] + PRIMS + INTS)

SPEC = {
    "id": "C19",
    "props_module": "NDB.Props.C19",
    "corr_modules": ["NDB.Corr.C19"],
    "theorems": ["C19_where_partition", "C19_where_partition_stream", "C19_ill_typed", "C19_error"],
    "allowed_axioms": ALLOWED,
    "harness_pkg": "hx_query",
    "harness_bin": "c19",
    "n": {"quick": 600, "thorough": 12000},
    "harness_timeout": {"quick": 600, "thorough": 3000},
    "trusted_base": [
        "Coq 8.16.1 kernel + vm_compute (no native_compute); coqchk re-check in the thorough tier",
        "axioms: none declared; Print Assumptions lists only the kernel's primitive float/int63 operations "
        "(PrimFloat.*, PrimInt63.*), which the value type mentions; none of the FloatAxioms specification lemmas is used",
        "hand-written model Query/Expr.v (two-pass evaluation: ensure_runtime_expression_compatible + evaluate_expression_value) "
        "and Query/Rows.v (FilterIter), on top of the Cypher value model (Cypher/Value, Compare, Logic, Arith); tied to the code "
        "by the sampled correspondence below, not by proof",
        "the graph the model sees is dumped from the engine through GraphSnapshot (nodes, labels, properties, neighbors)",
        "temporal strings are outside the model (no_temporal oracle); the generator's strings are not date-like",
        "Rust harness harness/hx_query (lib.rs, bin/c19.rs) and lib/vcheck.py",
    ],
    "assumptions": [
        "quantifier of the theorem: every environment, every predicate of Query/Expr.v's expression language, every list of rows on which the predicate is boolean-or-null",
        "pattern predicates (WHERE (a)-->()), list comprehensions, EXISTS subqueries and map literals are not in the expression language",
        "that the engine's rows for Q WHERE p equal filter_where p (rows of Q) - including filter push-down and index seeks - is checked on generated cases (sampled), not proved",
    ],
    "manifest": {
        "category": "proof",
        "text": "Theorem for every graph, parameter set, predicate p of the modelled expression language and row list on which p is "
                "true/false/null: WHERE p, WHERE NOT p and WHERE p IS NULL succeed and return order-preserving sub-sequences of the rows "
                "that together are a permutation of them, every row being kept by exactly one filter; rows on which p has another type are "
                "in none of the three (reported separately); a row on which p raises a runtime error fails all three queries. "
                "Correspondence and direct search: generated MATCH / OPTIONAL MATCH / UNWIND queries x typed predicates on random graphs, "
                "five engine runs per case (no filter, p, NOT p, p IS NULL, p's value per row), multisets compared on the engine's output "
                "and against the model's eval / filter_where evaluated in Coq on the engine's base rows. The share of constant and "
                "always-null predicates is measured and printed in the evidence histogram. Expected to hold on the pinned tree; it does.",
        "design_ref": "DESIGN.md §5 C19",
        "level_note": "Trusted: Coq kernel incl. primitive floats; hand-written expression/filter model tied to the engine by sampled "
                      "correspondence (filter push-down, index seek and plan shape are exercised only by the sampled runs).",
        "technique": "Rocq proof (three-way filter partition, Permutation + sub-sequence) + vm_compute model/implementation correspondence + direct partition check on the engine",
    },
}
