SPEC = {
    "id": "C12",
    "props_module": "NDB.Props.C12",
    "corr_modules": ["NDB.Corr.C12"],
    "theorems": ["C12_merge_stmt_idempotent", "C12_merge_on_items", "C12_merge_rel_refuted", "C12_merge_rel_idempotent", "C12_merge_rel_direction", "C12_chain_set_remove", "C12_merge_idempotent", "C12_merge_nan_refuted", "C12_set_remove_algebra", "C12_create_frame", "C12_delete"],
    "allowed_axioms": [],
    "harness_pkg": "hx_update",
    "harness_bin": "c12",
    "n": {"quick": 300, "thorough": 8000},
    "harness_timeout": {"quick": 600, "thorough": 3000},
    "trusted_base": [
        "Coq 8.16.1 kernel + vm_compute (no native_compute); coqchk re-check in the thorough tier",
        "axioms: none (Print Assumptions: Closed under the global context for all theorems)",
        "hand-written reference Update/Model.v of the executor's update clauses on evaluated operands (create_delete_ops.rs, write_path.rs, "
        "merge_execution.rs/merge_helpers.rs) including the engine's counting rules; tied to the code by the correspondence check: every generated "
        "statement sequence replayed by vm_compute, count and full dump (nodes, labels, properties, relationship multiplicities and properties) compared after every statement",
        "the evaluated operands are read from the engine itself (the MATCH prefix run as a read query); expression evaluation and matching are C11's subject",
        "PropertyValue == on floats read as IEEE equality on bit patterns (sign-magnitude key, both zeros equal, NaN unequal), as in C27",
        "Rust harness harness/hx_update/src/bin/c12.rs (generator, dump through a fresh snapshot, independent Rust reference graph) and lib/vcheck.py",
    ],
    "assumptions": [
        "statements: one update clause, or a chain of two or three SET / REMOVE clauses (node properties, maps, labels to add), with a MATCH / WITH / UNWIND prefix and parameters, executed through PreparedQuery::execute_write or execute_mixed (the C API's entry point), chosen at random per statement, one transaction per statement; in a chain every node occurs in one row; REMOVE of labels inside a chain and DELETE ... SET chains are outside the model (a fixed probe records K-C12-setafterdelete)",
        "MERGE: node patterns (labels + property map, any number of UNWIND rows) and relationship patterns between two bound nodes, written ->, <- or undirected, with the existing relationship in either stored orientation (any number of rows on one key; the executor's overlay of created relationships is modelled); ON CREATE / ON MATCH SET on keys disjoint from the pattern keys",
        "property values null/bool/int/float/string; a relationship key deleted earlier in the history is not created again (K-C06-eprops, a storage finding, would resurrect its properties)",
        "counters: the single u32 returned by execute_write (created / deleted entities, properties set or removed, label items), as the code counts them",
    ],
    "manifest": {
        "category": "proof",
        "text": "Reference semantics of CREATE, MERGE (node patterns; relationship patterns between bound nodes), SET (node and relationship property, = map, += map, labels), REMOVE, DELETE / DETACH DELETE and chains of SET / REMOVE clauses in one statement, on evaluated operands, with the engine's change counts; relationships are identified by (src,type,dst) with a multiplicity and one shared property map, as the storage does. Proved for all graphs and operands: a repeated MERGE statement of any number of rows creates nothing, reports 0 and leaves the graph unchanged (given no ON CREATE / ON MATCH items and no NaN in the pattern; the NaN case is refuted by a witness), the SET/REMOVE algebra (SET then REMOVE = REMOVE, SET null = REMOVE, SET = map keeps exactly the map's non-null keys, += {} is the identity, read-back laws), CREATE adds exactly the counted nodes and changes nothing else, DELETE fails iff a target has a relationship, DETACH DELETE never fails, no relationship of a deleted node remains. Implementation = reference (graph dump and count after every statement of generated sequences) is the sampled part. MERGE with ON CREATE / ON MATCH items on keys disjoint from the pattern keys is proved to create nothing when repeated (any number of rows). Relationship MERGE is proved idempotent when all rows of the statement carry the same pattern (any direction, any stored orientation) and refuted as non-idempotent when rows merge different maps on one key (K-C12-relidentity, relationships have no identity; rows with different maps that agree on shared keys are covered by neither); the harness repeats every generated MERGE and requires count 0 and unchanged sizes outside that class. One chain law is proved (SET n.k = v REMOVE n.k = REMOVE n.k); the other laws are proved per clause.",
        "design_ref": "DESIGN.md §5 C11/C12",
        "level_note": "Trusted: Coq kernel; the reference is tied to the code by sampled correspondence (not by proof); operands taken from the engine's own MATCH results.",
        "technique": "Rocq proof (list induction over rows, map algebra) + vm_compute replay of generated statement sequences + independent Rust reference graph",
    },
}
