COMMON_TB = [
    "Coq 8.16.1 kernel + vm_compute (no native_compute); coqchk re-check in the thorough tier",
    "axioms: none (Print Assumptions: Closed under the global context)",
    "hook nervusdb_storage::verif_io (commit 'verif hook: I/O interposition', --cfg nervusdb_verif): every WAL/pager write, set_len, sync, rename is reported with its bytes before it is performed; crash images are materialised from that recording by harness/hx_crash (process death: all written bytes, log appends cut at any byte; power loss strict: each file as of its last fsync; rename durable at once or not)",
    "abstraction of the recorded I/O events to the alphabet of Crash/Protocol.v (grouping Begin..Commit records into one item as Wal::replay_committed does) is done by the Rust harness (abstract_trace) and trusted; its result is cross-checked per crash point against the real log scanner (Wal::replay_committed_from_path) by the correspondence",
    "that the engine's I/O traces satisfy the protocol monitor for ALL histories is validated on generated histories (monitor evaluated inside Coq on every recorded trace), not proved: the Rust code is modelled, not verified",
    "content level (recovered graph = state before or after the interrupted operation) is a direct differential check on the real engine against its own clean-run reopen, not a theorem; power loss with partial persistence of unsynced writes (neither none nor all) and torn page writes are not explored",
]
SPEC = {
    "id": "C02",
    "props_module": "NDB.Props.C02",
    "corr_modules": ["NDB.Corr.Crash"],
    "theorems": ["C02_recovered_prefix", "C02_ckpt_backed", "C02_node_table"],
    "allowed_axioms": [],
    "harness_pkg": "hx_crash",
    "harness_bin": "c02",
    "n": {"quick": 30, "thorough": 400},
    "harness_timeout": {"quick": 1200, "thorough": 6000},
    "trusted_base": COMMON_TB,
    "assumptions": [
        "histories: transactions over nodes/edges/properties/labels, compaction, close+reopen, drop+reopen; no property indexes or vectors (their page updates happen before the commit record and are derived state)",
    ],
    "manifest": {
        "category": "proof",
        "text": "Theorem (all traces, all crash steps, both crash modes): the transactions recovered from a crash image are a prefix in commit order of those whose commit record was written, never a partial one; and for every trace accepted by the protocol monitor the checkpoint that recovery trusts is backed by page writes that are on disk. The monitor is evaluated inside Coq on the recorded I/O trace of every generated history of the real engine, the model's recovered transaction list is compared with the real log scanner at sampled crash points, and every materialised crash image (every I/O step of the last operations, process death with byte cuts in log appends, power loss) is opened by the real engine and compared with the reopened clean-run states before/after the interrupted operation.",
        "design_ref": "DESIGN.md §5 C01/C02",
        "level_note": "Proved about the durability-protocol model; the engine's adherence to the protocol and the content-level equality are checked on generated histories (fault enumeration), not proved. Trusted: Coq kernel, I/O hook, event abstraction in the harness.",
        "technique": "Rocq proof (trace invariant by induction over I/O steps) + monitor/recovery model evaluated by vm_compute on recorded traces + exhaustive crash-image enumeration on the real engine",
    },
}
