SPEC = {
    "id": "C28",
    "props_module": "NDB.Props.C28",
    "corr_modules": ["NDB.Corr.C28"],
    "theorems": ["C28_layout", "C28_frame", "C28_cert_sound", "C28_preserves", "C28_mark_complete", "C28_preserves_typed", "C28_read_paths_rooted", "C28_sessions_preserved"],
    "allowed_axioms": [],
    "harness_pkg": "hx_store",
    "harness_bin": "c28",
    "n": {"quick": 160, "thorough": 1800},
    "harness_timeout": {"quick": 600, "thorough": 3000},
    "trusted_base": [
        "Coq 8.16.1 kernel + vm_compute; coqchk in the thorough tier; axioms: none",
        "gen/consts_store.py: CSR magic / header size / page-count offset / number of page lists re-read from csr.rs (writer+loader) AND from vacuum.rs, node record size from idmap.rs AND vacuum.rs, blob header, meta-page field offsets",
        "hand-written model Store/Vacuum.v of vacuum.rs (marking order, shared visited set, error cases, copy) tied to the code by the correspondence: "
        "the harness re-parses the page file (its own parser of B-tree/blob/catalog pages; segment meta pages are passed as bytes and parsed in Coq) and compares "
        "success/failure and the exact set of kept pages with the vacuumed file's bitmap",
        "the read paths are hand-written page-reading programs (Store/Readers.v) proved rooted; that the Rust read paths read no other pages than these models is not proved - it is observed: a read of a dropped page fails (PageNotAllocated) and would change the dump",
        "HNSW: since fix c995c4b the catalog holds the current roots of the two HNSW trees; vacuum marks both trees and their payload blobs from the catalog entries (model: r_cat_entries with collect=true), histories insert vectors and the dumps compare vector searches",
        "Rust harness harness/hx_store (history generator, canonical dump through nervusdb::Db) and lib/vcheck.py",
    ],
    "assumptions": [
        "vacuum runs on a closed database (no other handle), as the property states",
        "logical content is compared through open: dump(open(vacuum d)) vs dump(open d); defects that already change content at open (other properties) cancel out",
    ],
    "manifest": {
        "category": "proof",
        "text": "Proved for all page heaps and all page-reading programs: a program whose reads fall into the set of pages vacuum keeps computes the same result on the vacuumed file (C28_frame); "
                "hence every reader that navigates from the roots is preserved once the kept set covers the pointer closure of the roots (C28_preserves). "
                "The layouts agree (C28_layout: the segment meta page as vacuum.rs parses it = as csr.rs loads it, with constants regenerated from both files - this failed before fix 4137d10). "
                "That the marking covers the closure (read_set ⊆ reachable) is proved for the marking function on every heap in which no page is used by two structures "
                "(C28_mark_complete, hypothesis well_typed: a typing of pages consistent with roots and pointers; the hypothesis is exactly what C18's spill violates), hence C28_preserves_typed; "
                "the engine's read paths (Pager::open, IdMap::load, catalog, CsrSegment::load, blob read, B-tree descent/scan, tree lookups + blob) modelled as page-reading programs are proved rooted (C28_read_paths_rooted), so every session of them returns the same on the vacuumed file (C28_sessions_preserved); independently an executable certificate proved sound (C28_cert_sound) is evaluated inside Coq on every generated database, so well-typedness is not assumed for the observed runs. "
                "Direct check: generated histories (compactions, indexes, vectors, big values, deletes, reopen) -> close -> vacuum -> reopen -> dump equal, then write+compact+reopen equal to the un-vacuumed twin.",
        "design_ref": "DESIGN.md §5 C28",
        "level_note": "Trusted: Coq kernel; model tied to vacuum.rs by sampled correspondence (kept page set compared exactly); rootedness of the Rust read paths observed, not proved.",
        "technique": "Rocq proof (frame theorem over interaction-tree readers; certified closure checker) + vm_compute correspondence on re-parsed page files",
    },
}
