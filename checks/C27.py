SPEC = {
    "id": "C27",
    "props_module": "NDB.Props.C27",
    "corr_modules": ["NDB.Corr.C27"],
    "theorems": ["C27_order", "C27_equality", "C27_prefix_free", "C27_cmp", "C27_index_key", "C27_index_key_cmp", "C27_index_key_inj", "C27_index_id_order"],
    "allowed_axioms": [],
    "harness_pkg": "hx_index",
    "harness_bin": "c27",
    "n": {"quick": 6000, "thorough": 120000},
    "trusted_base": [
        "Coq 8.16.1 kernel + vm_compute (no native_compute); coqchk re-check in the thorough tier",
        "axioms: none (Print Assumptions: Closed under the global context for all eight theorems)",
        "gen/consts.py: tag and escape bytes re-read from ordered_key.rs on every run",
        "hand-written model Index/OrderedKey.v of encode_ordered_value/encode_index_key, tied by the correspondence check "
        "(model evaluated by vm_compute on the harness's inputs; encodings, byte order and value order compared)",
        "value order on doubles: sign-magnitude key with both zeros identified; that this is IEEE-754 `<` is validated "
        "against f64::partial_cmp on generated pairs, not proved",
        "Rust harness harness/src/bin/c27.rs and lib/vcheck.py",
    ],
    "assumptions": [
        "quantifier of the property: i64 integers/datetimes, booleans, byte strings (strings are their UTF-8 bytes), non-NaN doubles; lists and maps (tag-only encodings) are outside it",
    ],
    "manifest": {
        "category": "proof",
        "text": "Theorems for all i64, booleans, byte strings and non-NaN double bit patterns: the byte-wise comparison of two encodings equals the comparison of the values (hence order preservation and equality iff), no encoding is a proper prefix of another, composite index keys order by value. The model's constants are regenerated from the source; model = implementation is checked on generated pairs inside Coq.",
        "design_ref": "DESIGN.md §5 C27",
        "level_note": "Trusted: Coq kernel; hand-written model tied to the code by sampled correspondence (not by proof); IEEE order of doubles taken as the sign-magnitude key order (validated against f64::partial_cmp).",
        "technique": "Rocq proof (induction over byte strings, N bit-operation lemmas) + vm_compute model/implementation correspondence",
    },
}
