SPEC = {
    "id": "C30",
    "props_module": "NDB.Props.C30",
    "corr_modules": ["NDB.Corr.C30"],
    "theorems": ["C30_refuted", "C30_bulk_reads_partial", "C30_txn_reads_partial", "C30_spec_of_load", "C30_bulk_equiv_txn_partial"],
    "allowed_axioms": [],
    "harness_pkg": "hx_engine",
    "harness_bin": "engine",
    "n": {"quick": 300, "thorough": 30000},
    "harness_args": {"quick": ["--prop", "C30"], "thorough": ["--prop", "C30"]},
    "harness_timeout": {"quick": 900, "thorough": 6000},
    "trusted_base": [
        "Coq 8.16.1 kernel + vm_compute (no native_compute); coqchk re-check in the thorough tier",
        "axioms: none (Print Assumptions: Closed under the global context for every listed theorem)",
        "hand-written model Engine/Model.v of GraphEngine (memtable, L0 runs, segments, sunk property store as an insertion list, i2e/i2l, interner, WAL record order, open = replay, iterator/overlay/store read algorithms) and spec Engine/Graph.v, tied to the code by the correspondence check: every generated history is run on the real engine (half through nervusdb::Db, half through GraphEngine), the canonical dump after every step is compared with the model evaluated by vm_compute inside Coq; the Rust reference graph used as direct-search oracle is compared with Engine/Graph.v the same way; the harness's class predicates are compared with Engine/Known.v",
        "property values are opaque codes of a 14-value palette (all nine kinds); B-tree, CSR encoding, pager, HNSW internals are not in the model (single-leaf behaviour of the property tree assumed: histories stay far below one page)",
        "Rust harness harness/hx_engine/src/bin/engine.rs and lib/vcheck.py"
],
    "assumptions": [
        "histories: <= 12 transactions over <= 6 nodes (external ids != 0, never reused), 3 labels, 2 relationship types, 3 keys; writes address existing live nodes / existing relationships (wf_hist), plus a small malformed stream (duplicate external id)",
        "no crash, single handle, single thread (C01/C02/C03/C10 are separate properties)"
],
    "manifest": {
        "category": "proof",
        "text": "General statement formalised (C30_full_statement: valid input outside K-C30-parallel-props => bulk_open and run(load_txns) answer every read alike; load_txns = one committed transaction per item, same internal ids and interner order). Proved for ALL inputs, the two engine-side halves: C30_bulk_reads_partial \u2014 recovery of a bulk-loaded database yields no runs, one segment with the input relationships and the input properties in the store; nodes() = all positions, both edge views = the input relationships as multisets, single-key property reads = first store entry; C30_txn_reads_partial \u2014 the transactional load lies in the C06 fragment, so (when its history is well-formed) all its reads are those of the spec graph of the load. The joining lemma is proved (C30_spec_of_load: the spec graph of the load is the graph the input describes) and with it C30_bulk_equiv_txn_partial: for EVERY valid input whose load history is well-formed (executable hypothesis wf_hist (load_txns ns es); not derived from bulk_valid) the bulk-loaded and the transactionally loaded database agree on every read interface except the two whole-map reads: nodes(), both edge views as multisets, node_property, edge_property, labels, external ids, lookup; parallel relationships included. NOT proved: the two whole-map reads (node_properties / edge_properties; the only reads in which K-C30-parallel-props shows), hence not C30_full_statement itself, and wf_hist of the load from bulk_valid. Still sampled on top: every generated node/relationship list is loaded by BulkLoader and by one transaction per item, the name-canonical dumps compared, and both compared with the model inside Coq. Refuted for parallel relationships sharing a property key: C30_refuted (K-C30-parallel-props, same root as K-C05-dups). The no-relationship bulk load that panicked on incoming traversal is repaired (3cec098, corpus case 0).",
        "design_ref": "DESIGN.md §5 C30 (Storage: logical content)",
        "level_note": "Trusted: Coq kernel; hand-written model tied to the code by sampled correspondence (not by proof). The full statement is REFUTED on the pinned code (witness theorem, reproduced on the implementation, recorded as known findings); conditional theorems cover only the part stated in the text.",
        "technique": "Rocq: executable faithful model + spec graph, refutation witnesses by vm_compute, invariants by induction over histories; vm_compute model/implementation correspondence on generated histories; direct search against a reference graph / erased or stripped re-runs on the implementation",
    },
}
