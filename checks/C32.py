SPEC = {
    "id": "C32",
    "props_module": "NDB.Props.C32",
    "corr_modules": ["NDB.Corr.C32"],
    "theorems": ["C32_ids_unique", "C32_ids_stable", "C32_refuted", "C32_refuted_backwards", "C32_refuted_increasing",
                 "C32_stmt_ok_iff", "C32_stmt_ok_spaced"],
    "allowed_axioms": [],
    "harness_pkg": "hx_hnsw",
    "harness_bin": "c32",
    "n": {"quick": 150, "thorough": 3000},
    "trusted_base": [
        "Coq 8.16.1 kernel + vm_compute (no native_compute); coqchk re-check in the thorough tier",
        "axioms: none (Print Assumptions: Closed under the global context for all listed theorems)",
        "hand-written model IdAlloc/Model.v (external id = counter + clock sample per node, counter advanced by nodes and relationships; create_node's two duplicate checks; "
        "dense internal ids; commit/abandon; compaction and reopen leave the id map alone), tied to the code by the correspondence check: same statement outcome and same "
        "(internal id, external id) dump after every commit/abandon/compact/reopen",
        "hook nervusdb_query::verif_clock (cfg nervusdb_verif): the clock samples are supplied by the harness, one per created node",
        "the statement shape (nodes / relationships per row) is computed by the harness for the five statement templates it generates; a wrong shape shows as unconsumed samples (harness error) or a correspondence mismatch",
        "Rust harness harness/hx_hnsw/src/bin/c32.rs and lib/vcheck.py",
    ],
    "assumptions": [
        "clock samples are in [0, 2^62): the u64 addition counter + sample cannot wrap (a pre-1970 or far-future clock is outside the model)",
        "one CREATE (optionally after UNWIND) or one MERGE per statement; several creating clauses in one statement restart the counter per clause and are not generated",
        "volume: up to 1500 nodes per statement; exhaustion of the id-map pages (C18) and of the u32 internal id space are outside this property's model",
    ],
    "manifest": {
        "category": "proof",
        "text": "Proved for every history and every clock behaviour: committed nodes have pairwise different external and internal ids, and a node keeps both through any continuation (statements, commits, abandoned transactions, compaction, reopen). 'Creating nodes never fails regardless of the clock' is refuted with three executable witnesses (stalled clock, clock stepping back, even a strictly increasing clock) — known finding K-C32-clock; proved instead: a statement fails exactly when one of the ids counter+clock it asks for is taken or repeated, and never fails when the samples do not decrease and start above every id in use. Model = implementation checked on generated histories under a controlled clock.",
        "design_ref": "DESIGN.md §5 C32",
        "level_note": "Trusted: Coq kernel; hand-written model tied to the code by sampled correspondence through a cfg-guarded clock hook.",
        "technique": "Rocq proof (invariant NoDup(committed ++ pending), prefix monotonicity) + vm_compute witnesses + model/implementation correspondence under a controlled clock",
    },
}
