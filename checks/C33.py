import importlib.util, os
_s = importlib.util.spec_from_file_location("c19spec", os.path.join(os.path.dirname(os.path.abspath(__file__)), "C19.py"))
_m = importlib.util.module_from_spec(_s); _s.loader.exec_module(_m)

SPEC = {
    "id": "C33",
    "props_module": "NDB.Props.C33",
    "corr_modules": ["NDB.Corr.C33"],
    "theorems": ["C33_guard_partial", "C33_stops_partial", "C33_collection_partial"],
    "allowed_axioms": _m.ALLOWED,
    "harness_pkg": "hx_query",
    "harness_bin": "c33",
    "n": {"quick": 420, "thorough": 8400},
    "harness_timeout": {"quick": 600, "thorough": 3000},
    "trusted_base": [
        "Coq 8.16.1 kernel + vm_compute (no native_compute); coqchk re-check in the thorough tier",
        "axioms: none declared; Print Assumptions lists only the kernel's primitive float/int63 operations (the value type mentions them)",
        "hand-written model Query/Limits.v of RuntimeGuardIter (one guard = one plan node with the budget the query-wide counter leaves it) "
        "and of the collection checks at Function(range) / Unwind.list; tied to the code by the sampled correspondence, not by proof",
        "Rust harness harness/hx_query (lib.rs, bin/c33.rs) and lib/vcheck.py",
    ],
    "assumptions": [
        "PARTIAL: proved for one guard (any budget), for the guard at the top of a query, for the caller's collect, and for a passed collection check. "
        "The statement for a guard after every clause of a pipeline (C33_full_statement) is NOT proved; it is only checked on generated queries",
        "the model does not compute the query-wide row counter, so it does not predict WHETHER a limit fires, only that the outcome is the complete result or a limit error",
        "time limits (soft_timeout_ms / check_timeout) are wall-clock behaviour: switched off in the harness, not modelled, not proved",
        "max_apply_rows_per_outer (CALL subqueries) is outside the fragment",
    ],
    "manifest": {
        "category": "proof",
        "text": "PARTIAL. Proved over the model: a row-limit guard (RuntimeGuardIter) with any budget never truncates - a guarded stream that "
                "collects successfully is the complete stream, what it reports is the limit error or an upstream error, it lets at most `budget` "
                "rows through; the same for the guard at the top of a query; the caller's collect never pulls anything behind the first error; a "
                "passed collection check bounds the size. Not proved: the statement for guards after every clause of a pipeline "
                "(kept as C33_full_statement) and anything about time limits (runtime behaviour, only observed; the harness switches the soft "
                "timeout off). Direct search and correspondence: generated queries with large intermediate results under random "
                "max_intermediate_rows / max_collection_items, compared with the unlimited run: the outcome must be the identical complete result "
                "or a resource-limit error; the faithful model must equal the engine's unlimited result. The probed defect (a limit error dropped "
                "by DISTINCT, truncated result) had the same root cause as C22 and is repaired by 5cbdabf; its query runs first. Also generated: CALL { } and EXISTS { } subqueries (engine only, not in the model) with the additional oracle that a limit exceeded by construction must produce the limit error; known finding K-C33-exists: a collection-limit error inside EXISTS { } becomes NULL and the row is dropped (same root as K-C22-exists).",
        "design_ref": "DESIGN.md §5 C33, §8",
        "level_note": "Partial proof (single guard / top guard / collect); pipeline-level soundness sampled only; time limits not covered.",
        "technique": "Rocq proof (induction over row streams) + vm_compute model/implementation correspondence + direct complete-or-limit-error check on the engine",
    },
}
