"""Constants of the storage layer (pager, idmap, blob store, CSR segment layout as written by
csr.rs AND as expected by vacuum.rs) for Store/*.v.  Registered by gen/consts.py."""
import re


def generators(g):
    Miss, src, num, expr, const, emit_n, emit_bytes = g.Miss, g.src, g.num, g.expr, g.const, g.emit_n, g.emit_bytes

    def byte_lit(tok, where):
        m = re.fullmatch(r'\*b"((?:[^"\\]|\\x[0-9a-fA-F]{2}|\\.)*)"', tok.strip())
        if not m:
            raise Miss("not a byte-string literal in %s: %r" % (where, tok))
        raw = m.group(1)
        out, i = [], 0
        while i < len(raw):
            if raw[i] == "\\" and raw[i + 1] == "x":
                out.append(int(raw[i + 2:i + 4], 16)); i += 4
            elif raw[i] == "\\":
                out.append({"0": 0, "n": 10, "\\": 92, '"': 34}[raw[i + 1]]); i += 2
            else:
                out.append(ord(raw[i])); i += 1
        return out

    def fn_body(text, name, where):
        m = re.search(r"fn\s+%s\b" % re.escape(name), text)
        if not m:
            raise Miss("fn %s not found in %s" % (name, where))
        i = text.index("{", m.end())
        depth, j = 0, i
        while True:
            if text[j] == "{":
                depth += 1
            elif text[j] == "}":
                depth -= 1
                if depth == 0:
                    return text[i:j + 1]
            j += 1

    def one(pat, text, where, what):
        m = re.search(pat, text)
        if not m:
            raise Miss("%s not found in %s" % (what, where))
        return m.group(1)

    def gen_pager():
        lib = src("nervusdb-storage/src/lib.rs")
        page_size = expr(const(lib, "PAGE_SIZE", "lib.rs"))
        emit_n("page_size", page_size, "nervusdb-storage/src/lib.rs PAGE_SIZE")
        rel = "nervusdb-storage/src/pager.rs"
        t = src(rel)
        for name, coq in (("META_PAGE_ID", "meta_page_id"), ("BITMAP_PAGE_ID", "bitmap_page_id"), ("FIRST_DATA_PAGE_ID", "first_data_page_id")):
            emit_n(coq, num(one(r"const\s+%s\s*:\s*PageId\s*=\s*PageId\((\d+)\)" % name, t, rel, name)), rel + " " + name)
        bb = const(t, "BITMAP_BITS", rel)
        if not re.fullmatch(r"\(PAGE_SIZE as u64\)\s*\*\s*8", bb):
            raise Miss("BITMAP_BITS changed shape: %r" % bb)
        emit_n("bitmap_bits", page_size * 8, rel + " BITMAP_BITS = PAGE_SIZE * 8")
        enc = fn_body(t, "encode_page", rel)
        fields = re.findall(r"page\[(\d+)\.\.(\d+)\]\.copy_from_slice\(&self\.(\w+)\.to_le_bytes\(\)\)", enc)
        want = ["version_major", "version_minor", "page_size", "bitmap_page_id", "next_page_id", "i2e_start_page_id", "i2e_len",
                "next_internal_id", "index_catalog_root", "next_index_id", "storage_format_epoch"]
        got = {f: (int(a), int(b)) for a, b, f in fields}
        for f in want:
            if f not in got:
                raise Miss("meta field %s not found in encode_page" % f)
            emit_n("meta_off_" + f, got[f][0], rel + " Meta::encode_page")
            emit_n("meta_len_" + f, got[f][1] - got[f][0], rel + " Meta::encode_page")
        dec = fn_body(t, "decode_page", rel)
        for f in want:
            m = re.search(r"let %s = u(?:32|64)::from_le_bytes\(page\[(\d+)\.\.(\d+)\]" % f, dec)
            if not m or (int(m.group(1)), int(m.group(2))) != got[f]:
                raise Miss("Meta::decode_page reads %s at a different place than encode_page writes it" % f)
        emit_n("meta_size", max(b for _, b in got.values()), rel + " end of the last meta field")
        # allocate_page scans [FIRST_DATA_PAGE_ID, next_page_id) for the lowest free bit
        alloc = fn_body(t, "allocate_page", rel)
        if not re.search(r"find_free_in_range\(FIRST_DATA_PAGE_ID\.as_u64\(\),\s*self\.meta\.next_page_id\)\s*\.unwrap_or\(self\.meta\.next_page_id\)", alloc):
            raise Miss("allocate_page no longer scans [FIRST_DATA_PAGE_ID, next_page_id) with next_page_id as default")
        ff = fn_body(t, "find_free_in_range", rel)
        if not re.search(r"\(start\.\.end\)\.find\(\|&id\| !self\.get_bit\(id\)\)", ff):
            raise Miss("find_free_in_range is no longer lowest-free-first")

    def gen_idmap():
        rel = "nervusdb-storage/src/idmap.rs"
        t = src(rel)
        emit_n("i2e_record_size", expr(const(t, "I2E_RECORD_SIZE", rel)), rel + " I2E_RECORD_SIZE")
        rpp = const(t, "I2E_RECORDS_PER_PAGE", rel)
        if not re.fullmatch(r"PAGE_SIZE\s*/\s*I2E_RECORD_SIZE", rpp):
            raise Miss("I2E_RECORDS_PER_PAGE changed shape: %r" % rpp)
        loc = fn_body(t, "i2e_location", rel)
        if not (re.search(r"index\s*/\s*I2E_RECORDS_PER_PAGE", loc) and re.search(r"index\s*%\s*I2E_RECORDS_PER_PAGE", loc)
                and re.search(r"start\.as_u64\(\)\s*\+\s*page_offset as u64", loc)):
            raise Miss("i2e_location changed shape")
        w = fn_body(t, "write_i2e_record", rel)
        # 1 = the record's page is taken with ensure_allocated (no ownership check), 0 = some other way
        emit_n("i2e_write_uses_ensure", 1 if re.search(r"pager\.ensure_allocated\(page_id\)", w) else 0, rel + " write_i2e_record")
        vrel = "nervusdb-storage/src/vacuum.rs"
        v = src(vrel)
        emit_n("vac_i2e_record_size", expr(one(r"const I2E_RECORD_SIZE: u64 = ([^;]+);", v, vrel, "vacuum I2E_RECORD_SIZE")), vrel + " I2E_RECORD_SIZE (its own copy)")

    def gen_blob():
        rel = "nervusdb-storage/src/blob_store.rs"
        t = src(rel)
        emit_n("blob_header_size", expr(const(t, "HEADER_SIZE", rel)), rel + " HEADER_SIZE")
        vrel = "nervusdb-storage/src/vacuum.rs"
        v = fn_body(src(vrel), "mark_blob_chain", vrel)
        emit_n("vac_blob_header_size", expr(one(r"const HEADER_SIZE: usize = ([^;]+);", v, vrel, "vacuum HEADER_SIZE")), vrel + " mark_blob_chain HEADER_SIZE")

    def gen_csr():
        rel = "nervusdb-storage/src/csr.rs"
        t = src(rel)
        magic = byte_lit(const(t, "META_MAGIC", rel), rel)
        emit_bytes("csr_magic_written", magic, rel + " META_MAGIC (what persist writes and load expects)")
        enc = fn_body(t, "encode_meta", rel)
        dec = fn_body(t, "decode_segment", rel)
        emit_n("csr_hdr_encode", num(one(r"let needed = (\d+)usize", enc, rel, "encode_meta header size")), rel + " encode_meta fixed header")
        emit_n("csr_hdr_decode", num(one(r"let mut offset = (\d+);", dec, rel, "decode_segment list offset")), rel + " decode_segment: where the page lists start")
        counts = re.findall(r"let (\w+_page_count) = u32::from_le_bytes\(meta_page\[(\d+)\.\.(\d+)\]", dec)
        if not counts:
            raise Miss("decode_segment page counts not found")
        offs = [int(a) for _, a, _ in counts]
        if offs != [offs[0] + 4 * i for i in range(len(offs))]:
            raise Miss("decode_segment page counts are not consecutive u32s: %r" % offs)
        emit_n("csr_counts_off_decode", offs[0], rel + " decode_segment: offset of the first page count")
        emit_n("csr_nlists_decode", len(offs), rel + " decode_segment: number of page lists")
        consts = {}
        for name in ("META_HEADER_SIZE", "META_PAGE_COUNTS_OFFSET"):
            m = re.search(r"\bconst\s+%s\s*:\s*usize\s*=\s*(\d+);" % name, t)
            if m:
                consts[name] = int(m.group(1))
        # what vacuum.rs expects
        vrel = "nervusdb-storage/src/vacuum.rs"
        v = fn_body(src(vrel), "mark_csr_segment_pages", vrel)
        imp = re.search(r"use crate::csr::\{([^}]*)\}", v)
        imported = [x.strip() for x in imp.group(1).split(",")] if imp else []
        m = re.search(r'const META_MAGIC: \[u8; 8\] = (\*b"[^"]*");', v)
        if m:
            vmagic = byte_lit(m.group(1), vrel)
        elif "META_MAGIC" in imported:
            vmagic = magic
        else:
            raise Miss("vacuum.rs: CSR meta magic not found")
        emit_bytes("csr_magic_vacuum", vmagic, vrel + " mark_csr_segment_pages: the magic it accepts")
        if "META_HEADER_SIZE" in imported and "META_HEADER_SIZE" in consts and re.search(r"let mut off = META_HEADER_SIZE;", v):
            vhdr = consts["META_HEADER_SIZE"]
        else:
            vhdr = num(one(r"let mut off = (\d+)usize;", v, vrel, "vacuum list offset"))
        emit_n("csr_hdr_vacuum", vhdr, vrel + " mark_csr_segment_pages: where it starts reading page ids")
        m = re.search(r"for i in 0\.\.(\d+) \{\s*let at = META_PAGE_COUNTS_OFFSET \+ i \* 4;", v)
        if m and "META_PAGE_COUNTS_OFFSET" in imported and "META_PAGE_COUNTS_OFFSET" in consts:
            vn, voff = int(m.group(1)), consts["META_PAGE_COUNTS_OFFSET"]
        else:
            cs = re.findall(r"let \w+_page_count = u32::from_le_bytes\(meta\[(\d+)\.\.(\d+)\]", v)
            if not cs:
                raise Miss("vacuum.rs: page counts not found")
            vn, voff = len(cs), int(cs[0][0])
        emit_n("csr_counts_off_vacuum", voff, vrel + " mark_csr_segment_pages: offset of the first page count")
        emit_n("csr_nlists_vacuum", vn, vrel + " mark_csr_segment_pages: number of page lists it marks")

    def gen_vacuum_roots():
        vrel = "nervusdb-storage/src/vacuum.rs"
        v = fn_body(src(vrel), "mark_reachable_pages", vrel)
        names = re.findall(r'name == "([^"]+)"', v)
        if sorted(names) != ["__sys_hnsw_graph", "__sys_hnsw_vec"]:
            raise Miss("vacuum.rs: the catalog entries whose payloads are blob ids changed: %r" % names)
        # order of the marking phases (the model Store/Vacuum.v follows this order)
        order = [v.index(x) for x in ("pager.i2e_start_page()", "pager.index_catalog_root()", "roots.properties_root != 0", "roots.stats_root != 0", "for seg in &roots.segments")]
        if order != sorted(order):
            raise Miss("vacuum.rs: marking phases reordered")

    return [gen_pager, gen_idmap, gen_blob, gen_csr, gen_vacuum_roots]
