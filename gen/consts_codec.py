"""Constants of the value / WAL codecs (C25, C17), re-read from the Rust source.

PropertyValue tags are read twice — from `encode` (`vec![N]` per variant) and
from `decode_recursive` (the match arm that builds the variant) — and must
agree; the same for the WAL record types (`record_type` vs the `decode_body`
arms).  A disagreement is a broken codec and is reported as a pattern miss.
"""
import re

PV_VARIANTS = ["Null", "Bool", "Int", "Float", "String", "DateTime", "Blob", "List", "Map"]
WAL_VARIANTS = ["BeginTx", "CommitTx", "PageWrite", "PageFree", "CreateLabel", "CreateNode", "AddNodeLabel",
                "RemoveNodeLabel", "CreateEdge", "TombstoneNode", "TombstoneEdge", "ManifestSwitch", "Checkpoint",
                "SetNodeProperty", "SetEdgeProperty", "RemoveNodeProperty", "RemoveEdgeProperty"]


def generators(core):
    Miss = core.Miss

    def arms(body, what):
        """[(number, arm text)] of a `match ty { N => ..., }` whose arms start at a fixed indent"""
        ms = list(re.finditer(r"\n( +)(\d+) => ", body))
        if not ms:
            raise Miss("no numeric match arms in %s" % what)
        ind = min(len(m.group(1)) for m in ms)
        ms = [m for m in ms if len(m.group(1)) == ind]
        res = []
        for i, m in enumerate(ms):
            end = ms[i + 1].start() if i + 1 < len(ms) else len(body)
            res.append((int(m.group(2)), body[m.end():end]))
        return res

    def gen_pv():
        rel = "nervusdb-api/src/lib.rs"
        t = core.src(rel)
        try:
            enc = t[t.index("pub fn encode(&self)"): t.index("pub fn decode(bytes")]
            dec = t[t.index("fn decode_recursive"): t.index("pub fn as_float")]
        except ValueError:
            raise Miss("PropertyValue::encode/decode_recursive not found in %s" % rel)
        enc_tag = {}
        for v in PV_VARIANTS:
            m = re.search(r"PropertyValue::%s(?:\([^)]*\))?\s*=>\s*(?:\{\s*let mut out = )?vec!\[(\d+)\]" % v, enc)
            if not m:
                raise Miss("encode tag of PropertyValue::%s" % v)
            enc_tag[v] = int(m.group(1))
        dec_tag = {}
        for n, a in arms(dec, "decode_recursive"):
            m = re.search(r"Ok\(\(\s*PropertyValue::(\w+)", a)
            if not m:
                raise Miss("decode arm %d builds no PropertyValue" % n)
            if m.group(1) in dec_tag:
                raise Miss("two decode arms build PropertyValue::%s" % m.group(1))
            dec_tag[m.group(1)] = n
        for v in PV_VARIANTS:
            if dec_tag.get(v) != enc_tag[v]:
                raise Miss("PropertyValue::%s: encode tag %s but decode arm %s" % (v, enc_tag[v], dec_tag.get(v)))
            core.emit_n("pv_tag_" + v.lower(), enc_tag[v], rel + " PropertyValue::encode / decode_recursive")
        if len(set(enc_tag.values())) != len(enc_tag):
            raise Miss("PropertyValue tags collide: %r" % enc_tag)
        # how the list arm sizes its vector (the model follows whichever form the code has)
        la = [a for n, a in arms(dec, "decode_recursive") if n == enc_tag["List"]][0]
        m = re.search(r"let mut items(?:\s*:\s*[^=]+)?\s*=\s*([^;]*);", la)
        if not m:
            raise Miss("list arm of decode_recursive: `let mut items = ...;` not found")
        arg = re.sub(r"\s+", "", m.group(1))
        if arg == "Vec::with_capacity(count)":
            mode = 0
        elif arg in ("Vec::with_capacity(count.min(bytes.len()-pos))", "Vec::with_capacity(count.min(bytes.len()-5))"):
            mode = 1
        elif arg in ("Vec::new()", "vec![]"):
            mode = 2
        else:
            raise Miss("list arm of decode_recursive: unknown vector initialisation %r" % arg)
        core.emit_n("pv_list_prealloc", mode, "how the list arm of decode_recursive sizes its vector: 0 = with_capacity(count) (count is input), 1 = with_capacity(min(count, remaining bytes)), 2 = no reservation (Vec::new)")
        # nesting-depth limit of the decoder: both container arms must refuse at `depth >= MAX_PROPERTY_NESTING`
        # and recurse with `depth + 1`
        mm = re.search(r"\bconst\s+MAX_PROPERTY_NESTING\s*:\s*usize\s*=\s*([^;]+);", t)
        ma0 = [a for n, a in arms(dec, "decode_recursive") if n == enc_tag["Map"]][0]
        chk = re.compile(r"if depth >= MAX_PROPERTY_NESTING \{\s*return Err\(DecodeError::TooDeep\);\s*\}")
        if mm:
            if not (chk.search(la) and chk.search(ma0)):
                raise Miss("MAX_PROPERTY_NESTING exists but the list/map arms of decode_recursive do not both refuse at depth >= MAX_PROPERTY_NESTING")
            if dec.count("decode_recursive(&bytes[pos..], depth + 1)") != 2 or "Self::decode_recursive(bytes, 0)" not in t:
                raise Miss("decode_recursive: children are not decoded at depth + 1 / top level not at depth 0")
            core.emit_n("pv_nesting_limited", 1, rel + " decode_recursive refuses lists/maps at depth >= MAX_PROPERTY_NESTING")
            core.emit_n("pv_max_nesting", core.expr(mm.group(1)), rel + " MAX_PROPERTY_NESTING")
        else:
            if "depth" in dec:
                raise Miss("decode_recursive mentions a depth but MAX_PROPERTY_NESTING is not defined")
            core.emit_n("pv_nesting_limited", 0, rel + " decode_recursive has no nesting-depth limit")
            core.emit_n("pv_max_nesting", 0, rel + " (no MAX_PROPERTY_NESTING)")
        ma = [a for n, a in arms(dec, "decode_recursive") if n == enc_tag["Map"]][0]
        if "BTreeMap::new()" not in ma or "with_capacity" in ma:
            raise Miss("map arm of decode_recursive no longer builds a plain BTreeMap::new()")

    def gen_wal():
        rel = "nervusdb-storage/src/wal.rs"
        t = core.src(rel)
        try:
            rt = t[t.index("fn record_type(&self)"): t.index("fn encode_body(&self)")]
            dec = t[t.index("fn decode_body(body"): t.index("pub struct Wal {")]
        except ValueError:
            raise Miss("record_type/decode_body not found in %s" % rel)
        enc_tag = {}
        for v in WAL_VARIANTS:
            m = re.search(r"WalRecord::%s \{ \.\. \} => (\d+)," % v, rt)
            if not m:
                raise Miss("record_type of WalRecord::%s" % v)
            enc_tag[v] = int(m.group(1))
        n_arms = len(re.findall(r"WalRecord::\w+ \{ \.\. \} =>", rt))
        if n_arms != len(WAL_VARIANTS):
            raise Miss("record_type has %d arms, the model knows %d record kinds" % (n_arms, len(WAL_VARIANTS)))
        dec_tag = {}
        for n, a in arms(dec, "decode_body"):
            m = re.search(r"Ok\(WalRecord::(\w+)", a)
            if not m:
                raise Miss("decode_body arm %d builds no WalRecord" % n)
            if m.group(1) in dec_tag:
                raise Miss("two decode_body arms build WalRecord::%s" % m.group(1))
            dec_tag[m.group(1)] = n
        for v in WAL_VARIANTS:
            if dec_tag.get(v) != enc_tag[v]:
                raise Miss("WalRecord::%s: record_type %s but decode arm %s" % (v, enc_tag[v], dec_tag.get(v)))
            core.emit_n("wal_ty_" + re.sub(r"(?<!^)(?=[A-Z])", "_", v).lower(), enc_tag[v], rel + " record_type / decode_body")
        if len(set(enc_tag.values())) != len(enc_tag):
            raise Miss("WAL record types collide: %r" % enc_tag)
        core.emit_n("wal_max_record_len", core.expr(core.const(t, "MAX_WAL_RECORD_LEN", rel)), rel + " MAX_WAL_RECORD_LEN")
        lib = core.src("nervusdb-storage/src/lib.rs")
        core.emit_n("storage_page_size", core.expr(core.const(lib, "PAGE_SIZE", "nervusdb-storage/src/lib.rs")), "nervusdb-storage/src/lib.rs PAGE_SIZE")
        # the ManifestSwitch length check: `payload.len() < segments_end + K`
        ms = [a for n, a in arms(dec, "decode_body") if n == enc_tag["ManifestSwitch"]][0]
        m = re.search(r"payload\.len\(\) < segments_end \+ (\d+)", ms)
        if not m:
            raise Miss("ManifestSwitch arm: `payload.len() < segments_end + K` not found")
        core.emit_n("wal_manifest_tail_check", int(m.group(1)), rel + " decode_body ManifestSwitch: bytes required after the segment table by the length check (16 are read)")
        # does encode_body refuse property values the decoder would refuse?
        try:
            eb = t[t.index("fn encode_body(&self)"): t.index("fn decode_body(body")]
        except ValueError:
            raise Miss("encode_body not found")
        n_chk = len(re.findall(r"if value\.exceeds_nesting\(nervusdb_api::MAX_PROPERTY_NESTING\) \{[^}]*return Err\(", eb))
        if n_chk not in (0, 2):
            raise Miss("encode_body: nesting check present in %d of the 2 property arms" % n_chk)
        core.emit_n("wal_encode_checks_nesting", 1 if n_chk == 2 else 0, rel + " encode_body: 1 iff SetNodeProperty/SetEdgeProperty refuse a value nested deeper than MAX_PROPERTY_NESTING")
        # what next_record does with the length field
        try:
            nr = t[t.index("fn next_record(&mut self)"): t.index("fn try_read_u32(&mut self)")]
        except ValueError:
            raise Miss("WalReader::next_record not found")
        nrc = re.sub(r"//[^\n]*", "", nr)
        nrc = re.sub(r"\s+", " ", nrc)
        if re.search(r"if len > MAX_WAL_RECORD_LEN \{ return Err\(Error::WalRecordTooLarge\(len\)\); \}", nrc):
            pol = 0
        elif re.search(r"if len == 0 \|\| len > MAX_WAL_RECORD_LEN \{ return Ok\(None\); \}", nrc):
            pol = 1
        else:
            raise Miss("next_record: unknown treatment of the length field")
        core.emit_n("wal_reader_len_policy", pol, rel + " next_record: 0 = a length field > MAX is an error; 1 = a length field that is 0 or > MAX ends the log")
        if not re.search(r"if got_crc != crc \{ return Ok\(None\); \}", nrc):
            raise Miss("next_record: CRC mismatch no longer ends the log")
        if "let record = WalRecord::decode_body(&body)?;" not in nr:
            raise Miss("next_record: decode_body error no longer propagated")
        # does append refuse records the reader would not take back?
        try:
            ap = t[t.index("pub fn append(&mut self"): t.index("pub fn rewrite_as_snapshot")]
        except ValueError:
            raise Miss("Wal::append not found")
        apc = re.sub(r"\s+", " ", re.sub(r"//[^\n]*", "", ap))
        core.emit_n("wal_append_checks_max", 1 if re.search(r"if len > MAX_WAL_RECORD_LEN \{ return Err\(Error::WalRecordTooLarge\(len\)\); \}", apc) else 0,
                    rel + " Wal::append: 1 iff a body longer than MAX_WAL_RECORD_LEN is refused")
        if "file.seek(SeekFrom::End(0))?;" not in ap:
            raise Miss("Wal::append no longer writes at the end of the file")
        # does GraphEngine::open cut a torn tail off before anything is appended?
        eng = core.src("nervusdb-storage/src/engine.rs")
        try:
            op = eng[eng.index("pub fn open(ndb_path"): eng.index("pub fn ndb_path(&self)")]
        except ValueError:
            raise Miss("GraphEngine::open not found")
        trunc = 0
        if "truncate_torn_tail" in op:
            if "pub fn truncate_torn_tail" not in t or op.index("truncate_torn_tail") > op.index("replay_committed"):
                raise Miss("GraphEngine::open: truncate_torn_tail is not called before replay_committed")
            trunc = 1
        core.emit_n("wal_open_truncates_tail", trunc, "engine.rs GraphEngine::open: 1 iff the log is cut back to the end of its last complete record before it is replayed and appended to")
        # CRC: crc32fast = IEEE 802.3, reflected polynomial
        if "crc32fast::Hasher" not in t:
            raise Miss("wal.rs no longer uses crc32fast::Hasher")
        core.emit_n("crc32_poly_reflected", 0xEDB88320, "crc32fast (IEEE 802.3 CRC-32), reflected polynomial; wal.rs uses crc32fast::Hasher")

    return [gen_pv, gen_wal]
