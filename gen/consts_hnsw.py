"""Constants of the HNSW vector index (C31) and of node-id allocation (C32), re-read from /repo.

Loaded by gen/consts.py (`generators(core)` returns the generator functions).
A pattern that no longer matches raises core.Miss -> exit 2 of gen/consts.py.
"""
import re


def generators(core):
    src, num, expr, const, Miss = core.src, core.num, core.expr, core.const, core.Miss
    emit_n = core.emit_n

    def gen_hnsw():
        # defaults of HnswParams
        rel = "nervusdb-storage/src/index/hnsw/params.rs"
        t = src(rel)
        m = re.search(r"impl Default for HnswParams\s*\{.*?Self\s*\{(.*?)\}", t, re.S)
        if not m:
            raise Miss("HnswParams::default not found in " + rel)
        body = m.group(1)
        for field in ("m", "ef_construction", "ef_search"):
            f = re.search(r"\b%s\s*:\s*([0-9_]+)" % field, body)
            if not f:
                raise Miss("default of HnswParams.%s not found" % field)
            emit_n("hnsw_default_" + field, num(f.group(1)), rel + " Default")
        # the same defaults as the environment loader's fallbacks must agree
        rel_e = "nervusdb-storage/src/engine.rs"
        e = src(rel_e)
        for field, var in (("m", "NERVUSDB_HNSW_M"), ("ef_construction", "NERVUSDB_HNSW_EF_CONSTRUCTION"), ("ef_search", "NERVUSDB_HNSW_EF_SEARCH")):
            f = re.search(r'parse_hnsw_env_usize\("%s",\s*([0-9_]+)\)' % var, e)
            if not f:
                raise Miss("env default of %s not found in %s" % (var, rel_e))
            emit_n("hnsw_env_default_" + field, num(f.group(1)), rel_e + " load_hnsw_params_from_env")
        if not re.search(r"\.filter\(\|v\|\s*\*v\s*>\s*0\)", e):
            raise Miss("parse_hnsw_env_usize no longer filters zero values")
        # level cap, link truncation rule
        rel_l = "nervusdb-storage/src/index/hnsw/logic.rs"
        l = src(rel_l)
        f = re.search(r"as u8\)\.min\((\d+)\)", l)
        if not f:
            raise Miss("level cap not found in " + rel_l)
        emit_n("hnsw_level_cap", num(f.group(1)), rel_l + " random_level")
        f = re.search(r"n_neighbors\.len\(\)\s*>\s*self\.params\.m\s*\*\s*(\d+)\s*\{\s*n_neighbors\.truncate\(self\.params\.m\)", l)
        if not f:
            raise Miss("back-link truncation rule changed shape in " + rel_l)
        emit_n("hnsw_trunc_factor", num(f.group(1)), rel_l + " insert: truncate to m when len > factor*m")
        if not re.search(r"1\.0\s*/\s*\(self\.params\.m as f64\)\.ln\(\)", l):
            raise Miss("level multiplier 1/ln(m) not found in " + rel_l)
        # storage keys and cache
        rel_s = "nervusdb-storage/src/index/hnsw/storage.rs"
        s = src(rel_s)
        for name in ("TAG_META", "TAG_VECTOR", "TAG_GRAPH"):
            emit_n("hnsw_" + name.lower(), num(const(s, name, rel_s)), rel_s)
        emit_n("hnsw_vector_cache_cap", num(const(s, "DEFAULT_VECTOR_CACHE_CAP", rel_s)), rel_s)
        # B-tree page geometry used by the page-level store model
        rel_b = "nervusdb-storage/src/index/btree.rs"
        b = src(rel_b)
        emit_n("hnsw_bt_leaf_header", num(const(b, "COMMON_HEADER_SIZE", rel_b)), rel_b)
        emit_n("hnsw_bt_internal_header", num(const(b, "INTERNAL_HEADER_SIZE", rel_b)), rel_b)
        lib = src("nervusdb-storage/src/lib.rs")
        emit_n("hnsw_bt_page_size", num(const(lib, "PAGE_SIZE", "nervusdb-storage/src/lib.rs")), "nervusdb-storage/src/lib.rs")
        # cell = varint(key_len) + key + 8 bytes payload/child, plus a 2-byte slot; insert refused when free < cell_len + 2
        if not re.search(r"let cell_len = var_len \+ key\.len\(\) \+ 8;", b) or not re.search(r"let cell_len = 8 \+ var_len \+ key\.len\(\);", b):
            raise Miss("B-tree cell length formula changed in " + rel_b)
        if len(re.findall(r"if free < cell_len \+ 2 \{", b)) != 2:
            raise Miss("B-tree free-space test changed in " + rel_b)
        emit_n("hnsw_bt_cell_overhead", 1 + 8 + 2, rel_b + " varint(1) + payload(8) + slot(2), keys shorter than 128 bytes")

    return [gen_hnsw]
