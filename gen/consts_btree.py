"""Constants of the on-disk B-tree (C26), re-read from the Rust source on every run.

Sizes come from `const` items; the small literals that are written inline in
btree.rs (slot width, payload width, child-pointer width, varint radix) are
re-read from the expressions that use them, and the comparison operators of the
two hand-written binary searches plus the split-point function and its two call sites are pinned by
pattern (a changed operator is a hard error: the model would no longer be the
code).
"""
import re


def generators(core):
    Miss = core.Miss

    def need(pat, text, what, flags=re.S):
        m = re.search(pat, text, flags)
        if not m:
            raise Miss("btree.rs: %s (pattern %r)" % (what, pat))
        return m

    def body(text, start_pat, what):
        m = need(start_pat, text, what)
        rest = text[m.start():]
        e = re.search(r"\n    }\n", rest)
        if not e:
            raise Miss("btree.rs: end of %s" % what)
        return rest[: e.end()]

    def body_fn(text, start_pat, what):
        m = need(start_pat, text, what)
        rest = text[m.start():]
        e = re.search(r"\n}\n", rest)
        if not e:
            raise Miss("btree.rs: end of %s" % what)
        return rest[: e.end()]

    def gen_btree():
        rel = "nervusdb-storage/src/index/btree.rs"
        t = core.src(rel)
        lib = core.src("nervusdb-storage/src/lib.rs")
        pg = core.src("nervusdb-storage/src/pager.rs")
        page_size = core.expr(core.const(lib, "PAGE_SIZE", "lib.rs"))
        core.emit_n("bt_page_size", page_size, "nervusdb-storage/src/lib.rs PAGE_SIZE")
        core.emit_n("bt_leaf_header", core.expr(core.const(t, "COMMON_HEADER_SIZE", rel)), rel + " COMMON_HEADER_SIZE (leaf header, slots start here)")
        core.emit_n("bt_internal_header", core.expr(core.const(t, "INTERNAL_HEADER_SIZE", rel)), rel + " INTERNAL_HEADER_SIZE")
        for name in ["OFF_KIND", "OFF_CELL_COUNT", "OFF_CELL_CONTENT_BEGIN", "OFF_RIGHT_SIBLING", "OFF_LEFTMOST_CHILD"]:
            core.emit_n("bt_" + name.lower(), core.expr(core.const(t, name, rel)), rel + " " + name)
        # slot width: `slots + i * 2`, `cell_count() * 2`, `free < cell_len + 2`
        f = body(t, r"fn slot_get\(", "slot_get")
        slot = core.num(need(r"slots \+ i \* (\d+)", f, "slot width in slot_get").group(1))
        f = body(t, r"fn free_space\(", "free_space")
        slot2 = core.num(need(r"self\.cell_count\(\) \* (\d+)", f, "slot width in free_space").group(1))
        need(r"begin\.saturating_sub\(ptr_end\)", f, "free_space = begin - ptr_end")
        f = body(t, r"fn leaf_insert_at\(", "leaf_insert_at")
        slot3 = core.num(need(r"if free < cell_len \+ (\d+)", f, "fit test of leaf_insert_at").group(1))
        payload = core.num(need(r"let cell_len = var_len \+ key\.len\(\) \+ (\d+);", f, "leaf cell length").group(1))
        f = body(t, r"fn internal_insert_at\(", "internal_insert_at")
        slot4 = core.num(need(r"if free < cell_len \+ (\d+)", f, "fit test of internal_insert_at").group(1))
        child = core.num(need(r"let cell_len = (\d+) \+ var_len \+ key\.len\(\);", f, "internal cell length").group(1))
        if len({slot, slot2, slot3, slot4}) != 1:
            raise Miss("btree.rs: slot widths disagree: %r" % [slot, slot2, slot3, slot4])
        core.emit_n("bt_slot_size", slot, rel + " slot width (slot_get, free_space, both fit tests)")
        core.emit_n("bt_payload_size", payload, rel + " leaf cell = varint(len) key payload(u64)")
        core.emit_n("bt_child_size", child, rel + " internal cell = child(u64) varint(len) key")
        f = body(t, r"fn varint_u32_len\(", "varint_u32_len")
        core.emit_n("bt_varint_radix", core.num(need(r"while v >= (0x[0-9a-fA-F]+)", f, "varint radix").group(1)), rel + " varint_u32_len: one more byte per factor of this")
        need(r"v >>= 7;", f, "varint shift 7")
        # the two hand-written binary searches and the medians
        f = body(t, r"fn leaf_lower_bound\(", "leaf_lower_bound")
        need(r"let mid = \(lo \+ hi\) / 2;.*?if k < target \{\s*lo = mid \+ 1;\s*\} else \{\s*hi = mid;", f, "leaf_lower_bound is a lower bound (k < target)")
        f = body(t, r"fn internal_child_for_key\(", "internal_child_for_key")
        need(r"let mid = \(lo \+ hi\) / 2;.*?if k <= target \{\s*lo = mid \+ 1;\s*\} else \{\s*hi = mid;", f, "internal_child_for_key is an upper bound (k <= target)")
        core.emit_n("bt_descent_is_upper_bound", 1, rel + " internal_child_for_key: `if k <= target` (pinned)")
        core.emit_n("bt_leaf_pos_is_lower_bound", 1, rel + " leaf_lower_bound: `if k < target` (pinned)")
        # split point: closest to the median such that both halves fit (fn split_point), used by both splits
        f = body_fn(t, r"fn split_point\(", "split_point")
        need(r"let mut mid = len / 2;\s*while mid > 0 && left\(mid\) > capacity \{\s*mid -= 1;\s*\}\s*while mid \+ 1 < len && right\(mid\) > capacity \{\s*mid \+= 1;\s*\}\s*if left\(mid\) > capacity \|\| right\(mid\) > capacity \{\s*return None;", f, "split_point: median, shrink left, shrink right, both must fit")
        need(r"let left = \|mid: usize\| costs\[\.\.mid\]\.iter\(\)\.sum::<usize>\(\);\s*let right = \|mid: usize\| costs\[mid \+ skip\.\.\]\.iter\(\)\.sum::<usize>\(\);", f, "split_point: halves are costs[..mid] and costs[mid+skip..]")
        need(r"split_point\(&costs, 0, PAGE_SIZE - COMMON_HEADER_SIZE\)\s*\.ok_or\(Error::WalProtocol\(\"index page: no space\"\)\)\?;\s*let left_entries = entries\[\.\.mid\]\.to_vec\(\);\s*let right_entries = entries\[mid\.\.\]\.to_vec\(\);\s*let sep_key = right_entries\[0\]\.0\.clone\(\);", t, "leaf split at split_point, separator = first key of the right node")
        need(r"split_point\(&costs, 1, PAGE_SIZE - INTERNAL_HEADER_SIZE\)\s*\.ok_or\(Error::WalProtocol\(\"index page: no space\"\)\)\?;\s*let promote = keys\[mid\]\.clone\(\);", t, "internal split at split_point promotes keys[mid]")
        need(r"fn leaf_cell_cost\(key: &\[u8\]\) -> usize \{\s*varint_u32_len\(key\.len\(\) as u32\) \+ key\.len\(\) \+ 8 \+ 2\s*\}", t, "leaf_cell_cost = cell length + slot")
        need(r"fn internal_cell_cost\(key: &\[u8\]\) -> usize \{\s*8 \+ varint_u32_len\(key\.len\(\) as u32\) \+ key\.len\(\) \+ 2\s*\}", t, "internal_cell_cost = cell length + slot")
        need(r"binary_search_by\(\|\(k, _\)\| k\.as_slice\(\)\.cmp\(key\)\)\s*\.unwrap_or_else\(\|p\| p\);", t, "split position by slice::binary_search_by on the key")
        need(r"\(k, v\)\.cmp\(&\(key, payload\)\)", t, "delete searches by slice::binary_search_by on (key, payload)")
        core.emit_n("bt_first_data_page", core.num(need(r"const FIRST_DATA_PAGE_ID: PageId = PageId\((\d+)\);", pg, "FIRST_DATA_PAGE_ID").group(1)), "nervusdb-storage/src/pager.rs FIRST_DATA_PAGE_ID")
        need(r"const BITMAP_BITS: u64 = \(PAGE_SIZE as u64\) \* 8;", pg, "BITMAP_BITS")
        core.emit_n("bt_max_pages", page_size * 8, "nervusdb-storage/src/pager.rs BITMAP_BITS = PAGE_SIZE * 8")

    return [gen_btree]
