"""Constants of the Cypher value model (C20, C21, C23), re-read from nervusdb-query.

* declaration order of `enum Value` (derive(PartialOrd) compares variants by
  it: used by `l.partial_cmp(r)` on maps in order_compare_non_null),
* the cross-type rank table `value_order_rank` of ORDER BY.
"""
import re


def generators(g):
    def gen_value_enum():
        rel = "nervusdb-query/src/executor/core_types.rs"
        t = g.src(rel)
        m = re.search(r"#\[derive\(([^)]*)\)\]\s*pub enum Value\s*\{(.*?)\n\}", t, re.S)
        if not m:
            raise g.Miss("enum Value not found in " + rel)
        derives = [d.strip() for d in m.group(1).split(",")]
        for need in ("PartialEq", "PartialOrd"):
            if need not in derives:
                raise g.Miss("enum Value no longer derives %s" % need)
        names = re.findall(r"^\s*([A-Z][A-Za-z]*)\s*(?:\(|,)", m.group(2), re.M)
        want = ["NodeId", "ExternalId", "EdgeKey", "Int", "Float", "String", "Bool", "Null", "List",
                "DateTime", "Blob", "Map", "Path", "Node", "Relationship", "ReifiedPath"]
        if sorted(names) != sorted(want):
            raise g.Miss("enum Value variants changed: %r" % names)
        for i, n in enumerate(names):
            g.emit_n("cy_variant_" + n, i, rel + " enum Value declaration index (derive(PartialOrd))")

    def gen_rank():
        rel = "nervusdb-query/src/evaluator/evaluator_compare.rs"
        t = g.src(rel)
        m = re.search(r"fn value_order_rank\(value: &Value\) -> u8 \{\s*match value \{(.*?)\n    \}", t, re.S)
        if not m:
            raise g.Miss("value_order_rank not found in " + rel)
        ranks = {}
        for arm in re.finditer(r"((?:Value::\w+\([^)]*\)|Value::\w+)(?:\s*\|\s*(?:Value::\w+\([^)]*\)|Value::\w+))*)\s*=>\s*(\d+)", m.group(1)):
            for v in re.findall(r"Value::(\w+)", arm.group(1)):
                ranks[v] = int(arm.group(2))
        for v in ["Map", "NodeId", "EdgeKey", "List", "Path", "String", "Bool", "Int", "Float", "Null"]:
            if v not in ranks:
                raise g.Miss("value_order_rank has no arm for %s" % v)
            g.emit_n("cy_rank_" + v, ranks[v], rel + " value_order_rank")

    return [gen_value_enum, gen_rank]
