"""Constants of the parser's depth budget (C16), re-read from /repo.

Loaded by gen/consts.py (`generators(core)` returns the generator functions).
A pattern that no longer matches raises core.Miss -> exit 2 of gen/consts.py.
"""
import re


def generators(core):
    src, num, Miss, emit_n = core.src, core.num, core.Miss, core.emit_n

    def gen_parser_depth():
        rel = "nervusdb-query/src/parser.rs"
        t = src(rel)
        m = re.search(r"const MAX_DEPTH_BUDGET: usize = if cfg!\(debug_assertions\) \{\s*([0-9_]+)\s*\} else \{\s*([0-9_]+)\s*\};", t)
        if not m:
            raise Miss("MAX_DEPTH_BUDGET (debug / release) not found in " + rel)
        emit_n("parser_depth_budget_debug", num(m.group(1)), rel + " TokenParser::MAX_DEPTH_BUDGET with debug assertions (the harness profile)")
        emit_n("parser_depth_budget_release", num(m.group(2)), rel + " TokenParser::MAX_DEPTH_BUDGET without debug assertions")
        for name, const in (("parser_expression_nesting_cost", "EXPRESSION_NESTING_COST"), ("parser_query_nesting_cost", "QUERY_NESTING_COST")):
            c = re.search(r"const %s: usize = ([0-9_]+);" % const, t)
            if not c:
                raise Miss("%s not found in %s" % (const, rel))
            emit_n(name, num(c.group(1)), rel + " TokenParser::" + const)
        # the four recursive productions must go through `nested`, the chains through `push_down`
        for fn, cost in (("parse_query", "QUERY_NESTING_COST"), ("parse_foreach", "QUERY_NESTING_COST"), ("parse_pattern", "EXPRESSION_NESTING_COST"), ("parse_expression_bp", "EXPRESSION_NESTING_COST")):
            if not re.search(r"fn %s\(&mut self[^)]*\)[^{]*\{\s*self\.nested\(Self::%s," % (fn, cost), t):
                raise Miss("%s no longer runs under self.nested(Self::%s, ..)" % (fn, cost))
        if len(re.findall(r"self\.push_down\(", t)) < 12:
            raise Miss("fewer push_down call sites than the model assumes (operator, postfix, clause, UNION, hop and pattern-list chains)")

    return [gen_parser_depth]
